//! C10: (G) one implementation test per vector emitted by MC_HLCCodec, and
//! (V) random u64 / random texts recorded for Trace_Codec.

use std::io::Write;
use std::str::FromStr;
use std::time::Duration;

use datacake_crdt::HLCTimestamp;
use rand::rngs::StdRng;
use rand::{Rng, SeedableRng};
use serde_json::{json, Value};
use vcommon::{arg_or, for_each_payload, open_input, Summary};

fn limbs(v: u64) -> Value {
    json!([(v >> 48) & 0xFFFF, (v >> 32) & 0xFFFF, (v >> 16) & 0xFFFF, v & 0xFFFF])
}

fn from_limbs(v: &Value) -> u64 {
    let a = v.as_array().unwrap();
    (a[0].as_u64().unwrap() << 48) | (a[1].as_u64().unwrap() << 32) | (a[2].as_u64().unwrap() << 16) | a[3].as_u64().unwrap()
}

fn chars(s: &str) -> Value {
    Value::Array(s.chars().map(|c| Value::String(c.to_string())).collect())
}

fn text_of(v: &Value) -> String {
    v.as_array().unwrap().iter().map(|c| c.as_str().unwrap()).collect()
}

/// Accessor view of a real timestamp in the model's record shape.
fn fields(ts: &HLCTimestamp) -> Value {
    let s = ts.seconds();
    json!({"s": [(s >> 16) & 0xFFFF, s & 0xFFFF], "f": ts.fractional(), "c": ts.counter(), "n": ts.node()})
}

fn build(x: &Value) -> HLCTimestamp {
    let s = (x["s"][0].as_u64().unwrap() << 16) | x["s"][1].as_u64().unwrap();
    let d = Duration::from_secs(s) + Duration::from_millis(x["f"].as_u64().unwrap() * 4);
    HLCTimestamp::new(d, x["c"].as_u64().unwrap() as u16, x["n"].as_u64().unwrap() as u8)
}

/// parse under catch_unwind -> {"ok":bool, "ts":fields?, "panicked":bool}
fn parse(text: &str) -> Value {
    let t = text.to_string();
    match std::panic::catch_unwind(move || HLCTimestamp::from_str(&t)) {
        Ok(Ok(ts)) => json!({"ok": true, "ts": fields(&ts), "panicked": false}),
        Ok(Err(_)) => json!({"ok": false, "panicked": false}),
        Err(_) => json!({"ok": false, "panicked": true}),
    }
}

fn archived_roundtrip(ts: &HLCTimestamp) -> Result<HLCTimestamp, String> {
    let bytes = rkyv::to_bytes::<_, 64>(ts).map_err(|e| e.to_string())?;
    // datacake-crdt only derives check_bytes with its `rkyv-validation` feature, which the
    // other crates do not enable; access the archive the way they do (unchecked, aligned buffer).
    let archived = unsafe { rkyv::archived_root::<HLCTimestamp>(&bytes) };
    let a = archived.cast();
    let d: HLCTimestamp = unsafe { rkyv::from_bytes_unchecked(&bytes) }.map_err(|_| "deserialize failed".to_string())?;
    if a != d {
        return Err("archived cast and deserialize disagree".into());
    }
    Ok(a)
}

pub fn replay() {
    std::panic::set_hook(Box::new(|_| {}));
    let reader = open_input(&arg_or("--input", "-"));
    let passthrough = vcommon::arg("--passthrough");
    let out_path = arg_or("--out", "-");
    let mut sum = Summary::default();
    let mut by_kind = std::collections::BTreeMap::<String, u64>::new();
    let mut parse_ok = 0u64;
    for_each_payload(reader, passthrough.as_deref(), |tag, e| {
        if tag != "VEC" {
            return;
        }
        sum.evaluations += 1;
        let kind = e["kind"].as_str().unwrap().to_string();
        *by_kind.entry(kind.clone()).or_default() += 1;
        let mut why: Vec<String> = vec![];
        let mut observed = json!({});
        match kind.as_str() {
            "ts" => {
                let x = &e["x"];
                let r = std::panic::catch_unwind(|| {
                    let ts = build(x);
                    let text = ts.to_string();
                    (ts, text.clone(), parse(&text), archived_roundtrip(&ts), HLCTimestamp::from_u64(ts.as_u64()))
                });
                match r {
                    Err(_) => why.push("constructing / printing a valid timestamp panicked".into()),
                    Ok((ts, text, reparsed, arch, from_u64)) => {
                        observed = json!({"limbs": limbs(ts.as_u64()), "fields": fields(&ts), "text": text, "reparsed": reparsed,
                                          "archived": arch.as_ref().map(fields).map_err(|s| s.clone())});
                        if fields(&ts) != *x {
                            why.push("accessors do not return the fields the timestamp was built from".into());
                        }
                        if from_u64 != ts || fields(&from_u64) != *x {
                            why.push("packed form does not round-trip through from_u64".into());
                        }
                        if reparsed["ok"] != true || reparsed["ts"] != *x {
                            why.push("printing then parsing is not the identity".into());
                        }
                        match arch {
                            Ok(a) if a == ts => {},
                            _ => why.push("archived form does not round-trip".into()),
                        }
                        let dts = ts.datacake_timestamp();
                        if dts.as_secs() != ts.seconds() || (dts.subsec_millis() / 4) as u8 != ts.fractional() {
                            why.push("datacake_timestamp() disagrees with seconds()/fractional()".into());
                        }
                        // the two clock readings a stamp offers differ by the epoch, nothing else
                        if ts.unix_timestamp() != dts + datacake_crdt::DATACAKE_EPOCH {
                            why.push("unix_timestamp() is not datacake_timestamp() plus the epoch".into());
                        }
                        // a stamp built from its own reading is itself
                        if HLCTimestamp::new(dts, ts.counter(), ts.node()) != ts {
                            why.push("HLCTimestamp::new(datacake_timestamp(), counter(), node()) is another stamp".into());
                        }
                        // drift: exact packed layout and text against the specification
                        if limbs(ts.as_u64()) != e["limbs"] || chars(&text) != e["text"] {
                            sum.drift(json!({"what": "packed layout or text differs from the specification", "vec": e, "observed": observed}));
                        }
                    },
                }
            },
            "pair" => {
                let (a, b) = (build(&e["a"]), build(&e["b"]));
                let lt = a < b;
                let eq = a == b;
                observed = json!({"lt": lt, "eq": eq, "u64_lt": a.as_u64() < b.as_u64()});
                if lt != e["lt"].as_bool().unwrap() || eq != e["eq"].as_bool().unwrap() {
                    why.push("comparison disagrees with (time, counter, node) lexicographic order".into());
                }
                if (a.as_u64() < b.as_u64()) != lt {
                    why.push("order of the packed integers disagrees with the timestamp order".into());
                }
            },
            "text" => {
                let text = text_of(&e["s"]);
                let r = parse(&text);
                observed = r.clone();
                if r["panicked"] == true {
                    why.push("parsing panicked".into());
                }
                if r["ok"] == true {
                    parse_ok += 1;
                    // whatever was accepted must itself print/parse to the same value
                    let ts = build(&r["ts"]);
                    let again = parse(&ts.to_string());
                    if again["ok"] != true || again["ts"] != r["ts"] {
                        why.push("an accepted text yields a timestamp that does not round-trip".into());
                    }
                }
                let model = &e["parse"];
                let same = r["ok"] == model["ok"] && (r["ok"] != true || r["ts"] == model["ts"]);
                if !same && r["panicked"] != true {
                    sum.drift(json!({"what": "parse result differs from the specification", "text": text, "vec": e, "observed": observed}));
                }
            },
            other => panic!("unknown vector kind {other}"),
        }
        if !why.is_empty() {
            sum.violation(json!({"property": "C10", "why": why, "vec": e, "observed": observed}));
        }
        if sum.evaluations % 3000 == 1 {
            sum.sample(json!({"vec": e, "observed": observed}));
        }
    });
    sum.set("by_kind", json!(by_kind));
    sum.set("texts_accepted", parse_ok);
    sum.write(&out_path);
}

const ALPHABET: &[u8] = b"0123456789+-aAfFgx ";

/// (V) random u64s, random valid triples, random texts; one event per case.
pub fn record() {
    std::panic::set_hook(Box::new(|_| {}));
    let seed: u64 = arg_or("--seed", "1").parse().unwrap();
    let n: u64 = arg_or("--n", "2000").parse().unwrap();
    let out = arg_or("--out", "trace.ndjson");
    let mut f = std::io::BufWriter::new(std::fs::File::create(&out).expect("create trace"));
    let mut rng = StdRng::seed_from_u64(seed);
    let pick_u64 = |rng: &mut StdRng| -> u64 {
        match rng.gen_range(0..4) {
            0 => rng.gen(),
            1 => (rng.gen::<u64>() & 0xFFFF_FFFF_0000_0000) | ((rng.gen_range(0..250u64)) << 24) | (rng.gen::<u64>() & 0xFF_FFFF),
            2 => rng.gen_range(0..1u64 << 34),
            _ => u64::MAX - rng.gen_range(0..1u64 << 26),
        }
    };
    for i in 0..n {
        match i % 3 {
            0 => {
                let raw = pick_u64(&mut rng);
                let ts = HLCTimestamp::from_u64(raw);
                let text = ts.to_string();
                writeln!(f, "{}", json!({"ev": "u64", "limbs": limbs(raw), "fields": fields(&ts), "text": chars(&text),
                                         "reparsed": parse(&text)})).unwrap();
            },
            1 => {
                let (a, b) = (pick_u64(&mut rng), if rng.gen_bool(0.3) { pick_u64(&mut rng) ^ 1 } else { pick_u64(&mut rng) });
                let b = if rng.gen_bool(0.3) { a ^ (1u64 << rng.gen_range(0..64)) } else { b };
                let (ta, tb) = (HLCTimestamp::from_u64(a), HLCTimestamp::from_u64(b));
                writeln!(f, "{}", json!({"ev": "cmp", "a": limbs(a), "b": limbs(b), "lt": ta < tb, "eq": ta == tb})).unwrap();
            },
            _ => {
                let text: String = if rng.gen_bool(0.5) {
                    // near-canonical: mutate a printed timestamp
                    let mut s = HLCTimestamp::from_u64(pick_u64(&mut rng)).to_string().into_bytes();
                    for _ in 0..rng.gen_range(0..3) {
                        let p = rng.gen_range(0..s.len());
                        match rng.gen_range(0..3) {
                            0 => s[p] = ALPHABET[rng.gen_range(0..ALPHABET.len())],
                            1 => { s.remove(p); },
                            _ => s.insert(p, ALPHABET[rng.gen_range(0..ALPHABET.len())]),
                        }
                        if s.is_empty() { break; }
                    }
                    String::from_utf8(s).unwrap()
                } else {
                    let len = rng.gen_range(0..24);
                    (0..len).map(|_| ALPHABET[rng.gen_range(0..ALPHABET.len())] as char).collect()
                };
                writeln!(f, "{}", json!({"ev": "parse", "text": chars(&text), "result": parse(&text)})).unwrap();
            },
        }
    }
    f.flush().unwrap();
    println!("{}", json!({"events": n}));
    let _ = from_limbs;
}
