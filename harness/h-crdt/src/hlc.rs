//! C09: (G) replay of MC_HLC edges on the real HLCTimestamp with an injected
//! wall clock, and (V) recording of random send/recv runs for Trace_HLC.

use std::io::Write;
use std::time::Duration;

use datacake_crdt::{verif, HLCTimestamp, TimestampError};
use rand::rngs::StdRng;
use rand::{Rng, SeedableRng};
use serde_json::{json, Value};
use vcommon::{arg_or, for_each_payload, open_input, Summary};

const DRIFT_UNITS: u64 = 4100 * 250;

fn units(v: u64) -> Duration {
    Duration::from_millis(v * 4)
}

fn stamp(v: &Value) -> HLCTimestamp {
    let a = v.as_array().expect("stamp");
    HLCTimestamp::new(units(a[0].as_u64().unwrap()), a[1].as_u64().unwrap() as u16, a[2].as_u64().unwrap() as u8)
}

fn stamp_json(ts: &HLCTimestamp) -> Value {
    json!([ts.seconds() * 250 + ts.fractional() as u64, ts.counter(), ts.node()])
}

fn err_name(e: &TimestampError) -> &'static str {
    match e {
        TimestampError::DuplicatedNode(_) => "DuplicatedNode",
        TimestampError::ClockDrift => "ClockDrift",
        TimestampError::Overflow => "Overflow",
    }
}

struct Outcome {
    ok: bool,
    err: &'static str,
    out: Option<HLCTimestamp>,
    post: HLCTimestamp,
    panicked: bool,
}

fn call(pre: HLCTimestamp, wall: u64, msg: Option<HLCTimestamp>) -> Outcome {
    verif::set_wall(Some(units(wall)));
    let r = std::panic::catch_unwind(move || {
        let mut clock = pre;
        let res = match msg {
            None => clock.send(),
            Some(m) => clock.recv(&m),
        };
        (clock, res)
    });
    verif::set_wall(None);
    match r {
        Ok((post, Ok(out))) => Outcome { ok: true, err: "", out: Some(out), post, panicked: false },
        Ok((post, Err(e))) => Outcome { ok: false, err: err_name(&e), out: None, post, panicked: false },
        Err(_) => Outcome { ok: false, err: "panic", out: None, post: pre, panicked: true },
    }
}

/// The C09 facts about one call, from observables only. `hi`: newest stamp issued or accepted before.
fn judge(kind: &str, pre: HLCTimestamp, hi: Option<HLCTimestamp>, wall: u64, msg: Option<HLCTimestamp>, o: &Outcome) -> Vec<String> {
    let mut why = vec![];
    if o.panicked {
        why.push("the call panicked".to_string());
        return why;
    }
    if !o.ok {
        if o.post != pre {
            why.push("a failed request changed the clock".into());
        }
        return why;
    }
    if o.post.node() != pre.node() {
        why.push("the clock's node id changed".into());
    }
    if kind == "send" {
        let out = o.out.unwrap();
        if out != o.post {
            why.push("send returned a stamp different from the clock".into());
        }
        if out.node() != pre.node() {
            why.push("issued stamp does not carry the clock's node id".into());
        }
        if let Some(h) = hi {
            if !(h < out) {
                why.push("issued stamp not greater than a stamp issued or accepted before".into());
            }
        }
        if !(pre < out) {
            why.push("issued stamp not greater than the clock before the call".into());
        }
        let t = out.seconds() * 250 + out.fractional() as u64;
        if t > wall + DRIFT_UNITS {
            why.push("issued stamp further ahead of the wall clock than the permitted drift".into());
        }
    } else {
        let m = msg.unwrap();
        if !(m < o.post) {
            why.push("clock not greater than the accepted remote stamp".into());
        }
        if !(pre < o.post) {
            why.push("clock did not advance on recv".into());
        }
    }
    why
}

pub fn replay() {
    let reader = open_input(&arg_or("--input", "-"));
    let passthrough = vcommon::arg("--passthrough");
    let out_path = arg_or("--out", "-");
    let mut sum = Summary::default();
    let mut oks = 0u64;
    let mut fails = 0u64;
    for_each_payload(reader, passthrough.as_deref(), |tag, e| {
        if tag != "EDGE" {
            return;
        }
        sum.evaluations += 1;
        let op = &e["op"];
        let kind = op["kind"].as_str().unwrap();
        let pre = stamp(&op["pre"]);
        let hi = if op["hi"].as_array().unwrap().is_empty() { None } else { Some(stamp(&op["hi"])) };
        let wall = op["wall"].as_u64().unwrap();
        let msg = if kind == "recv" { Some(stamp(&op["msg"])) } else { None };
        let o = call(pre, wall, msg);
        if o.ok { oks += 1 } else { fails += 1 }
        let observed = json!({"ok": o.ok, "err": o.err, "out": o.out.as_ref().map(stamp_json), "post": stamp_json(&o.post)});
        let why = judge(kind, pre, hi, wall, msg, &o);
        if !why.is_empty() {
            sum.violation(json!({"property": "C09", "why": why, "op": op, "observed": observed}));
        }
        let model_out = if op["out"].as_array().unwrap().is_empty() { Value::Null } else { op["out"].clone() };
        if o.ok != op["ok"].as_bool().unwrap() || o.err != op["err"].as_str().unwrap()
            || stamp_json(&o.post) != op["post"] || observed["out"] != model_out {
            sum.drift(json!({"what": "outcome differs from the faithful layer", "op": op, "observed": observed}));
        }
        if sum.evaluations % 5000 == 1 {
            sum.sample(json!({"op": op, "observed": observed}));
        }
    });
    sum.set("ok_calls", oks);
    sum.set("failed_calls", fails);
    sum.write(&out_path);
}

/// (V) random runs on the real clock; one NDJSON event per call.
pub fn record() {
    let seed: u64 = arg_or("--seed", "1").parse().unwrap();
    let runs: u64 = arg_or("--runs", "50").parse().unwrap();
    let len: u64 = arg_or("--len", "200").parse().unwrap();
    let out = arg_or("--out", "trace.ndjson");
    let mut f = std::io::BufWriter::new(std::fs::File::create(&out).expect("create trace"));
    let mut rng = StdRng::seed_from_u64(seed);
    let mut events = 0u64;
    for run in 0..runs {
        let node: u8 = rng.gen_range(0..4);
        let base: u64 = rng.gen_range(0..5_000_000);
        let mut wall = base;
        let init_c: u16 = if rng.gen_bool(0.2) { 65_530 + rng.gen_range(0..6) } else { rng.gen_range(0..3) };
        let mut clock = HLCTimestamp::new(units(base + rng.gen_range(0..3)), init_c, node);
        writeln!(f, "{}", json!({"ev": "reset", "run": run, "clock": stamp_json(&clock)})).unwrap();
        events += 1;
        for _ in 0..len {
            // wall clock: mostly stalls or creeps, sometimes jumps either way
            wall = match rng.gen_range(0..10) {
                0..=3 => wall,
                4..=6 => wall + rng.gen_range(0..3),
                7 => wall.saturating_sub(rng.gen_range(0..2_000_000)),
                8 => wall + rng.gen_range(0..2_000_000),
                _ => base,
            };
            let is_send = rng.gen_bool(0.5);
            let msg = if is_send {
                None
            } else {
                let ct = clock.seconds() * 250 + clock.fractional() as u64;
                let t = match rng.gen_range(0..8) {
                    0 => ct,
                    1 => wall,
                    2 => wall + DRIFT_UNITS,
                    3 => wall + DRIFT_UNITS + 1,
                    4 => ct + rng.gen_range(0..3),
                    5 => wall.saturating_sub(rng.gen_range(0..1000)),
                    6 => wall + rng.gen_range(0..2 * DRIFT_UNITS),
                    _ => rng.gen_range(0..8_000_000),
                };
                let c: u16 = match rng.gen_range(0..5) {
                    0 => 65_535,
                    1 => 65_534,
                    2 => clock.counter(),
                    _ => rng.gen_range(0..4),
                };
                let n: u8 = if rng.gen_bool(0.1) { node } else { (node + 1 + rng.gen_range(0..3)) % 5 };
                Some(HLCTimestamp::new(units(t), c, n))
            };
            let pre = clock;
            let o = call(pre, wall, msg);
            clock = o.post;
            writeln!(f, "{}", json!({
                "ev": if is_send { "send" } else { "recv" },
                "wall": wall,
                "msg": msg.as_ref().map(stamp_json).unwrap_or(json!([])),
                "pre": stamp_json(&pre),
                "post": stamp_json(&o.post),
                "ok": o.ok,
                "err": o.err,
                "out": o.out.as_ref().map(stamp_json).unwrap_or(json!([])),
            })).unwrap();
            events += 1;
        }
    }
    f.flush().unwrap();
    println!("{}", json!({"events": events, "runs": runs}));
}
