mod model;
mod replay_ops;

fn main() {
    let cmd = std::env::args().nth(1).unwrap_or_default();
    match cmd.as_str() {
        "replay-ops" => replay_ops::main(),
        other => {
            eprintln!("unknown command {other:?}");
            std::process::exit(2);
        },
    }
}
