mod codec;
mod hlc;
mod model;
mod replay_merge;
mod replay_ops;

fn main() {
    let cmd = std::env::args().nth(1).unwrap_or_default();
    match cmd.as_str() {
        "replay-ops" => replay_ops::main(),
        "replay-merge" => replay_merge::main(),
        "replay-hlc" => hlc::replay(),
        "record-hlc" => hlc::record(),
        "replay-codec" => codec::replay(),
        "record-codec" => codec::record(),
        other => {
            eprintln!("unknown command {other:?}");
            std::process::exit(2);
        },
    }
}
