//! Mapping between the TLA+ model values (as JSON) and the real crdt types.

use std::collections::BTreeMap;
use std::time::Duration;

use datacake_crdt::{HLCTimestamp, OrSWotSet};
use serde_json::{json, Value};

/// A TLA+ function as (domain element, value) pairs. Sequences are 1-based.
pub fn fn_items(v: &Value) -> Vec<(u64, &Value)> {
    match v {
        Value::Array(a) => a.iter().enumerate().map(|(i, x)| (i as u64 + 1, x)).collect(),
        Value::Object(m) => {
            let mut out: Vec<(u64, &Value)> =
                m.iter().map(|(k, x)| (k.parse().expect("numeric domain"), x)).collect();
            out.sort_by_key(|p| p.0);
            out
        },
        _ => panic!("not a function: {v}"),
    }
}

#[derive(Clone, Copy)]
pub struct Scale {
    /// milliseconds per model time unit (1 800 000 for F = 2 ... 4 for F = 900 000, the stamp's own resolution)
    pub unit_ms: u64,
}

impl Scale {
    pub fn from_f(f: u64) -> Self {
        assert!(3_600_000 % f == 0 && (3_600_000 / f) % 4 == 0);
        Self { unit_ms: 3_600_000 / f }
    }

    /// model stamp `[t, c, n]` -> real stamp; `[]` -> None
    pub fn ts(&self, v: &Value) -> Option<HLCTimestamp> {
        let a = v.as_array().expect("stamp");
        if a.is_empty() {
            return None;
        }
        Some(HLCTimestamp::new(
            Duration::from_millis(a[0].as_u64().unwrap() * self.unit_ms),
            a[1].as_u64().unwrap() as u16,
            a[2].as_u64().unwrap() as u8,
        ))
    }

    /// real stamp -> model stamp JSON (exact only on the model grid; off-grid
    /// values are rendered as fractions of a unit in milliseconds)
    pub fn ts_json(&self, ts: &HLCTimestamp) -> Value {
        let ms = ts.datacake_timestamp().as_millis() as u64;
        let unit_ms = self.unit_ms;
        if ms % unit_ms == 0 {
            json!([ms / unit_ms, ts.counter(), ts.node()])
        } else {
            json!([format!("{}ms", ms), ts.counter(), ts.node()])
        }
    }

    pub fn opt_ts_json(&self, ts: Option<&HLCTimestamp>) -> Value {
        match ts {
            Some(t) => self.ts_json(t),
            None => json!([]),
        }
    }
}

/// Canonical projection of a real set in the shape of the model state:
/// {ent: {k: ts}, dead: {k: ts}, mx: {s: {n: ts}}, safe: {n: ts}} (absent = None).
pub fn project<const N: usize>(scale: Scale, set: &OrSWotSet<N>) -> Value {
    let p = set.verif_project();
    let ent: BTreeMap<String, Value> =
        p.entries.iter().map(|(k, ts)| (k.to_string(), scale.ts_json(ts))).collect();
    let dead: BTreeMap<String, Value> =
        p.dead.iter().map(|(k, ts)| (k.to_string(), scale.ts_json(ts))).collect();
    let mx: BTreeMap<String, BTreeMap<String, Value>> = p
        .max_stamps
        .iter()
        .enumerate()
        .map(|(s, m)| {
            (s.to_string(), m.iter().map(|(n, ts)| (n.to_string(), scale.ts_json(ts))).collect())
        })
        .collect();
    let safe: BTreeMap<String, Value> =
        p.safe_stamps.iter().map(|(n, ts)| (n.to_string(), scale.ts_json(ts))).collect();
    json!({"ent": ent, "dead": dead, "mx": mx, "safe": safe})
}

/// The model state JSON (`[ent, dead, mx, safe]` record with None = []) in the
/// same canonical shape as [project].
pub fn canon_model_state(st: &Value) -> Value {
    let sparse = |v: &Value| -> BTreeMap<String, Value> {
        fn_items(v)
            .into_iter()
            .filter(|(_, x)| !x.as_array().map(|a| a.is_empty()).unwrap_or(false))
            .map(|(k, x)| (k.to_string(), x.clone()))
            .collect()
    };
    let mx: BTreeMap<String, BTreeMap<String, Value>> =
        fn_items(&st["mx"]).into_iter().map(|(s, m)| (s.to_string(), sparse(m))).collect();
    json!({"ent": sparse(&st["ent"]), "dead": sparse(&st["dead"]), "mx": mx, "safe": sparse(&st["safe"])})
}

/// Live view through the public API: get(k) for every key of the universe.
pub fn live_view<const N: usize>(scale: Scale, set: &OrSWotSet<N>, keys: &[u64]) -> Value {
    Value::Array(keys.iter().map(|k| scale.opt_ts_json(set.get(k))).collect())
}

/// Tombstones through the public API: `default().diff(&set)` lists every
/// entry and every tombstone of `set`.
pub fn tombstones<const N: usize>(set: &OrSWotSet<N>) -> BTreeMap<u64, HLCTimestamp> {
    let (_, removed) = OrSWotSet::<N>::default().diff(set);
    removed.into_iter().collect()
}

/// The observable view of one key: ("live", ts) / ("dead", ts) / None.
pub fn key_view<const N: usize>(set: &OrSWotSet<N>, k: u64) -> Option<(bool, HLCTimestamp)> {
    if let Some(ts) = set.get(&k) {
        return Some((true, *ts));
    }
    tombstones(set).get(&k).map(|ts| (false, *ts))
}
