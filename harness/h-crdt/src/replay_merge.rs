//! (G) Replays every transition of MC_OrswotMerge on real `OrSWotSet<2>` replicas and
//! evaluates the C03 merge laws and the C05 difference clauses on every distinct state.

use std::collections::{BTreeSet, HashMap};

use datacake_crdt::{HLCTimestamp, OrSWotSet};
use serde_json::{json, Value};
use vcommon::{arg_list_u64, arg_or, for_each_payload, open_input, Summary};

use crate::model::*;

fn apply_one<const N: usize>(set: &mut OrSWotSet<N>, src: usize, k: u64, ts: HLCTimestamp, del: bool) -> bool {
    if del {
        set.delete_with_source(src, k, ts)
    } else {
        set.insert_with_source(src, k, ts)
    }
}

/// What the keyspace actor does with a batch: will_apply filter on the pre-state, sort by stamp, apply.
fn apply_batch<const N: usize>(set: &mut OrSWotSet<N>, src: usize, items: &[(u64, HLCTimestamp)], del: bool) {
    let mut valid: Vec<(u64, HLCTimestamp)> =
        items.iter().filter(|(k, ts)| set.will_apply(*k, *ts)).cloned().collect();
    valid.sort_by_key(|e| e.1);
    for (k, ts) in valid {
        apply_one(set, src, k, ts, del);
    }
}

fn apply_diff<const N: usize>(set: &OrSWotSet<N>, peer: &OrSWotSet<N>, src: usize, removals_first: bool) -> OrSWotSet<N> {
    let mut out = set.clone();
    let (changes, removals) = set.diff(peer);
    if removals_first {
        apply_batch(&mut out, src, &removals, true);
        apply_batch(&mut out, src, &changes, false);
    } else {
        apply_batch(&mut out, src, &changes, false);
        apply_batch(&mut out, src, &removals, true);
    }
    out
}

fn merged<const N: usize>(a: &OrSWotSet<N>, b: &OrSWotSet<N>) -> OrSWotSet<N> {
    let mut m = a.clone();
    m.merge(b.clone());
    m
}

fn diff_json(scale: Scale, d: &(Vec<(u64, HLCTimestamp)>, Vec<(u64, HLCTimestamp)>)) -> Value {
    let f = |v: &Vec<(u64, HLCTimestamp)>| -> Value {
        let s: BTreeSet<String> = v.iter().map(|(k, ts)| json!([k, scale.ts_json(ts)]).to_string()).collect();
        Value::Array(s.into_iter().map(|x| serde_json::from_str(&x).unwrap()).collect())
    };
    json!([f(&d.0), f(&d.1)])
}

fn canon_diff(v: &Value) -> Value {
    let f = |x: &Value| -> Value {
        let s: BTreeSet<String> = x.as_array().unwrap().iter().map(|p| p.to_string()).collect();
        Value::Array(s.into_iter().map(|x| serde_json::from_str(&x).unwrap()).collect())
    };
    json!([f(&v[0]), f(&v[1])])
}

pub fn main() {
    // the number of sources of the sets under test (OrSWotSet<1> has no second source to wait for)
    match arg_or("--sources", "2").as_str() {
        "1" => run::<1>(),
        _ => run::<2>(),
    }
}

fn run<const N: usize>() {
    let f: u64 = arg_or("--f", "2").parse().unwrap();
    let scale = Scale::from_f(f);
    let keys = arg_list_u64("--keys", "1,2");
    let repair_src: usize = arg_or("--repair-src", "1").parse().unwrap();
    // the stamps of the universe (for C08's 'still refused' probes)
    // C08 runs: only the purge facts are judged, the merge / difference laws are C03's and C05's business
    let no_laws = vcommon::arg("--no-laws").is_some();
    // merging only: the laws of the difference and its application (C05) are not evaluated
    let merge_laws_only = vcommon::arg("--merge-laws-only").is_some();
    let times = arg_list_u64("--times", "");
    let nodes = arg_list_u64("--nodes", "");
    let universe: Vec<HLCTimestamp> = times.iter().flat_map(|t| nodes.iter().map(move |n| (*t, *n)))
        .map(|(t, n)| scale.ts(&json!([t, 0, n])).unwrap()).collect();
    // per state and replica: the newest delete of each node the REAL replica purged on the way there
    type Pm = Vec<std::collections::BTreeMap<u8, HLCTimestamp>>;
    let mut real_pm: HashMap<String, Pm> = HashMap::new();
    let mut cur_pm: Pm = vec![];
    let (mut purge_edges, mut effective_purges, mut refused_probes) = (0u64, 0u64, 0u64);
    let out = arg_or("--out", "-");
    let reader = open_input(&arg_or("--input", "-"));
    let passthrough = vcommon::arg("--passthrough");

    let mut sum = Summary::default();
    let mut states: HashMap<String, Vec<OrSWotSet<N>>> = HashMap::new();
    let mut parents: HashMap<String, (String, Value)> = HashMap::new();
    let mut cur: Option<Vec<OrSWotSet<N>>> = None;
    let mut cur_key = String::new();
    let mut missing_from = 0u64;
    let mut law_evals = 0u64;
    let mut nonempty_diffs = 0u64;
    let mut by_kind: HashMap<String, u64> = HashMap::new();

    for_each_payload(reader, passthrough.as_deref(), |tag, e| {
        if tag == "FROM" {
            let key = e["from"].to_string();
            if states.is_empty() {
                let n = e["from"]["rep"].as_array().map(|a| a.len()).unwrap_or(0);
                states.insert(key.clone(), vec![OrSWotSet::<N>::default(); n]);
            }
            cur = states.get(&key).cloned();
            cur_pm = real_pm.get(&key).cloned().unwrap_or_else(|| vec![Default::default(); cur.as_ref().map(|c| c.len()).unwrap_or(0)]);
            if cur.is_none() {
                missing_from += 1;
            }
            cur_key = key;
            return;
        }
        if tag != "EDGE" {
            return;
        }
        sum.evaluations += 1;
        let pre = match cur.as_ref() {
            Some(s) => s,
            None => return,
        };
        let to_key = e["to"].to_string();
        let op = &e["op"];
        let kind = op["kind"].as_str().unwrap();
        *by_kind.entry(kind.to_string()).or_default() += 1;
        let mut post = pre.clone();
        let mut post_pm = cur_pm.clone();
        let mut c08: Vec<String> = vec![];
        match kind {
            "issue" => {},
            "purge" => {
                purge_edges += 1;
                let r = op["r"].as_u64().unwrap() as usize - 1;
                let before = live_view(scale, &post[r], &keys);
                let purged = post[r].purge_old_deletes();
                if !purged.is_empty() {
                    effective_purges += 1;
                }
                if live_view(scale, &post[r], &keys) != before {
                    c08.push(format!("a purge on r{} changed what is live", r + 1));
                }
                for (_, ts) in &purged {
                    let e = post_pm[r].entry(ts.node()).or_insert(*ts);
                    if *e < *ts {
                        *e = *ts;
                    }
                }
                // "afterwards" is not only "right afterwards": whatever single operation of the universe the replica
                // handles next, what it purged must still be refused (a real set that purges where the model does not
                // is otherwise lost again, because real states are kept per model state)
                if !purged.is_empty() {
                    'look: for next_ts in universe.iter() {
                        for next_k in &keys {
                            for next_del in [false, true] {
                                for s in 0..N {
                                    let mut c = post[r].clone();
                                    apply_one(&mut c, s, *next_k, *next_ts, next_del);
                                    for (_, tp) in &purged {
                                        for ts in universe.iter().filter(|t| t.node() == tp.node() && **t <= *tp) {
                                            for k in &keys {
                                                refused_probes += 1;
                                                if c.will_apply(*k, *ts) {
                                                    c08.push(format!("r{}: after purging the delete at {} and then handling {} of key {next_k} at {} through source {s}, an operation of the same node on key {k} at {} is accepted again",
                                                                     r + 1, scale.ts_json(tp), if next_del { "a delete" } else { "an insert" }, scale.ts_json(next_ts), scale.ts_json(ts)));
                                                    break 'look;
                                                }
                                            }
                                        }
                                    }
                                }
                            }
                        }
                    }
                }
            },
            "apply" => {
                let r = op["r"].as_u64().unwrap() as usize - 1;
                apply_one(&mut post[r], 0, op["key"].as_u64().unwrap(), scale.ts(&op["ts"]).unwrap(), op["del"].as_bool().unwrap());
            },
            "merge" => {
                let r = op["r"].as_u64().unwrap() as usize - 1;
                let r2 = op["r2"].as_u64().unwrap() as usize - 1;
                let other = post[r2].clone();
                post[r].merge(other);
            },
            "repair" => {
                let r = op["r"].as_u64().unwrap() as usize - 1;
                let r2 = op["r2"].as_u64().unwrap() as usize - 1;
                post[r] = apply_diff(&pre[r], &pre[r2], repair_src, op["remFirst"].as_bool().unwrap());
            },
            other => panic!("unknown op {other}"),
        }

        // drift: internal states against the faithful layer
        let model_rep = e["to"]["rep"].as_array().unwrap();
        for (i, set) in post.iter().enumerate() {
            if project(scale, set) != canon_model_state(&model_rep[i]) {
                sum.drift(json!({"what": "replica state differs from the faithful layer", "replica": i + 1, "op": op,
                                 "real": project(scale, set), "model": model_rep[i]}));
                break;
            }
        }

        // C08 local: what a replica purged (by the model's account or by the real set's) stays refused on it
        for (r, set) in post.iter().enumerate() {
            let mut bounds: Vec<(u8, HLCTimestamp)> = post_pm[r].iter().map(|(n, t)| (*n, *t)).collect();
            for (n, pmv) in crate::model::fn_items(&e["to"]["pm"][r]) {
                if let Some(t) = scale.ts(pmv) {
                    bounds.push((n as u8, t));
                }
            }
            bounds.sort();
            bounds.dedup();
            for (n, pmax) in bounds {
                for ts in universe.iter().filter(|t| t.node() == n && **t <= pmax) {
                    for k in &keys {
                        refused_probes += 1;
                        let mut bad = set.will_apply(*k, *ts);
                        for s in 0..N {
                            let mut c = set.clone();
                            bad = bad || c.insert_with_source(s, *k, *ts) || live_view(scale, &c, &keys) != live_view(scale, set, &keys);
                            let mut c = set.clone();
                            bad = bad || c.delete_with_source(s, *k, *ts) || live_view(scale, &c, &keys) != live_view(scale, set, &keys);
                        }
                        if bad && c08.len() < 4 {
                            c08.push(format!("r{} accepts an operation of node {n} on key {k} at {} although it purged that node's delete at {}",
                                             r + 1, scale.ts_json(ts), scale.ts_json(&pmax)));
                        }
                    }
                }
            }
        }
        if !c08.is_empty() {
            sum.violation(json!({"property": "C08", "why": c08, "edge": e, "from_key": cur_key}));
        }

        if states.contains_key(&to_key) {
            return;
        }
        if no_laws {
            parents.insert(to_key.clone(), (cur_key.clone(), op.clone()));
            if post_pm.iter().any(|m| !m.is_empty()) {
                real_pm.insert(to_key.clone(), post_pm);
            }
            states.insert(to_key, post);
            return;
        }
        // laws are state predicates: evaluated once per distinct state, on the real sets
        law_evals += 1;
        let n = post.len();
        let live = |s: &OrSWotSet<N>| live_view(scale, s, &keys);
        let mut c03: Vec<String> = vec![];
        let mut c05: Vec<String> = vec![];
        let m: Vec<Vec<OrSWotSet<N>>> = (0..n).map(|i| (0..n).map(|j| merged(&post[i], &post[j])).collect()).collect();
        for i in 0..n {
            if live(&m[i][i]) != live(&post[i]) {
                c03.push(format!("merge(r{0}, r{0}) changes lookups", i + 1));
            }
            for j in 0..n {
                if i < j && live(&m[i][j]) != live(&m[j][i]) {
                    c03.push(format!("merge(r{},r{}) and merge(r{},r{}) differ", i + 1, j + 1, j + 1, i + 1));
                }
                if live(&merged(&m[i][j], &post[j])) != live(&m[i][j]) || live(&merged(&m[i][j], &post[i])) != live(&m[i][j]) {
                    c03.push(format!("re-merging into merge(r{},r{}) changes lookups", i + 1, j + 1));
                }
                if i != j && live(&merged(&post[j], &m[i][j])) != live(&m[i][j]) {
                    c03.push(format!("r{} merging merge(r{},r{}) is distinguishable from it", j + 1, i + 1, j + 1));
                }
                for k in 0..n {
                    if live(&merged(&m[i][j], &post[k])) != live(&merged(&post[i], &m[j][k])) {
                        c03.push(format!("(r{}+r{})+r{} differs from r{}+(r{}+r{})", i + 1, j + 1, k + 1, i + 1, j + 1, k + 1));
                    }
                }
            }
        }
        for i in 0..n {
            for j in 0..n {
                if i == j || merge_laws_only {
                    continue;
                }
                let d = post[i].diff(&post[j]);
                if !d.0.is_empty() || !d.1.is_empty() {
                    nonempty_diffs += 1;
                }
                let expect = canon_diff(&e["diffs"][format!("<<{}, {}>>", i + 1, j + 1)]);
                if diff_json(scale, &d) != expect {
                    c05.push(format!("diff(r{}, r{}) = {} but the statement requires {}", i + 1, j + 1, diff_json(scale, &d), expect));
                }
                for rf in [true, false] {
                    let a2 = apply_diff(&post[i], &post[j], repair_src, rf);
                    let again = a2.diff(&post[j]);
                    if !again.0.is_empty() || !again.1.is_empty() {
                        c05.push(format!("after r{} applied its difference against r{} ({}) there is still {} to fetch",
                                         i + 1, j + 1, if rf { "removals first" } else { "modifications first" }, diff_json(scale, &again)));
                    }
                    if i < j {
                        for rg in [true, false] {
                            let b2 = apply_diff(&post[j], &post[i], repair_src, rg);
                            if live(&a2) != live(&b2) {
                                c05.push(format!("after mutual repair r{} and r{} expose different live ids", i + 1, j + 1));
                            }
                        }
                    }
                }
            }
        }
        let lives: Vec<Value> = post.iter().map(|s| live(s)).collect();
        if !c03.is_empty() {
            sum.violation(json!({"property": "C03", "why": c03, "edge": e, "from_key": cur_key, "live": lives}));
        }
        if !c05.is_empty() {
            sum.violation(json!({"property": "C05", "why": c05, "edge": e, "from_key": cur_key, "live": lives}));
        }
        if law_evals % 20_000 == 1 {
            sum.sample(json!({"op": op, "replicas_live": lives, "diffs_expected": e["diffs"]}));
        }
        parents.insert(to_key.clone(), (cur_key.clone(), op.clone()));
        if post_pm.iter().any(|m| !m.is_empty()) {
            real_pm.insert(to_key.clone(), post_pm);
        }
        states.insert(to_key, post);
    });

    let mut per_prop: HashMap<String, u64> = HashMap::new();
    for v in sum.violations.iter_mut() {
        *per_prop.entry(v["property"].as_str().unwrap().to_string()).or_default() += 1;
        let mut path = vec![];
        let mut k = v["from_key"].as_str().unwrap_or_default().to_string();
        while let Some((pk, op)) = parents.get(&k) {
            path.push(op.clone());
            k = pk.clone();
        }
        path.reverse();
        v["path"] = Value::Array(path);
        v.as_object_mut().unwrap().remove("from_key");
    }
    sum.set("distinct_states", states.len() as u64);
    sum.set("missing_from", missing_from);
    sum.set("law_evaluations", law_evals);
    sum.set("nonempty_diffs", nonempty_diffs);
    sum.set("by_kind", json!(by_kind));
    sum.set("purge_edges", purge_edges);
    sum.set("effective_purges", effective_purges);
    sum.set("refused_probes", refused_probes);
    sum.write(&out);
    if missing_from > 0 {
        std::process::exit(2);
    }
}
