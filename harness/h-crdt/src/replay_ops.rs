//! (G) Replays every edge of MC_OrswotOps' bounded state graph on the real
//! `OrSWotSet<N>` and judges C04 / C08-local against the expectations the
//! specification's oracle layer attached to the edge.

use std::collections::HashMap;

use datacake_crdt::{HLCTimestamp, OrSWotSet};
use serde_json::{json, Value};
use vcommon::{arg_list_u64, arg_or, for_each_payload, open_input, Summary};

use crate::model::*;

pub fn main() {
    let sources: usize = arg_or("--sources", "2").parse().unwrap();
    match sources {
        1 => run::<1>(),
        2 => run::<2>(),
        3 => run::<3>(),
        n => panic!("unsupported source count {n}"),
    }
}

fn run<const N: usize>() {
    let f: u64 = arg_or("--f", "2").parse().unwrap();
    let scale = Scale::from_f(f);
    let keys = arg_list_u64("--keys", "1,2");
    let nodes = arg_list_u64("--nodes", "1,2");
    let times = arg_list_u64("--times", "0,1,2");
    let counters = arg_list_u64("--counters", "0");
    let input = arg_or("--input", "-");
    let out = arg_or("--out", "-");

    let mut universe: Vec<(Value, HLCTimestamp)> = Vec::new();
    for t in &times {
        for c in &counters {
            for n in &nodes {
                let v = json!([t, c, n]);
                universe.push((v.clone(), scale.ts(&v).unwrap()));
            }
        }
    }

    let mut states: HashMap<String, OrSWotSet<N>> = HashMap::new();
    // --script <replay file>: rebuild the source state by its operation path, then judge the one edge
    let reader: Box<dyn std::io::BufRead> = if let Some(script) = vcommon::arg("--script") {
        let v: Value = serde_json::from_str(&std::fs::read_to_string(&script).expect("read script")).expect("script json");
        let mut set = OrSWotSet::<N>::default();
        for op in v["path"].as_array().cloned().unwrap_or_default() {
            apply_op(scale, &mut set, &op);
        }
        states.insert(String::new(), OrSWotSet::<N>::default());
        states.insert(v["from"].to_string(), set);
        let lines = format!(
            "<<\"FROM\", {}>>\n<<\"EDGE\", {}>>\n",
            serde_json::to_string(&json!({"from": v["from"]}).to_string()).unwrap(),
            serde_json::to_string(&v["edge"].to_string()).unwrap()
        );
        Box::new(std::io::Cursor::new(lines.into_bytes()))
    } else {
        open_input(&input)
    };
    let passthrough = vcommon::arg("--passthrough");

    let mut sum = Summary::default();
    let mut missing_from = 0u64;
    let mut clean_edges = 0u64;
    let mut purge_edges = 0u64;
    let mut refused_probes = 0u64;
    let mut effective_purges = 0u64;
    let mut by_kind: HashMap<String, u64> = HashMap::new();

    let mut cur: Option<OrSWotSet<N>> = None;
    let mut cur_key = String::new();
    // per state: the newest delete of each node that the REAL set has purged on the way there (the model keeps its own
    // `pmax`; the two differ exactly when the code purges something the model does not)
    let mut real_pmax: HashMap<String, std::collections::BTreeMap<u8, datacake_crdt::HLCTimestamp>> = HashMap::new();
    let mut cur_pmax: std::collections::BTreeMap<u8, datacake_crdt::HLCTimestamp> = Default::default();
    let mut parents: HashMap<String, (String, Value)> = HashMap::new();
    let script_mode = vcommon::arg("--script").is_some();
    for_each_payload(reader, passthrough.as_deref(), |tag, e| {
        if tag == "FROM" {
            let key = e["from"].to_string();
            if states.is_empty() {
                states.insert(key.clone(), OrSWotSet::<N>::default());
            }
            cur = states.get(&key).cloned();
            cur_pmax = real_pmax.get(&key).cloned().unwrap_or_default();
            cur_key = key;
            if cur.is_none() {
                missing_from += 1;
            }
            return;
        }
        if tag != "EDGE" {
            return;
        }
        sum.evaluations += 1;
        let to = e["to"].to_string();
        let pre = match cur.as_ref() {
            Some(s) => s.clone(),
            None => return,
        };
        let op = &e["op"];
        let kind = op["kind"].as_str().unwrap();
        *by_kind.entry(kind.to_string()).or_default() += 1;
        let clean = e["to"]["clean"].as_bool().unwrap();
        let mut post = pre.clone();
        let mut observed = json!({});
        let mut post_pmax = cur_pmax.clone();

        match kind {
            "insert" | "delete" => {
                let k = op["key"].as_u64().unwrap();
                let s = op["src"].as_u64().unwrap() as usize;
                let ts = scale.ts(&op["ts"]).unwrap();
                let wa = pre.will_apply(k, ts);
                let ret = if kind == "insert" {
                    post.insert_with_source(s, k, ts)
                } else {
                    post.delete_with_source(s, k, ts)
                };
                let changed = key_view(&pre, k) != key_view(&post, k);
                let live = live_view(scale, &post, &keys);
                observed = json!({"will_apply": wa, "ret": ret, "view_changed": changed, "live": live});
                if clean {
                    clean_edges += 1;
                    let mut why = vec![];
                    if ret != wa {
                        why.push("return value differs from will_apply asked just before");
                    }
                    if ret != changed {
                        why.push("return value differs from 'view of the key changed'");
                    }
                    if live != e["live"] {
                        why.push("get() differs from the last-writer-wins expectation");
                    }
                    if !why.is_empty() {
                        sum.violation(json!({"property": "C04", "why": why, "edge": e, "observed": observed, "from_key": cur_key}));
                    }
                }
                if ret != op["ret"].as_bool().unwrap() || wa != op["wa"].as_bool().unwrap() {
                    sum.drift(json!({"what": "ret/will_apply differ from the faithful layer", "edge": e, "observed": observed}));
                }
            },
            "purge" => {
                purge_edges += 1;
                let purged = post.purge_old_deletes();
                if !purged.is_empty() {
                    effective_purges += 1;
                }
                for (_, ts) in &purged {
                    let e = post_pmax.entry(ts.node()).or_insert(*ts);
                    if *e < *ts {
                        *e = *ts;
                    }
                }
                // "afterwards" is not only "right afterwards": whatever single operation of the universe the set handles
                // next, what it just purged must still be refused
                let mut look: Vec<String> = vec![];
                if !purged.is_empty() {
                    'look: for (_, next_ts) in universe.iter() {
                        for next_k in &keys {
                            for next_del in [false, true] {
                                for s in 0..N {
                                    let mut c = post.clone();
                                    if next_del {
                                        c.delete_with_source(s, *next_k, *next_ts);
                                    } else {
                                        c.insert_with_source(s, *next_k, *next_ts);
                                    }
                                    for (_, tp) in &purged {
                                        for (_, ts) in universe.iter().filter(|(_, t)| t.node() == tp.node() && *t <= *tp) {
                                            for k in &keys {
                                                refused_probes += 1;
                                                if c.will_apply(*k, *ts) {
                                                    look.push(format!("after purging the delete at {} and then handling {} of key {next_k} at {} through source {s}, an operation of the same node on key {k} at {} is accepted again",
                                                                      scale.ts_json(tp), if next_del { "a delete" } else { "an insert" }, scale.ts_json(next_ts), scale.ts_json(ts)));
                                                    break 'look;
                                                }
                                            }
                                        }
                                    }
                                }
                            }
                        }
                    }
                }
                let live_pre = live_view(scale, &pre, &keys);
                let live_post = live_view(scale, &post, &keys);
                let t_pre = tombstones(&pre);
                let t_post = tombstones(&post);
                let mut why = vec![];
                if live_pre != live_post {
                    why.push("purge changed live ids");
                }
                if !t_post.iter().all(|(k, ts)| t_pre.get(k) == Some(ts)) {
                    why.push("purge added or altered a tombstone");
                }
                let gone: Vec<_> = t_pre.iter().filter(|(k, _)| !t_post.contains_key(k)).map(|(k, ts)| (*k, *ts)).collect();
                let mut ret_sorted = purged.clone();
                ret_sorted.sort();
                if gone != ret_sorted {
                    why.push("purge_old_deletes returned something other than the tombstones it removed");
                }
                let look_text = look.join("; ");
                if !look.is_empty() {
                    why.push(&look_text);
                }
                observed = json!({"purged": purged.iter().map(|(k, ts)| json!([k, scale.ts_json(ts)])).collect::<Vec<_>>(), "live": live_post});
                if !why.is_empty() {
                    sum.violation(json!({"property": "C08", "why": why, "edge": e, "observed": observed, "from_key": cur_key}));
                }
            },
            other => panic!("unknown op kind {other}"),
        }

        // C08 local: operations of a deleting node not newer than its purged delete stay refused.
        let mut bounds: Vec<(u64, datacake_crdt::HLCTimestamp)> = post_pmax.iter().map(|(n, t)| (*n as u64, *t)).collect();
        for (n, pm) in fn_items(&e["to"]["pmax"]) {
            if let Some(t) = scale.ts(pm) {
                bounds.push((n, t));
            }
        }
        bounds.sort();
        bounds.dedup();
        for (n, pm) in bounds {
            for (tsv, ts) in universe.iter().filter(|(_, t)| t.node() as u64 == n && *t <= pm) {
                for k in &keys {
                    refused_probes += 1;
                    let mut why = vec![];
                    if post.will_apply(*k, *ts) {
                        why.push("will_apply accepts an operation not newer than a purged delete of its node".to_string());
                    }
                    for s in 0..N {
                        let mut c = post.clone();
                        if c.insert_with_source(s, *k, *ts) || live_view(scale, &c, &keys) != live_view(scale, &post, &keys) {
                            why.push(format!("insert through source {s} not refused"));
                        }
                        let mut c = post.clone();
                        if c.delete_with_source(s, *k, *ts) || live_view(scale, &c, &keys) != live_view(scale, &post, &keys) {
                            why.push(format!("delete through source {s} not refused"));
                        }
                    }
                    if !why.is_empty() {
                        sum.violation(json!({"property": "C08", "why": why, "probe": {"key": k, "ts": tsv}, "edge": e, "from_key": cur_key}));
                    }
                }
            }
        }

        // drift: full internal state against the faithful layer
        let proj = project(scale, &post);
        if proj != canon_model_state(&e["to"]["st"]) {
            sum.drift(json!({"what": "internal state differs from the faithful layer", "edge": e, "real": proj}));
        }
        if sum.evaluations % 50_000 == 1 {
            sum.sample(json!({"op": op, "expected_live": e["live"], "clean": clean, "observed": observed}));
        }
        if script_mode {
            cur = Some(post);
            cur_pmax = post_pmax;
            return;
        }
        if !states.contains_key(&to) {
            parents.insert(to.clone(), (cur_key.clone(), op.clone()));
            if !post_pmax.is_empty() {
                real_pmax.insert(to.clone(), post_pmax);
            }
            states.insert(to, post);
        }
    });

    // attach to every reported violation the operation path from the empty set
    for v in sum.violations.iter_mut() {
        let mut path = vec![];
        let mut k = v["from_key"].as_str().unwrap_or_default().to_string();
        while let Some((pk, op)) = parents.get(&k) {
            path.push(op.clone());
            k = pk.clone();
        }
        path.reverse();
        v["path"] = Value::Array(path);
        let from: Value = serde_json::from_str(v["from_key"].as_str().unwrap_or("null")).unwrap_or(Value::Null);
        v["from"] = from;
        v.as_object_mut().unwrap().remove("from_key");
    }

    sum.set("distinct_states", states.len() as u64);
    sum.set("missing_from", missing_from);
    sum.set("clean_edges", clean_edges);
    sum.set("purge_edges", purge_edges);
    sum.set("refused_probes", refused_probes);
    sum.set("effective_purges", effective_purges);
    sum.set("by_kind", json!(by_kind));
    sum.set("forgiveness_period_s", datacake_crdt_forgiveness());
    sum.write(&out);
    if missing_from > 0 {
        std::process::exit(2);
    }
}

fn apply_op<const N: usize>(scale: Scale, set: &mut OrSWotSet<N>, op: &Value) {
    match op["kind"].as_str().unwrap() {
        "insert" => {
            set.insert_with_source(op["src"].as_u64().unwrap() as usize, op["key"].as_u64().unwrap(), scale.ts(&op["ts"]).unwrap());
        },
        "delete" => {
            set.delete_with_source(op["src"].as_u64().unwrap() as usize, op["key"].as_u64().unwrap(), scale.ts(&op["ts"]).unwrap());
        },
        "purge" => {
            set.purge_old_deletes();
        },
        other => panic!("unknown op kind {other}"),
    }
}

/// The forgiveness period the linked crdt crate really uses, measured by
/// behaviour (the constant is not exported): smallest gap at which an older
/// stamp of the same origin is refused.
fn datacake_crdt_forgiveness() -> u64 {
    use std::time::Duration;
    let probe = |gap: u64| {
        let mut s = OrSWotSet::<1>::default();
        s.insert(1, HLCTimestamp::new(Duration::from_secs(100_000), 0, 1));
        s.will_apply(2, HLCTimestamp::new(Duration::from_secs(100_000 - gap), 0, 1))
    };
    let mut lo = 0u64;
    let mut hi = 100_000u64;
    if probe(hi) {
        return u64::MAX;
    }
    while lo + 1 < hi {
        let mid = (lo + hi) / 2;
        if probe(mid) {
            lo = mid;
        } else {
            hi = mid;
        }
    }
    lo
}
