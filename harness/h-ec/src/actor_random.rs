//! Long-lived keyspace actors (C02 / C04 / C08, V): one real `KeyspaceActor` (real group over a fault-injecting MemStore)
//! handles a long random stream of requests - single and bulk puts and deletes through both sources from three origin
//! nodes, purges, storage calls that fail part-way (bulk writes, tombstone marking, tombstone removal), stamps that run
//! with a clock that sometimes jumps by more than the forgiveness period, late but timely requests, and now and then a
//! request that is too old.  Whatever the actor keeps between requests stays in it: the edge-complete replay of
//! Keyspace.tla starts every transition on a fresh actor, this component does not.
//!
//! The actor's guarded hook writes every handled request with the resulting set (DATACAKE_VERIF_TRACE_DIR);
//! Trace_KeyspaceActor.tla judges them (greatest stamp wins, a purge changes nothing live, a deleted document does not
//! come back).  Here, after every request, the set (Serialize reply) is compared with the storage (C02).

use std::marker::PhantomData;
use std::sync::Arc;
use std::time::Duration;

use datacake_crdt::HLCTimestamp;
use datacake_eventual_consistency::test_utils::MemStore;
use datacake_eventual_consistency::verif::{Del, DocVec, KeyspaceGroup, MultiDel, MultiSet, PurgeDeletes, Serialize, Set};
use datacake_eventual_consistency::{Document, DocumentMetadata, Storage};
use datacake_node::Clock;
use rand::rngs::StdRng;
use rand::{Rng, SeedableRng};
use serde_json::json;
use vcommon::{arg_or, Summary};

use crate::faulty::{FaultyStore, Plan};
use crate::keyspace::{decode_set, doc_bytes};
use crate::model::tombstones;

const IDS: [u64; 6] = [1, 2, 256, 1 << 40, u64::MAX, 0];

pub fn main() {
    let actors: u64 = arg_or("--actors", "40").parse().unwrap();
    let len: u64 = arg_or("--len", "150").parse().unwrap();
    let seed: u64 = arg_or("--seed", "1").parse().unwrap();
    let out = arg_or("--out", "-");
    let mut sum = Summary::default();
    let (mut requests, mut failed_calls, mut purges, mut effective_purges, mut failed_purges, mut jumps, mut too_old) = (0u64, 0u64, 0u64, 0u64, 0u64, 0u64, 0u64);
    for a in 0..actors {
        // a paused clock: the group's hourly purge task never fires by itself, purges are the stream's
        let rt = tokio::runtime::Builder::new_current_thread().enable_all().start_paused(true).build().unwrap();
        rt.block_on(async {
            let mut rng = StdRng::seed_from_u64(seed.wrapping_mul(1_000_003).wrapping_add(a));
            let inner = Arc::new(MemStore::default());
            let store = Arc::new(FaultyStore::on(inner.clone()));
            let group = KeyspaceGroup::new(store.clone(), Clock::new(9)).await;
            tokio::time::sleep(Duration::from_millis(1)).await;
            let ks = format!("long{a}");
            let actor = group.get_or_create_keyspace(&ks).await;
            // the time the origins' clocks show, in seconds
            let mut now: u64 = 100_000 + a * 7;
            let mut counter: u16 = 0;
            let mut disagreed = false;
            // after a clock jump every origin is heard through every source, then the actor is asked to purge: the
            // tombstones from before the jump really go (or their removal fails in storage)
            // (origin, source, kind if fixed, document if fixed, seconds the stamp lies back, seconds the clock moves on first)
            let mut script: std::collections::VecDeque<(u8, usize, Option<u8>, Option<u64>, u64, u64)> = Default::default();
            for step in 0..len {
                now += if script.is_empty() { rng.gen_range(0..40) } else { rng.gen_range(0..2) };
                if script.is_empty() && rng.gen_range(0..25) == 0 {
                    now += rng.gen_range(3_601..9_000);
                    jumps += 1;
                    if rng.gen_bool(0.7) {
                        for o in 1..4u8 {
                            for src in 0..2usize {
                                script.push_back((o, src, None, None, 0, 0));
                            }
                        }
                        script.push_back((1, 0, Some(4), None, 0, 0));
                    }
                }
                // the motif C08 is about: a document is deleted, the actor purges, a write older than the delete (but well
                // inside the forgiveness period) arrives - from the deleting node or from another one
                if script.is_empty() && rng.gen_range(0..15) == 0 {
                    let k = IDS[rng.gen_range(0..IDS.len())];
                    let o: u8 = rng.gen_range(1..4);
                    script.push_back((o, rng.gen_range(0..2), Some(1), Some(k), 0, 0));
                    script.push_back((1, 0, Some(4), None, 0, 0));
                    script.push_back((if rng.gen_bool(0.5) { o } else { rng.gen_range(1..4) }, rng.gen_range(0..2), Some(0), Some(k), rng.gen_range(45..600), 0));
                }
                // the same motif at the edge of the forgiveness period: the delete is almost an hour old when everybody has been
                // heard and the actor purges (the tombstone must stay: a write may still be on its way), then a write of another
                // node arrives that is a little older than the delete - and still less than the forgiveness period old
                if script.is_empty() && rng.gen_range(0..20) == 0 {
                    let k = IDS[rng.gen_range(0..IDS.len())];
                    let o: u8 = rng.gen_range(1..4);
                    let other = 1 + (o % 3);
                    let wait = 3_600 - rng.gen_range(12..85);
                    script.push_back((o, rng.gen_range(0..2), Some(1), Some(k), 0, 0));
                    let mut first = true;
                    for n in 1..4u8 {
                        for src in 0..2usize {
                            script.push_back((n, src, None, None, 0, if first { wait } else { 0 }));
                            first = false;
                        }
                    }
                    script.push_back((1, 0, Some(4), None, 0, 0));
                    script.push_back((other, rng.gen_range(0..2), Some(0), Some(k), wait + rng.gen_range(2..10), 0));
                }
                let scripted = script.pop_front();
                if let Some(x) = scripted {
                    now += x.5;
                }
                counter = counter.wrapping_add(1) % 1000;
                let origin: u8 = scripted.map(|x| x.0).unwrap_or_else(|| rng.gen_range(1..4));
                // fresh, late but well inside the forgiveness period, or (rarely) too old
                let secs = match if scripted.is_some() { 19 } else { rng.gen_range(0..20) } {
                    19 if scripted.map(|x| x.4).unwrap_or(0) > 0 => now - scripted.unwrap().4,
                    0 => { too_old += 1; now.saturating_sub(rng.gen_range(3_700..8_000)) },
                    1..=6 => now - rng.gen_range(0..3_000),
                    _ => now,
                };
                let ts = HLCTimestamp::new(Duration::from_secs(secs), counter, origin);
                let source = scripted.map(|x| x.1).unwrap_or_else(|| rng.gen_range(0..2));
                // 0 put, 1 delete, 2 bulk put, 3 bulk delete, 4 purge
                let kind = match scripted {
                    Some((_, _, Some(k), _, _, _)) => k,
                    _ => [0, 0, 0, 0, 1, 1, 2, 2, 3, 3, 4, 0][rng.gen_range(0..12usize)],
                };
                let n_ids = if kind == 2 || kind == 3 { rng.gen_range(2..5) } else { 1 };
                let mut ids: Vec<u64> = (0..n_ids).map(|_| IDS[rng.gen_range(0..IDS.len())]).collect();
                ids.sort();
                ids.dedup();
                if let Some((_, _, _, Some(k), _, _)) = scripted {
                    ids = vec![k];
                }
                let before_tombs = tombstones(&decode_set(&actor.send(Serialize).await.expect("serialize")));
                // a storage call that fails part-way, with some of its documents done
                let fail = rng.gen_range(0..6) == 0;
                if fail {
                    let subject: Vec<u64> = if kind == 4 { before_tombs.keys().cloned().collect() } else { ids.clone() };
                    let done: Vec<u64> = subject.into_iter().filter(|_| rng.gen_bool(0.5)).collect();
                    store.set_plan(Plan::Fail(done));
                }
                let _ = match kind {
                    0 => actor.send(Set { source, doc: Document::new(ids[0], ts, doc_bytes(ids[0], ts)), ctx: None, _marker: PhantomData::<FaultyStore> }).await.is_ok(),
                    1 => actor.send(Del { source, doc: DocumentMetadata::new(ids[0], ts), _marker: PhantomData::<FaultyStore> }).await.is_ok(),
                    2 => {
                        let docs: DocVec<Document> = ids.iter().map(|k| Document::new(*k, ts, doc_bytes(*k, ts))).collect();
                        actor.send(MultiSet { source, docs, ctx: None, _marker: PhantomData::<FaultyStore> }).await.is_ok()
                    },
                    3 => {
                        let docs: DocVec<DocumentMetadata> = ids.iter().map(|k| DocumentMetadata::new(*k, ts)).collect();
                        actor.send(MultiDel { source, docs, _marker: PhantomData::<FaultyStore> }).await.is_ok()
                    },
                    _ => {
                        purges += 1;
                        actor.send(PurgeDeletes(PhantomData::<FaultyStore>)).await.is_ok()
                    },
                };
                requests += 1;
                // a plan nobody consumed (the request made no storage call) must not hit the next request
                let consumed = matches!(*store.plan.lock(), Plan::Ok);
                store.set_plan(Plan::Ok);
                if fail && consumed {
                    failed_calls += 1;
                    if kind == 4 {
                        failed_purges += 1;
                    }
                }
                let set = decode_set(&actor.send(Serialize).await.expect("serialize"));
                let tombs = tombstones(&set);
                if kind == 4 && tombs.len() < before_tombs.len() {
                    effective_purges += 1;
                }
                // C02: set and storage describe the same thing
                let mut meta: Vec<(u64, HLCTimestamp, bool)> = inner.iter_metadata(&ks).await.unwrap().collect();
                meta.sort();
                let mut why = vec![];
                for k in IDS.iter() {
                    let live = set.get(k).copied();
                    let dead = tombs.get(k).copied();
                    let m = meta.iter().find(|e| e.0 == *k);
                    let agree = match m {
                        None => live.is_none() && dead.is_none(),
                        Some((_, t, false)) => live == Some(*t) && dead.is_none(),
                        Some((_, t, true)) => dead == Some(*t) && live.is_none(),
                    };
                    if !agree {
                        why.push(format!("document {k}: the set says live={live:?} tombstone={dead:?}, storage says {m:?}"));
                    }
                    if let Some((_, t, false)) = m {
                        match inner.get(&ks, *k).await.unwrap() {
                            Some(d) if d.last_updated() == *t && d.data() == doc_bytes(*k, *t).as_slice() => {},
                            other => why.push(format!("document {k}: metadata says live at {t}, get() returns {:?}", other.map(|d| d.last_updated()))),
                        }
                    }
                }
                sum.evaluations += 1;
                // (reported once per actor; the stream goes on, what it leads to is the trace specification's to judge)
                if !why.is_empty() && !disagreed {
                    disagreed = true;
                    sum.violation(json!({"property": "C02", "actor": a, "step": step, "seed": seed, "why": why,
                                         "request": {"kind": kind, "ids": ids.iter().map(|i| i.to_string()).collect::<Vec<_>>(), "ts": ts.to_string(), "source": source, "storage_failure": fail}}));
                }
            }
        });
        rt.shutdown_background();
    }
    sum.set("actors", actors);
    sum.set("requests", requests);
    sum.set("failed_storage_calls", failed_calls);
    sum.set("purges", purges);
    sum.set("effective_purges", effective_purges);
    sum.set("failed_purges", failed_purges);
    sum.set("clock_jumps", jumps);
    sum.set("too_old_requests", too_old);
    sum.write(&out);
}
