//! C01 / C08-global / C02-cluster (G): behaviours emitted by Cluster.tla are replayed on real
//! components: per node a real KeyspaceGroup over MemStore, a real Clock with an injected wall
//! clock, and the real Consistency / Replication services on a real loopback RPC server.
//! Direct and batch messages are delivered by invoking the real handlers over RPC, repair runs
//! through the real client / Diff message / handle_removals / fetch + MultiSet, in the order the
//! behaviour says. At the end every node's reads and set are compared with the specification's
//! last-writer-wins expectation.

use std::collections::BTreeMap;
use std::marker::PhantomData;
use std::net::SocketAddr;
use std::sync::Arc;
use std::time::Duration;

use datacake_crdt::{verif, HLCTimestamp, OrSWotSet};
use datacake_eventual_consistency::test_utils::MemStore;

use crate::faulty::{FaultyStore, Plan};
use datacake_eventual_consistency::verif::{
    repair, BatchPayload, ConsistencyService, Context, Diff, DocVec, KeyspaceGroup, MultiDel, MultiPutPayload,
    MultiRemovePayload, MultiSet, PurgeDeletes, PutPayload, RemovePayload, ReplicationClient, ReplicationService,
    Serialize, Set,
};
use datacake_eventual_consistency::verif::Del;
use datacake_eventual_consistency::{Document, DocumentMetadata, Storage};
use datacake_node::{Clock, RpcNetwork};
use datacake_rpc::{RpcClient, Server};
use serde_json::{json, Value};
use vcommon::{arg_or, for_each_payload, open_input, Summary};

use crate::keyspace::{decode_set, doc_bytes};
use crate::model::tombstones;

type Set2 = OrSWotSet<2>;
type St = FaultyStore;
type Cs = ConsistencyService<St>;

fn free_addr() -> std::net::SocketAddr {
    vcommon::free_addr()
}

/// Several harness processes pick ports at the same time: a port seen free may be taken a moment later.
async fn listen_free() -> (SocketAddr, Server) {
    let mut last = None;
    for _ in 0..200 {
        let addr = free_addr();
        match Server::listen(addr).await {
            Ok(s) => return (addr, s),
            Err(e) => last = Some(e),
        }
    }
    eprintln!("tool error: no port to listen on: {last:?}");
    std::process::exit(2);
}

struct NodeRig {
    id: u8,
    addr: SocketAddr,
    store: Arc<St>,
    group: parking_lot::Mutex<KeyspaceGroup<St>>,
    clock: Clock,
    network: RpcNetwork,
    server: Server,
}

impl NodeRig {
    fn grp(&self) -> KeyspaceGroup<St> {
        self.group.lock().clone()
    }
}

struct Rig {
    nodes: BTreeMap<u64, NodeRig>,
    driver: Clock,
    driver_net: RpcNetwork,
}

impl Rig {
    async fn new(ids: &[u64]) -> Self {
        let mut nodes = BTreeMap::new();
        for id in ids {
            verif::set_node_wall(*id as u8, Some(Duration::from_secs(1)));
            let clock = Clock::new(*id as u8);
            let store = Arc::new(FaultyStore::on(Arc::new(MemStore::default())));
            let group = KeyspaceGroup::new(store.clone(), clock.clone()).await;
            let network = RpcNetwork::default();
            let (addr, server) = listen_free().await;
            server.add_service(ConsistencyService::new(group.clone(), network.clone()));
            server.add_service(ReplicationService::new(group.clone()));
            nodes.insert(*id, NodeRig { id: *id as u8, addr, store, group: parking_lot::Mutex::new(group), clock, network, server });
        }
        // the harness' own clock for the RPCs it sends on behalf of "the network"
        verif::set_node_wall(250, Some(Duration::from_secs(0)));
        let driver = Clock::new(250);
        Rig { nodes, driver, driver_net: RpcNetwork::default() }
    }
}

#[derive(Clone, Copy)]
struct TimeMap {
    base_s: u64,
    unit_s: u64,
    /// which real document ids stand for the model's keys in this behaviour
    ids: usize,
}

/// The model's keys are atoms; real document ids have structure (numeric order vs the order of their bytes or of their
/// decimal text, sign bit, boundaries).  Behaviours take turns through these assignments.
const ID_MAPS: [[u64; 3]; 6] = [
    [1, 2, 3],
    [256, 1, 1 << 40],
    [u64::MAX, 0, (i64::MAX as u64) + 1],
    [2, 1, 3],
    [1 << 32, (1 << 32) + 1, 255],
    [10, 9, 100],
];

impl TimeMap {
    fn id(&self, k: u64) -> u64 {
        let base = ID_MAPS[self.ids % ID_MAPS.len()][((k - 1) % 3) as usize];
        if k > 3 { base.wrapping_add(k * 1_000) } else { base }
    }
    fn stamp(&self, v: &Value) -> HLCTimestamp {
        let a = v.as_array().unwrap();
        HLCTimestamp::new(Duration::from_secs(self.base_s + a[0].as_u64().unwrap() * self.unit_s), a[1].as_u64().unwrap() as u16, a[2].as_u64().unwrap() as u8)
    }
    fn wall(&self, t: u64) -> Duration {
        Duration::from_secs(self.base_s + t * self.unit_s)
    }
    fn back(&self, ts: &HLCTimestamp) -> Value {
        let s = ts.seconds();
        if s >= self.base_s && (s - self.base_s) % self.unit_s == 0 && ts.fractional() == 0 {
            json!([(s - self.base_s) / self.unit_s, ts.counter(), ts.node()])
        } else {
            json!([format!("{}s+{}", s as i64 - self.base_s as i64, ts.fractional()), ts.counter(), ts.node()])
        }
    }
}

fn items(tm: TimeMap, v: &Value) -> Vec<(u64, HLCTimestamp)> {
    v.as_array().unwrap().iter().map(|p| (tm.id(p[0].as_u64().unwrap()), tm.stamp(&p[1]))).collect()
}

fn docs_of(it: &[(u64, HLCTimestamp)]) -> DocVec<Document> {
    it.iter().map(|(k, ts)| Document::new(*k, *ts, doc_bytes(*k, *ts))).collect()
}

fn metas_of(it: &[(u64, HLCTimestamp)]) -> DocVec<DocumentMetadata> {
    it.iter().map(|(k, ts)| DocumentMetadata::new(*k, *ts)).collect()
}

struct Exchange {
    snap: Option<Set2>,
    modified: Vec<(u64, HLCTimestamp)>,
    removed: Vec<(u64, HLCTimestamp)>,
    fetched: Option<Vec<Document>>,
}

struct Outcome {
    refused_repair_writes: u64,
    held_rounds: u64,
    rounds: u64,
    fixpoint: bool,
    why: Vec<(String, String)>, // (property, text)
    drift: Vec<String>,
    reads: Value,
    tool_error: Option<String>,
}

/// `coarse`: every repair exchange runs as the real poller runs it - `get_keyspace_diff` and `begin_keyspace_sync`
/// (both halves spawned concurrently, progress watcher), or a whole `repair_members` round on a young rig - at the
/// point where the model's exchange reads the peer's state; the model's finer steps of that exchange are skipped.
/// This is the behaviour in which the exchange's steps are contiguous, so the same final expectation applies.
async fn run_behaviour(rig: &Rig, b: &Value, idx: u64, f: u64, coarse: bool, tracked: bool, repair_fault: u8) -> Outcome {
    let mut out = Outcome { refused_repair_writes: 0, held_rounds: 0, rounds: 0, fixpoint: false, why: vec![], drift: vec![], reads: Value::Null, tool_error: None };
    let mut coarse_done: std::collections::BTreeSet<(u64, u64)> = Default::default();
    let mut trackers: BTreeMap<u64, repair::Tracker> = rig.nodes.keys().map(|n| (*n, repair::Tracker::default())).collect();
    let ks = format!("b{}", idx);
    // tracked mode: a second keyspace that receives exactly what concerns the last key of the universe (same stamps,
    // same deliveries, same losses): the real poller rounds then have two keyspaces that change at different moments
    // (its name is the first keyspace's name with a suffix: names are all a node can tell keyspaces by)
    let shadow: Option<String> = tracked.then(|| format!("b{}-kv", idx));
    let skey: u64 = b["expect"].as_array().map(|a| a.len() as u64).unwrap_or(0);
    let tm = TimeMap { base_s: 100_000 + idx * 40_000, unit_s: 3600 / f, ids: idx as usize };
    let mut exch: BTreeMap<(u64, u64), Exchange> = BTreeMap::new();
    let steps = b["hist"].as_array().unwrap();
    let driver_client = |to: &NodeRig| RpcClient::<Cs>::new(rig.driver_net.get_or_connect(to.addr));
    // tracked mode, split GetState: a real poller round that is held inside the peer's GetState handler, between the
    // handler's reading of the change stamp and its serializing of the state
    let mut held: BTreeMap<(u64, u64), (datacake_eventual_consistency::verif::GetStatePause, tokio::task::JoinHandle<repair::Tracker>)> = BTreeMap::new();
    let mut i = 0;
    while i < steps.len() {
        let s = &steps[i];
        i += 1;
        let a = s["a"].as_str().unwrap();
        // outside tracked mode the two steps of a split GetState are executed as one, where the state is taken
        let a = match a {
            "readstamp" if !tracked => {
                // (the clocks of the two nodes meet here, as they do when the real poller asks for the keyspace stamps)
                let (n, p) = (s["n"].as_u64().unwrap(), s["p"].as_u64().unwrap());
                let me = &rig.nodes[&n];
                let mut client = ReplicationClient::<St>::new(me.clock.clone(), me.network.get_or_connect(rig.nodes[&p].addr));
                let _ = client.poll_keyspace().await;
                continue;
            },
            "takestate" if !tracked => "getstate",
            other => other,
        };
        // a node whose poller round is being held takes no part in another exchange before that round is over
        if tracked && matches!(a, "readstamp" | "getstate") {
            let n = s["n"].as_u64().unwrap();
            let keys: Vec<(u64, u64)> = held.keys().filter(|k| k.0 == n).cloned().collect();
            for k in keys {
                let (pause, task) = held.remove(&k).unwrap();
                pause.release();
                trackers.insert(k.0, task.await.expect("poller round"));
            }
        }
        match a {
            "readstamp" => {
                let (n, p) = (s["n"].as_u64().unwrap(), s["p"].as_u64().unwrap());
                let me = &rig.nodes[&n];
                let peer = &rig.nodes[&p];
                let mut members = BTreeMap::new();
                members.insert(peer.id, peer.addr);
                let pause = datacake_eventual_consistency::verif::arm_getstate_pause(&ks);
                let (group, network) = (me.grp(), me.network.clone());
                let mut tracker = trackers.remove(&n).expect("the node's tracker");
                let mut task = tokio::spawn(async move {
                    repair::repair_round_tracked(&group, &network, &members, &mut tracker).await;
                    tracker
                });
                tokio::select! {
                    _ = pause.reached() => {
                        out.held_rounds += 1;
                        held.insert((n, p), (pause, task));
                    },
                    t = &mut task => {
                        // the tracker said nothing changed (or the peer holds no such keyspace yet): no GetState was sent
                        pause.release();
                        trackers.insert(n, t.expect("poller round"));
                    },
                }
            },
            "takestate" => {
                let (n, p) = (s["n"].as_u64().unwrap(), s["p"].as_u64().unwrap());
                if let Some((pause, task)) = held.remove(&(n, p)) {
                    pause.release();
                    trackers.insert(n, task.await.expect("poller round"));
                }
            },
            "issue" => {
                let n = &rig.nodes[&s["n"].as_u64().unwrap()];
                let t = s["t"].as_u64().unwrap();
                let del = s["del"].as_bool().unwrap();
                // drain fire-and-forget register_ts events still queued at the clock actor, so that they are
                // merged under the wall clock reading of their own time, not of this operation's
                let _ = n.clock.get_time().await;
                verif::set_node_wall(n.id, Some(tm.wall(t)));
                let ts = n.clock.get_time().await;
                let want = tm.stamp(&json!([t, 0, n.id]));
                if ts != want {
                    out.drift.push(format!("step {i}: node {} issued {} where the model has {}", n.id, tm.back(&ts), tm.back(&want)));
                    return out;
                }
                let keys: Vec<u64> = s["keys"].as_array().unwrap().iter().map(|k| tm.id(k.as_u64().unwrap())).collect();
                let its: Vec<(u64, HLCTimestamp)> = keys.iter().map(|k| (*k, ts)).collect();
                let actor = n.grp().get_or_create_keyspace(&ks).await;
                let ok = match (del, keys.len() > 1) {
                    (false, false) => actor.send(Set { source: 0, doc: docs_of(&its).remove(0), ctx: None, _marker: PhantomData::<St> }).await.is_ok(),
                    (true, false) => actor.send(Del { source: 0, doc: metas_of(&its).remove(0), _marker: PhantomData::<St> }).await.is_ok(),
                    (false, true) => actor.send(MultiSet { source: 0, docs: docs_of(&its), ctx: None, _marker: PhantomData::<St> }).await.is_ok(),
                    (true, true) => actor.send(MultiDel { source: 0, docs: metas_of(&its), _marker: PhantomData::<St> }).await.is_ok(),
                };
                if !ok {
                    out.tool_error = Some(format!("step {i}: local request failed"));
                    return out;
                }
                if let (Some(sk), true) = (shadow.as_ref(), keys.contains(&tm.id(skey))) {
                    let its: Vec<(u64, HLCTimestamp)> = vec![(tm.id(skey), ts)];
                    let actor = n.grp().get_or_create_keyspace(sk).await;
                    let _ = match del {
                        false => actor.send(Set { source: 0, doc: docs_of(&its).remove(0), ctx: None, _marker: PhantomData::<St> }).await.is_ok(),
                        true => actor.send(Del { source: 0, doc: metas_of(&its).remove(0), _marker: PhantomData::<St> }).await.is_ok(),
                    };
                }
            },
            "tick" | "lose" | "finish" | "time" => {},
            "deliver" => {
                let m = &s["m"];
                let to = &rig.nodes[&m["to"].as_u64().unwrap()];
                let kind = m["kind"].as_str().unwrap();
                let del = m["del"].as_bool().unwrap();
                let its = items(tm, &m["items"]);
                let removed = items(tm, &m["removed"]);
                let modified = items(tm, &m["modified"]);
                let sender = its.first().or(removed.first()).or(modified.first()).map(|e| e.1.node()).unwrap_or(0);
                let sender_addr = rig.nodes.get(&(sender as u64)).map(|n| n.addr).unwrap_or(to.addr);
                let cts = tm.stamp(&json!([m["cts"].as_u64().unwrap(), 0, sender]));
                let mk_ctx = || Some(Context { node_id: sender, node_addr: sender_addr });
                let ctx = mk_ctx();
                let client = driver_client(to);
                let only = |v: &Vec<(u64, HLCTimestamp)>| -> Vec<(u64, HLCTimestamp)> { v.iter().filter(|e| e.0 == tm.id(skey)).cloned().collect() };
                let (s_its, s_removed, s_modified) = (only(&its), only(&removed), only(&modified));
                if let Some(sk) = shadow.as_ref() {
                    // the shadow keyspace gets its part of singles and bulk messages as messages of its own; its part of a
                    // batch travels in the same BatchPayload (below)
                    let r = match (kind, del) {
                        ("single", false) | ("multi", false) if !s_its.is_empty() =>
                            client.send(&PutPayload { keyspace: sk.clone(), ctx: mk_ctx(), document: docs_of(&s_its).remove(0), timestamp: cts }).await.map(|_| ()),
                        ("single", true) | ("multi", true) if !s_its.is_empty() =>
                            client.send(&RemovePayload { keyspace: sk.clone(), document: metas_of(&s_its).remove(0), timestamp: cts }).await.map(|_| ()),
                        _ => Ok(()),
                    };
                    if let Err(e) = r {
                        out.tool_error = Some(format!("step {i}: delivery to the shadow keyspace failed: {e:?}"));
                        return out;
                    }
                }
                let res = match (kind, del) {
                    ("single", false) => client.send(&PutPayload { keyspace: ks.clone(), ctx, document: docs_of(&its).remove(0), timestamp: cts }).await.map(|_| ()),
                    ("single", true) => client.send(&RemovePayload { keyspace: ks.clone(), document: metas_of(&its).remove(0), timestamp: cts }).await.map(|_| ()),
                    ("multi", false) => client.send(&MultiPutPayload { keyspace: ks.clone(), ctx, documents: docs_of(&its), timestamp: cts }).await.map(|_| ()),
                    ("multi", true) => client.send(&MultiRemovePayload { keyspace: ks.clone(), documents: metas_of(&its), timestamp: cts }).await.map(|_| ()),
                    ("batch", _) => {
                        // the two halves of a batch are adjacent steps in most behaviours: then the real handler runs
                        let next_is_second_half = steps.get(i).map(|x| x["a"] == "deliver" && x["m"]["kind"] == "batch2"
                            && x["m"]["to"] == m["to"] && x["m"]["removed"] == m["removed"] && x["m"]["modified"] == m["modified"]).unwrap_or(false);
                        if next_is_second_half && !s["keep"].as_bool().unwrap() {
                            i += 1;
                            let mut batch = BatchPayload { timestamp: cts, modified: DocVec::new(), removed: DocVec::new() };
                            if !modified.is_empty() {
                                batch.modified.push(MultiPutPayload { keyspace: ks.clone(), ctx: mk_ctx(), documents: docs_of(&modified), timestamp: cts });
                            }
                            if !removed.is_empty() {
                                batch.removed.push(MultiRemovePayload { keyspace: ks.clone(), documents: metas_of(&removed), timestamp: cts });
                            }
                            if let Some(sk) = shadow.as_ref() {
                                if !s_modified.is_empty() {
                                    batch.modified.push(MultiPutPayload { keyspace: sk.clone(), ctx: mk_ctx(), documents: docs_of(&s_modified), timestamp: cts });
                                }
                                if !s_removed.is_empty() {
                                    batch.removed.push(MultiRemovePayload { keyspace: sk.clone(), documents: metas_of(&s_removed), timestamp: cts });
                                }
                            }
                            client.send(&batch).await.map(|_| ())
                        } else {
                            // first half on its own: what the handler does before its second loop
                            to.clock.register_ts(cts).await;
                            if !removed.is_empty() {
                                let actor = to.grp().get_or_create_keyspace(&ks).await;
                                let _ = actor.send(MultiDel { source: 0, docs: metas_of(&removed), _marker: PhantomData::<St> }).await;
                            }
                            if let (Some(sk), false) = (shadow.as_ref(), s_removed.is_empty()) {
                                let actor = to.grp().get_or_create_keyspace(sk).await;
                                let _ = actor.send(MultiDel { source: 0, docs: metas_of(&s_removed), _marker: PhantomData::<St> }).await;
                            }
                            Ok(())
                        }
                    },
                    ("batch2", _) => {
                        if !modified.is_empty() {
                            let actor = to.grp().get_or_create_keyspace(&ks).await;
                            let _ = actor.send(MultiSet { source: 0, docs: docs_of(&modified), ctx: None, _marker: PhantomData::<St> }).await;
                        }
                        if let (Some(sk), false) = (shadow.as_ref(), s_modified.is_empty()) {
                            let actor = to.grp().get_or_create_keyspace(sk).await;
                            let _ = actor.send(MultiSet { source: 0, docs: docs_of(&s_modified), ctx: None, _marker: PhantomData::<St> }).await;
                        }
                        Ok(())
                    },
                    other => panic!("message kind {other:?}"),
                };
                if let Err(e) = res {
                    out.tool_error = Some(format!("step {i}: delivery failed: {e:?}"));
                    return out;
                }
            },
            // tracked mode: where the model starts an exchange of n with p, the real poller of n runs one round against p
            // with n's keyspace tracker (it skips the peer if the tracker says nothing changed); the model's finer
            // steps are left out, and the rounds up to the poller's fixpoint follow after the last step
            "getstate" if tracked => {
                let (n, p) = (s["n"].as_u64().unwrap(), s["p"].as_u64().unwrap());
                let me = &rig.nodes[&n];
                let peer = &rig.nodes[&p];
                let mut members = BTreeMap::new();
                members.insert(peer.id, peer.addr);
                // now and then the node's storage refuses the first write of this round (nothing written) - a repair write, if
                // the round has anything to repair.  The exchange must not count as done: a later round repairs.
                // ... or the peer's storage refuses the read behind the first fetch of documents (every other time)
                let arm = repair_fault > 0 && out.refused_repair_writes == 0;
                let on_peer = arm && repair_fault == 2;
                if on_peer {
                    *peer.store.fail_read.lock() = Some("fetch");
                } else if arm {
                    me.store.set_plan(Plan::Fail(vec![]));
                }
                repair::repair_round_tracked(&me.grp(), &me.network, &members, trackers.get_mut(&n).unwrap()).await;
                if on_peer {
                    if peer.store.fail_read.lock().take().is_none() {
                        out.refused_repair_writes += 1;
                    }
                } else if arm {
                    if matches!(*me.store.plan.lock(), Plan::Fail(_)) {
                        me.store.set_plan(Plan::Ok);       // nobody ran into it
                    } else {
                        out.refused_repair_writes += 1;
                    }
                }
            },
            "diff" | "removals" | "fetch" | "modified" if tracked => {},
            "getstate" if coarse => {
                let (n, p) = (s["n"].as_u64().unwrap(), s["p"].as_u64().unwrap());
                let me = &rig.nodes[&n];
                let peer = &rig.nodes[&p];
                coarse_done.insert((n, p));
                if idx <= 3 && !tracked {
                    let mut members = BTreeMap::new();
                    members.insert(peer.id, peer.addr);
                    repair::repair_round(&me.grp(), &me.network, &members).await;
                } else {
                    match repair::keyspace_diff(&me.grp(), &me.network, &ks, peer.id, peer.addr).await {
                        Ok((modified, removed, _)) => {
                            if let Err(err) = repair::sync_keyspace(&me.grp(), &me.network, &ks, peer.id, peer.addr, removed, modified).await {
                                out.why.push(("C01".into(), format!("step {i}: the repair exchange of node {n} with node {p} failed: {err}")));
                                return out;
                            }
                        },
                        Err(e) => {
                            out.why.push(("C19".into(), format!("step {i}: get_state failed: {e:?}")));
                            return out;
                        },
                    }
                }
            },
            "diff" | "removals" | "fetch" | "modified"
                if coarse && coarse_done.contains(&(s["n"].as_u64().unwrap(), s["p"].as_u64().unwrap())) => {},
            "getstate" => {
                let (n, p) = (s["n"].as_u64().unwrap(), s["p"].as_u64().unwrap());
                let me = &rig.nodes[&n];
                let mut client = ReplicationClient::<St>::new(me.clock.clone(), me.network.get_or_connect(rig.nodes[&p].addr));
                match client.get_state(ks.clone()).await {
                    Ok((_, set)) => {
                        // C19: what n received is the state p holds at the moment it answered (nothing else runs in between)
                        let peer_actor = rig.nodes[&p].grp().get_or_create_keyspace(&ks).await;
                        let actual = decode_set(&peer_actor.send(Serialize).await.expect("serialize"));
                        let (a, b) = (set.verif_project(), actual.verif_project());
                        if a.entries != b.entries || a.dead != b.dead || a.max_stamps != b.max_stamps || a.safe_stamps != b.safe_stamps {
                            out.why.push(("C19".into(), format!(
                                "step {i}: node {n} received from node {p} a state with {} live / {} tombstones, but node {p} holds {} live / {} tombstones at that moment",
                                a.entries.len(), a.dead.len(), b.entries.len(), b.dead.len())));
                        }
                        exch.insert((n, p), Exchange { snap: Some(set), modified: vec![], removed: vec![], fetched: None });
                    },
                    Err(e) => {
                        out.why.push(("C19".into(), format!("step {i}: get_state failed: {e:?}")));
                        return out;
                    },
                }
            },
            "diff" => {
                let (n, p) = (s["n"].as_u64().unwrap(), s["p"].as_u64().unwrap());
                let me = &rig.nodes[&n];
                let e = exch.get_mut(&(n, p)).expect("diff before getstate");
                let actor = me.grp().get_or_create_keyspace(&ks).await;
                let (modified, removed) = actor.send(Diff(e.snap.take().unwrap())).await;
                e.modified = modified;
                e.removed = removed;
            },
            "removals" => {
                let (n, p) = (s["n"].as_u64().unwrap(), s["p"].as_u64().unwrap());
                let e = exch.get(&(n, p)).expect("removals before diff");
                if let Err(err) = repair::apply_removals(&rig.nodes[&n].grp(), &ks, metas_of(&e.removed)).await {
                    out.tool_error = Some(format!("step {i}: handle_removals failed: {err}"));
                    return out;
                }
            },
            "fetch" => {
                let (n, p) = (s["n"].as_u64().unwrap(), s["p"].as_u64().unwrap());
                let me = &rig.nodes[&n];
                let e = exch.get_mut(&(n, p)).expect("fetch before diff");
                let next_is_apply = steps.get(i).map(|x| x["a"] == "modified" && x["n"] == s["n"] && x["p"] == s["p"]).unwrap_or(false);
                if next_is_apply {
                    // fetch + apply adjacent: the real handle_modified does both
                    i += 1;
                    if let Err(err) = repair::apply_modified(&me.grp(), &me.network, &ks, metas_of(&e.modified), p as u8, rig.nodes[&p].addr).await {
                        out.tool_error = Some(format!("step {i}: handle_modified failed: {err}"));
                        return out;
                    }
                    e.fetched = Some(vec![]);
                } else {
                    let mut client = ReplicationClient::<St>::new(me.clock.clone(), me.network.get_or_connect(rig.nodes[&p].addr));
                    let ids: Vec<u64> = e.modified.iter().map(|x| x.0).collect();
                    match client.fetch_docs(ks.clone(), ids).await {
                        Ok(docs) => e.fetched = Some(docs),
                        Err(err) => {
                            out.tool_error = Some(format!("step {i}: fetch_docs failed: {err:?}"));
                            return out;
                        },
                    }
                }
            },
            "modified" => {
                let (n, p) = (s["n"].as_u64().unwrap(), s["p"].as_u64().unwrap());
                let me = &rig.nodes[&n];
                let e = exch.get_mut(&(n, p)).expect("modified before fetch");
                let docs = e.fetched.take().expect("modified before fetch");
                let actor = me.grp().get_or_create_keyspace(&ks).await;
                let _ = actor.send(MultiSet { source: 1, docs: DocVec::from_vec(docs), ctx: None, _marker: PhantomData::<St> }).await;
            },
            "purge" => {
                let n = &rig.nodes[&s["n"].as_u64().unwrap()];
                let actor = n.grp().get_or_create_keyspace(&ks).await;
                let _ = actor.send(PurgeDeletes(PhantomData::<St>)).await;
                if let Some(sk) = shadow.as_ref() {
                    let actor = n.grp().get_or_create_keyspace(sk).await;
                    let _ = actor.send(PurgeDeletes(PhantomData::<St>)).await;
                }
            },
            "restart" => {
                // a new group on the same storage takes over the node's services
                let n = &rig.nodes[&s["n"].as_u64().unwrap()];
                let group = KeyspaceGroup::new(n.store.clone(), n.clock.clone()).await;
                if let Err(err) = group.load_states_from_storage().await {
                    out.why.push(("C07".into(), format!("step {i}: load_states_from_storage failed: {err}")));
                    return out;
                }
                n.server.add_service(ConsistencyService::new(group.clone(), n.network.clone()));
                n.server.add_service(ReplicationService::new(group.clone()));
                *n.group.lock() = group;
                // the node's own repair exchanges died with it, and so did its poller's tracker
                let nid = s["n"].as_u64().unwrap();
                let keys: Vec<(u64, u64)> = held.keys().filter(|k| k.0 == nid).cloned().collect();
                for k in keys {
                    let (pause, task) = held.remove(&k).unwrap();
                    pause.release();
                    let _ = task.await;
                }
                trackers.insert(nid, repair::Tracker::default());
                exch.retain(|k, _| k.0 != nid);
            },
            other => panic!("step {other}"),
        }
    }

    for ((n, _), (pause, task)) in std::mem::take(&mut held) {
        pause.release();
        trackers.insert(n, task.await.expect("poller round"));
    }
    if tracked {
        // Everything has been issued and delivered (or lost). Now every node runs the body of the real poller loop
        // (repair_members with its own keyspace tracker) against all other nodes, round after round, until a whole
        // round asks no keyspace actor for a difference any more - the poller's fixpoint - or six rounds have passed.
        let mut rounds = 0u64;
        let mut fixpoint = false;
        while rounds < 7 && !fixpoint {
            rounds += 1;
            verif::start_recording();
            for (n, me) in &rig.nodes {
                let members: BTreeMap<u8, SocketAddr> = rig.nodes.iter().filter(|(p, _)| *p != n).map(|(_, p)| (p.id, p.addr)).collect();
                repair::repair_round_tracked(&me.grp(), &me.network, &members, trackers.get_mut(n).unwrap()).await;
            }
            let diffs = verif::take_events().iter().filter(|e| e.contains("\"ev\":\"ks_diff\"")).count();
            fixpoint = diffs == 0;
        }
        out.rounds = rounds;
        out.fixpoint = fixpoint;
        if !fixpoint {
            // the pollers were still asking for differences after six rounds: nothing is claimed about this behaviour
            // (counted; the check fails as a tool error if that happens more than occasionally)
            return out;
        }
    }

    // final observation
    let keys: Vec<u64> = b["expect"].as_array().map(|a| (1..=a.len() as u64).map(|k| tm.id(k)).collect()).unwrap_or_default();
    let mut reads = serde_json::Map::new();
    let mut final_sets: BTreeMap<u64, Set2> = BTreeMap::new();
    for (id, n) in &rig.nodes {
        let actor = n.grp().get_or_create_keyspace(&ks).await;
        let set = decode_set(&actor.send(Serialize).await.expect("serialize"));
        let mut meta: Vec<(u64, HLCTimestamp, bool)> = n.store.iter_metadata(&ks).await.unwrap().collect();
        meta.sort();
        let mut row = vec![];
        for (ki, k) in keys.iter().enumerate() {
            let doc = n.store.get(&ks, *k).await.unwrap();
            let got = match &doc {
                Some(d) => tm.back(&d.last_updated()),
                None => json!([]),
            };
            if let Some(d) = &doc {
                if d.data() != doc_bytes(*k, d.last_updated()).as_slice() {
                    out.why.push(("C01".into(), format!("node {id}: document {k} carries bytes of another version")));
                }
            }
            let want = &b["expect"][ki];
            if got != *want {
                out.why.push(("C01".into(), format!("node {id} reads key {k} = {got}, last-writer-wins over all issued operations gives {want}")));
            }
            row.push(got);
            // C02 on this node
            let live = set.get(k).copied();
            let dead = tombstones(&set).get(k).copied();
            let m = meta.iter().find(|e| e.0 == *k);
            let agree = match m {
                None => live.is_none() && dead.is_none(),
                Some((_, ts, false)) => live == Some(*ts) && dead.is_none(),
                Some((_, ts, true)) => dead == Some(*ts) && live.is_none(),
            };
            if !agree {
                out.why.push(("C02".into(), format!("node {id}, key {k}: set says live={live:?} tombstone={dead:?}, storage says {m:?}")));
            }
        }
        reads.insert(id.to_string(), Value::Array(row));
        final_sets.insert(*id, set);
    }
    if let Some(sk) = shadow.as_ref() {
        // the shadow keyspace holds the last key exactly as the main keyspace does, and nothing else
        for (id, n) in &rig.nodes {
            for k in keys.iter() {
                let doc = n.store.get(sk, *k).await.unwrap();
                let got = match &doc {
                    Some(d) => tm.back(&d.last_updated()),
                    None => json!([]),
                };
                let want = if *k == tm.id(skey) { b["expect"][(skey - 1) as usize].clone() } else { json!([]) };
                if got != want {
                    out.why.push(("C01".into(), format!("node {id}, second keyspace: reads key {k} = {got}, last-writer-wins over the operations issued there gives {want}")));
                }
            }
        }
    }
    // C05 at cluster level: every pair has exchanged, so nobody has anything left to fetch from anybody
    for (a, sa) in &final_sets {
        for (b, sb) in &final_sets {
            if a == b {
                continue;
            }
            let (m, r) = sa.diff(sb);
            if !m.is_empty() || !r.is_empty() {
                out.why.push(("C05".into(), format!("after every pair exchanged, node {a} still computes a difference against node {b}: modified {:?}, removed {:?}",
                    m.iter().map(|e| (e.0, tm.back(&e.1))).collect::<Vec<_>>(), r.iter().map(|e| (e.0, tm.back(&e.1))).collect::<Vec<_>>())));
            }
        }
    }
    out.reads = Value::Object(reads);
    out
}

pub async fn replay() {
    let f: u64 = arg_or("--f", "3").parse().unwrap();
    let out_path = arg_or("--out", "-");
    let passthrough = vcommon::arg("--passthrough");
    let max: usize = arg_or("--max", "1000000").parse().unwrap();
    let coarse = arg_or("--mode", "fine") == "coarse";
    let tracked = arg_or("--mode", "fine") == "tracked";
    // the progress watcher of begin_keyspace_sync looks every 250 ms; here it looks every `--sync-tick-ms`
    let tick_ms: u64 = arg_or("--sync-tick-ms", "2").parse().unwrap();
    datacake_eventual_consistency::verif::set_sync_tick(Duration::from_millis(tick_ms));
    let (mut rounds_total, mut fixpoints) = (0u64, 0u64);
    let mut held_total = 0u64;
    let mut refused_total = 0u64;
    let slice: Vec<usize> = arg_or("--slice", "0/1").split('/').map(|x| x.parse().unwrap()).collect();
    let ids: Vec<u64> = arg_or("--nodes", "1,2").split(',').map(|x| x.parse().unwrap()).collect();
    let mut behaviours: Vec<Value> = vec![];
    let mut seen = std::collections::HashSet::new();
    for_each_payload(open_input(&arg_or("--input", "-")), passthrough.as_deref(), |tag, v| {
        if tag == "BEHAVIOUR" && behaviours.len() < max {
            if seen.insert(v["hist"].to_string()) {
                behaviours.push(v);
            }
        }
    });
    let mut sum = Summary::default();
    let mut rig = Rig::new(&ids).await;
    let mut in_rig = 0u64;
    let mut last_had_restart = false;
    let mut steps_total = 0u64;
    let mut kinds: BTreeMap<String, u64> = BTreeMap::new();
    let behaviours: Vec<Value> = behaviours.into_iter().enumerate().filter(|(i, _)| i % slice[1] == slice[0]).map(|(_, b)| b).collect();
    for (idx, b) in behaviours.iter().enumerate() {
        let has_restart = b["hist"].as_array().unwrap().iter().any(|s| s["a"] == "restart");
        if in_rig >= 20_000 || has_restart || last_had_restart || (coarse && in_rig >= 30) || (tracked && in_rig >= 10) {
            rig = Rig::new(&ids).await;
            in_rig = 0;
        }
        last_had_restart = has_restart;
        in_rig += 1;
        sum.evaluations += 1;
        for s in b["hist"].as_array().unwrap() {
            steps_total += 1;
            *kinds.entry(s["a"].as_str().unwrap().to_string()).or_default() += 1;
        }
        let o = run_behaviour(&rig, b, in_rig, f, coarse, tracked, if tracked && idx % 30 == 7 { 1 + ((idx / 30) % 2) as u8 } else { 0 }).await;
        rounds_total += o.rounds;
        held_total += o.held_rounds;
        refused_total += o.refused_repair_writes;
        fixpoints += o.fixpoint as u64;
        if let Some(e) = o.tool_error {
            eprintln!("tool error in behaviour {idx}: {e}");
            std::process::exit(2);
        }
        for d in o.drift {
            sum.drift(json!({"what": d, "behaviour": b["hist"]}));
        }
        if !o.why.is_empty() {
            let mut by_prop: BTreeMap<String, Vec<String>> = BTreeMap::new();
            for (p, w) in o.why {
                by_prop.entry(p).or_default().push(w);
            }
            for (p, why) in by_prop {
                sum.violation(json!({"property": p, "why": why, "behaviour": b["hist"], "ops": b["ops"], "expect": b["expect"], "reads": o.reads}));
            }
        }
        if idx % 500 == 0 {
            sum.sample(json!({"behaviour": b["hist"], "expect": b["expect"], "reads": o.reads}));
        }
    }
    let _ = &rig.driver;
    sum.set("behaviours", behaviours.len() as u64);
    sum.set("steps", steps_total);
    sum.set("step_kinds", json!(kinds));
    sum.set("poller_rounds", rounds_total);
    sum.set("poller_rounds_held_inside_getstate", held_total);
    sum.set("refused_repair_writes", refused_total);
    sum.set("poller_fixpoints", fixpoints);
    sum.write(&out_path);
}

/// C05 at scale: one real poller round (`repair_members`: poll, state transfer, diff, `begin_keyspace_sync` with both halves)
/// between a node that holds N documents and tombstones and a node that holds nothing (or older versions of some), for
/// sizes around the poller's batching limits.  Afterwards the two storages must list the same ids, stamps and kinds, and
/// hold the same bytes.
pub async fn large_exchange() {
    let out_path = arg_or("--out", "-");
    let sizes: Vec<u64> = arg_or("--sizes", "1,2,3,999,1000,1001,4999,55556,55557").split(',').map(|x| x.parse().unwrap()).collect();
    datacake_eventual_consistency::verif::set_sync_tick(Duration::from_millis(2));
    let rig = Rig::new(&[1, 2]).await;
    let (a, b) = (&rig.nodes[&1], &rig.nodes[&2]);
    let mut sum = Summary::default();
    let mut docs_total = 0u64;
    // differences that consist of removals only, of sizes just past the round numbers a batching of removals may use
    let removal_sizes: Vec<u64> = arg_or("--removal-sizes", "1001,4097,10001").split(',').filter(|x| !x.is_empty()).map(|x| x.parse().unwrap()).collect();
    for (si, r) in removal_sizes.iter().enumerate() {
        let ks = format!("gone{r}");
        let base = 150_000 + si as u64 * 100;
        let t_put = HLCTimestamp::new(Duration::from_secs(base), 0, 1);
        verif::set_node_wall(1, Some(Duration::from_secs(base + 40)));
        verif::set_node_wall(2, Some(Duration::from_secs(base + 40)));
        let actor_a = a.grp().get_or_create_keyspace(&ks).await;
        let actor_b = b.grp().get_or_create_keyspace(&ks).await;
        let all: Vec<(u64, HLCTimestamp)> = (1..=*r).map(|i| (i, t_put)).collect();
        for chunk in all.chunks(20_000) {
            // both nodes hold the documents; the sending node then deletes every one of them, each at a stamp of its own
            let _ = actor_a.send(MultiSet { source: 0, docs: docs_of(chunk), ctx: None, _marker: PhantomData::<St> }).await;
            let _ = actor_b.send(MultiSet { source: 0, docs: docs_of(chunk), ctx: None, _marker: PhantomData::<St> }).await;
        }
        let gone: Vec<(u64, HLCTimestamp)> = (1..=*r).map(|i| (i, HLCTimestamp::new(Duration::from_secs(base + 10) + Duration::from_millis(4 * (i % 5000)), (i / 5000) as u16, 1))).collect();
        for chunk in gone.chunks(20_000) {
            let _ = actor_a.send(MultiDel { source: 0, docs: metas_of(chunk), _marker: PhantomData::<St> }).await;
        }
        let mut members = BTreeMap::new();
        members.insert(a.id, a.addr);
        repair::repair_round(&b.grp(), &b.network, &members).await;
        let mut ma: Vec<(u64, HLCTimestamp, bool)> = a.store.iter_metadata(&ks).await.unwrap().collect();
        let mut mb: Vec<(u64, HLCTimestamp, bool)> = b.store.iter_metadata(&ks).await.unwrap().collect();
        ma.sort();
        mb.sort();
        docs_total += ma.len() as u64;
        sum.evaluations += 1;
        if ma != mb {
            let missing = ma.iter().filter(|e| !mb.contains(e)).count();
            let still_live = mb.iter().filter(|e| !e.2).count();
            sum.violation(json!({"property": "C05", "removals": r, "why": [format!(
                "after one exchange of {r} removals the receiving node differs from the sending node in {missing} entries; {still_live} documents the sender deleted are still live there")]}));
        }
        sum.sample(json!({"removals": r, "entries_on_sender": ma.len(), "entries_on_receiver": mb.len()}));
    }
    for (si, n) in sizes.iter().enumerate() {
        let ks = format!("large{n}");
        let base = 200_000 + si as u64 * 100;
        let t_put = HLCTimestamp::new(Duration::from_secs(base), 0, 1);
        let t_old = HLCTimestamp::new(Duration::from_secs(base - 50), 0, 2);
        let t_del = HLCTimestamp::new(Duration::from_secs(base + 10), 0, 1);
        verif::set_node_wall(1, Some(Duration::from_secs(base + 20)));
        verif::set_node_wall(2, Some(Duration::from_secs(base + 20)));
        let actor_a = a.grp().get_or_create_keyspace(&ks).await;
        let actor_b = b.grp().get_or_create_keyspace(&ks).await;
        // the receiving node holds older versions of a few documents
        let older: Vec<(u64, HLCTimestamp)> = (1..=*n).step_by(97).map(|i| (i, t_old)).collect();
        let _ = actor_b.send(MultiSet { source: 0, docs: docs_of(&older), ctx: None, _marker: PhantomData::<St> }).await;
        let all: Vec<(u64, HLCTimestamp)> = (1..=*n).map(|i| (i, t_put)).collect();
        for chunk in all.chunks(20_000) {
            let _ = actor_a.send(MultiSet { source: 0, docs: docs_of(chunk), ctx: None, _marker: PhantomData::<St> }).await;
        }
        let gone: Vec<(u64, HLCTimestamp)> = (1..=*n).step_by(10).map(|i| (i, t_del)).collect();
        if gone.len() == 1 {
            let _ = actor_a.send(Del { source: 0, doc: metas_of(&gone).remove(0), _marker: PhantomData::<St> }).await;
        } else {
            let _ = actor_a.send(MultiDel { source: 0, docs: metas_of(&gone), _marker: PhantomData::<St> }).await;
        }
        let mut members = BTreeMap::new();
        members.insert(a.id, a.addr);
        repair::repair_round(&b.grp(), &b.network, &members).await;
        // what the two storages hold
        let mut ma: Vec<(u64, HLCTimestamp, bool)> = a.store.iter_metadata(&ks).await.unwrap().collect();
        let mut mb: Vec<(u64, HLCTimestamp, bool)> = b.store.iter_metadata(&ks).await.unwrap().collect();
        ma.sort();
        mb.sort();
        docs_total += ma.len() as u64;
        sum.evaluations += 1;
        let mut why = vec![];
        if ma != mb {
            let missing = ma.iter().filter(|e| !mb.contains(e)).count();
            let extra = mb.iter().filter(|e| !ma.contains(e)).count();
            why.push(format!("after one exchange the receiving node lists {} entries, the sending node {}: {missing} of the sender's entries are missing or differ, {extra} entries are not the sender's",
                             mb.len(), ma.len()));
        }
        let mut wrong_bytes = 0u64;
        for (id, ts, tomb) in ma.iter().filter(|e| e.0 % 7 == 1 || *n < 2000) {
            if *tomb {
                continue;
            }
            let want = doc_bytes(*id, *ts);
            match b.store.get(&ks, *id).await.unwrap() {
                Some(d) if d.data() == want.as_slice() => {},
                _ => wrong_bytes += 1,
            }
        }
        if wrong_bytes > 0 {
            why.push(format!("{wrong_bytes} documents are unreadable on the receiving node or carry other bytes"));
        }
        if !why.is_empty() {
            sum.violation(json!({"property": "C05", "size": n, "why": why}));
        }
        sum.sample(json!({"size": n, "entries_on_sender": ma.len(), "entries_on_receiver": mb.len()}));
    }
    // many keyspaces that all need repairing in ONE poller round (the poller asks for the states of all changed keyspaces at
    // once, MAX_CONCURRENT_REQUESTS = 10 at a time by its own account): counts around that limit
    let many: Vec<u64> = vec![9, 10, 11, 12, 21, 40];
    let many_results = futures::future::join_all(many.iter().map(|k| many_keyspaces(*k))).await;
    for (k, r) in many.iter().zip(many_results) {
        sum.evaluations += 1;
        if let Err(why) = r {
            sum.violation(json!({"property": "C05", "keyspaces_in_one_round": k, "why": [why]}));
        }
    }
    sum.set("keyspaces_repaired_in_one_round", json!(many));
    // the same exchange with one fault in it: the receiving node's storage refuses the first repair write, or the sending
    // node's storage refuses the read behind the first fetch.  The exchange must not count as done: the node's poller
    // (same keyspace tracker, further rounds) repairs later.  Each case on a rig of its own, all at once.
    // "slow" / "slow-lands": the receiving node's storage sits on the first repair write for longer than the progress watcher's
    // patience (KEYSPACE_SYNC_TIMEOUT, 5 s real time) without reporting progress, so that begin_keyspace_sync gives the
    // exchange up and leaves the modification half running (Poller.tla: Sync(k, "timeout")); the write that was left to
    // run is then refused (LateDrop) or gets through (LateLand).  An exchange given up must not count as done either.
    let cases: Vec<(&str, u64)> = vec![("write", 1), ("write", 2), ("write", 7), ("read", 1), ("read", 2), ("read", 7), ("slow", 2), ("slow-lands", 3)];
    let results = futures::future::join_all(cases.iter().map(|(kind, n)| faulty_exchange(kind, *n))).await;
    let (mut consumed, mut slow_given_up) = (0u64, 0u64);
    for ((kind, n), r) in cases.iter().zip(results) {
        sum.evaluations += 1;
        match r {
            Ok(true) if kind.starts_with("slow") => slow_given_up += 1,
            Ok(false) if kind.starts_with("slow") => {},
            Ok(true) => consumed += 1,
            Ok(false) => {},
            Err(why) => sum.violation(json!({"property": "C05", "size": n, "fault": kind, "why": [why]})),
        }
    }
    sum.set("faulty_exchanges", cases.iter().filter(|c| !c.0.starts_with("slow")).count() as u64);
    sum.set("slow_exchanges", cases.iter().filter(|c| c.0.starts_with("slow")).count() as u64);
    sum.set("slow_exchanges_given_up_by_the_watcher", slow_given_up);
    sum.set("faults_run_into", consumed);
    sum.set("sizes", json!(sizes));
    sum.set("removal_sizes", json!(removal_sizes));
    sum.set("entries", docs_total);
    sum.write(&out_path);
}

/// `k` keyspaces of the sending node, each with a few documents and tombstones of its own, all new to the receiving node (which
/// holds an older version of one document in every other keyspace); ONE poller round; every keyspace must be equal afterwards.
async fn many_keyspaces(k: u64) -> Result<(), String> {
    let rig = Rig::new(&[1, 2]).await;
    let (a, b) = (&rig.nodes[&1], &rig.nodes[&2]);
    for i in 0..k {
        let ks = format!("many-{k}-{i}");
        let t_old = HLCTimestamp::new(Duration::from_secs(399_000), 0, 2);
        let t_put = HLCTimestamp::new(Duration::from_secs(400_000 + i), 0, 1);
        let t_del = HLCTimestamp::new(Duration::from_secs(400_100 + i), 0, 1);
        let actor_a = a.grp().get_or_create_keyspace(&ks).await;
        let all: Vec<(u64, HLCTimestamp)> = (1..=3 + i % 4).map(|d| (d, t_put)).collect();
        let _ = actor_a.send(MultiSet { source: 0, docs: docs_of(&all), ctx: None, _marker: PhantomData::<St> }).await;
        let _ = actor_a.send(Del { source: 0, doc: DocumentMetadata::new(2, t_del), _marker: PhantomData::<St> }).await;
        if i % 2 == 1 {
            let actor_b = b.grp().get_or_create_keyspace(&ks).await;
            let _ = actor_b.send(MultiSet { source: 0, docs: docs_of(&[(1, t_old), (2, t_old)]), ctx: None, _marker: PhantomData::<St> }).await;
        }
    }
    let mut members = BTreeMap::new();
    members.insert(a.id, a.addr);
    repair::repair_round(&b.grp(), &b.network, &members).await;
    let mut apart = vec![];
    for i in 0..k {
        let ks = format!("many-{k}-{i}");
        let mut ma: Vec<(u64, HLCTimestamp, bool)> = a.store.iter_metadata(&ks).await.unwrap().collect();
        let mut mb: Vec<(u64, HLCTimestamp, bool)> = b.store.iter_metadata(&ks).await.unwrap().collect();
        ma.sort();
        mb.sort();
        if ma != mb {
            apart.push(i);
        }
    }
    if apart.is_empty() {
        Ok(())
    } else {
        Err(format!("after one poller round against a peer with {k} keyspaces that all differ, {} keyspaces are still apart (numbers {:?})", apart.len(), apart))
    }
}

/// One exchange of `n` documents (and a tombstone) with a fault of `kind` in it, then up to four more poller rounds with the
/// same keyspace tracker.  Ok(whether the fault was run into), Err(why the nodes are still apart).
async fn faulty_exchange(kind: &str, n: u64) -> Result<bool, String> {
    let rig = Rig::new(&[1, 2]).await;
    let (a, b) = (&rig.nodes[&1], &rig.nodes[&2]);
    let ks = format!("faulty-{kind}-{n}");
    let t_put = HLCTimestamp::new(Duration::from_secs(300_000), 0, 1);
    let t_del = HLCTimestamp::new(Duration::from_secs(300_010), 0, 1);
    let actor_a = a.grp().get_or_create_keyspace(&ks).await;
    let all: Vec<(u64, HLCTimestamp)> = (1..=n).map(|i| (i, t_put)).collect();
    let _ = actor_a.send(MultiSet { source: 0, docs: docs_of(&all), ctx: None, _marker: PhantomData::<St> }).await;
    let _ = actor_a.send(Del { source: 0, doc: DocumentMetadata::new(1_000, t_del), _marker: PhantomData::<St> }).await;
    let slow = kind.starts_with("slow");
    if kind == "write" {
        b.store.set_plan(Plan::Fail(vec![]));
    } else if kind == "read" {
        *a.store.fail_read.lock() = Some("fetch");
    } else {
        *b.store.slow_put.lock() = Some((7_000, kind == "slow"));
    }
    let mut members = BTreeMap::new();
    members.insert(a.id, a.addr);
    let mut tracker = repair::Tracker::default();
    let mut first_round_end = std::time::Instant::now();
    for round in 0..5 {
        repair::repair_round_tracked(&b.grp(), &b.network, &members, &mut tracker).await;
        if round == 0 {
            first_round_end = std::time::Instant::now();
            if slow {
                // what was left to run is given the time to finish (or to be refused)
                let t0 = std::time::Instant::now();
                while b.store.slow_released.lock().is_none() && t0.elapsed() < Duration::from_secs(30) {
                    tokio::time::sleep(Duration::from_millis(50)).await;
                }
                tokio::time::sleep(Duration::from_millis(300)).await;
            }
        }
    }
    let consumed = match kind {
        "write" => !matches!(*b.store.plan.lock(), Plan::Fail(_)),
        "read" => a.store.fail_read.lock().is_none(),
        // the exchange was given up by the watcher: the round was over before the storage let go of the write
        _ => matches!(*b.store.slow_released.lock(), Some(t) if first_round_end < t),
    };
    b.store.set_plan(Plan::Ok);
    *a.store.fail_read.lock() = None;
    let mut ma: Vec<(u64, HLCTimestamp, bool)> = a.store.iter_metadata(&ks).await.unwrap().collect();
    let mut mb: Vec<(u64, HLCTimestamp, bool)> = b.store.iter_metadata(&ks).await.unwrap().collect();
    ma.sort();
    mb.sort();
    if ma != mb {
        return Err(format!("after an exchange in which {} and four more rounds of the same poller, the receiving node lists {} entries, the sending node {}",
                           match kind {
                               "write" => "the receiver's storage refused one repair write",
                               "read" => "the sender's storage refused one read behind a fetch",
                               "slow" => "the receiver's storage sat on one repair write for longer than the progress watcher waits and then refused it",
                               _ => "the receiver's storage sat on one repair write for longer than the progress watcher waits",
                           },
                           mb.len(), ma.len()));
    }
    Ok(consumed)
}
