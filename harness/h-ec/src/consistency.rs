//! C06 (V, public API): real DatacakeNode clusters on loopback with the eventually consistent store
//! extension over a fault-injecting MemStore. For every consistency level, operation kind and
//! subset of replicas whose storage refuses writes, one call is made through the public handle;
//! right after it returns every node's storage is read. One NDJSON event per call for
//! Trace_Consistency.tla.

use std::io::Write;
use std::sync::atomic::{AtomicBool, Ordering};
use std::sync::Arc;
use std::time::Duration;

use datacake_eventual_consistency::test_utils::MemStore;
use datacake_eventual_consistency::{EventuallyConsistentStore, EventuallyConsistentStoreExtension, Storage, StoreError};
use datacake_node::{ConnectionConfig, Consistency, ConsistencyError, DCAwareSelector, DatacakeNode, DatacakeNodeBuilder};
use serde_json::{json, Value};
use vcommon::arg_or;

use crate::faulty::FaultyStore;

const KS: &str = "ks";
const KS2: &str = "ks-two";
const KS3: &str = "ks-late";
const KS_BULK: &str = "ks-bulk";

struct Member {
    id: u8,
    dc: u64,
    _node: DatacakeNode,
    store: EventuallyConsistentStore<FaultyStore>,
    inner: Arc<MemStore>,
    fail: Arc<AtomicBool>,
    delay: Arc<std::sync::atomic::AtomicU64>,
}

fn free_addr() -> std::net::SocketAddr {
    vcommon::free_addr()
}

/// Ports are picked before the nodes bind them; if another process takes one in between, the whole cluster is
/// started again on fresh ports.
async fn start_cluster(layout: &[u64]) -> Vec<Member> {
    for _ in 0..10 {
        if let Some(members) = try_start_cluster(layout).await {
            return members;
        }
    }
    eprintln!("tool error: could not start a cluster on loopback ports");
    std::process::exit(2);
}

async fn try_start_cluster(layout: &[u64]) -> Option<Vec<Member>> {
    // node ids are handed out in this order: the data centres take turns, so that the ids of one data centre are not
    // a contiguous run (node ids, like names, are values with structure: order, adjacency)
    let mut plan = vec![];
    let mut left: Vec<u64> = layout.to_vec();
    while left.iter().any(|n| *n > 0) {
        for (d, n) in left.iter_mut().enumerate() {
            if *n > 0 {
                *n -= 1;
                plan.push((d as u64 + 1, free_addr()));
            }
        }
    }
    let addrs: Vec<String> = plan.iter().map(|p| p.1.to_string()).collect();
    let mut members = vec![];
    for (i, (dc, addr)) in plan.iter().enumerate() {
        let seeds: Vec<String> = addrs.iter().filter(|a| **a != addr.to_string()).cloned().collect();
        let cfg = ConnectionConfig::new(*addr, *addr, seeds);
        let node = DatacakeNodeBuilder::<DCAwareSelector>::new(i as u8 + 1, cfg)
            .with_data_center(format!("dc{}", dc))
            .connect()
            .await;
        let node = match node {
            Ok(n) => n,
            Err(e) => {
                eprintln!("node {} could not start on {addr}: {e}; starting the cluster again", i + 1);
                return None;
            },
        };
        // the store is added before the other nodes join, so that it sees every membership change
        let inner = Arc::new(MemStore::default());
        let fs = FaultyStore::on(inner.clone());
        let fail = fs.fail_all.clone();
        let delay = fs.delay_ms.clone();
        let store = node.add_extension(EventuallyConsistentStoreExtension::new(fs)).await.expect("extension");
        members.push(Member { id: i as u8 + 1, dc: *dc, _node: node, store, inner, fail, delay });
    }
    let ids: Vec<u8> = members.iter().map(|m| m.id).collect();
    for m in &members {
        let others: Vec<u8> = ids.iter().cloned().filter(|i| *i != m.id).collect();
        m._node.wait_for_nodes(&others, Duration::from_secs(60)).await.expect("cluster forms");
    }
    // let the selectors / distributors take the final membership in
    tokio::time::sleep(Duration::from_millis(1500)).await;
    Some(members)
}

fn level(s: &str) -> Consistency {
    match s {
        "None" => Consistency::None,
        "One" => Consistency::One,
        "Two" => Consistency::Two,
        "Three" => Consistency::Three,
        "Quorum" => Consistency::Quorum,
        "LocalQuorum" => Consistency::LocalQuorum,
        "All" => Consistency::All,
        _ => Consistency::EachQuorum,
    }
}

/// (timestamp, tombstone, digest of the bytes) a node's storage holds for `id`
async fn held(m: &Member, id: u64) -> Option<(u64, bool, String)> {
    held_full(m, KS, id).await
}

pub async fn record() {
    let out = arg_or("--out", "trace.ndjson");
    let layouts: Vec<Vec<u64>> = arg_or("--layouts", "3;2,1")
        .split(';')
        .map(|l| l.split(',').map(|x| x.parse().unwrap()).collect())
        .collect();
    let mut f = std::io::BufWriter::new(std::fs::File::create(&out).expect("create trace"));
    let slow_ms: u64 = arg_or("--slow-ms", "2600").parse().unwrap();
    let slow_every: usize = arg_or("--slow-every", "2").parse().unwrap();
    let mut next_id = 1000u64;
    let mut calls = 0u64;
    let mut later_checks = 0u64;
    for layout in &layouts {
        let members = start_cluster(layout).await;
        let n = members.len();
        let issuer = &members[0];
        let handle = issuer.store.handle_with_keyspace(KS);
        let handle_bulk = issuer.store.handle_with_keyspace(KS_BULK);
        let others: Vec<usize> = (1..n).collect();
        let mut pending_later: Vec<(u64, bool)> = vec![];
        // every level x kind x subset of refusing replicas; then, for a few level/kind combinations, one replica that
        // is merely slow (its storage answers after `slow_ms`, longer than the 2 s the error type advertises)
        let mut specs: Vec<(&str, &str, Vec<usize>, Vec<usize>)> = vec![];
        for lv in ["None", "One", "Two", "Three", "Quorum", "LocalQuorum", "All", "EachQuorum"] {
            for kind in ["put", "put_many", "del", "del_many"] {
                for mask in 0..(1u32 << others.len()) {
                    let failing: Vec<usize> = others.iter().cloned().filter(|o| mask & (1 << (o - 1)) != 0).collect();
                    specs.push((lv, kind, failing, vec![]));
                }
            }
        }
        if slow_ms > 0 && !others.is_empty() {
            let mut k = 0usize;
            for lv in ["All", "Quorum", "EachQuorum", "One"] {
                for kind in ["put", "del_many", "put_many", "del"] {
                    k += 1;
                    if k % slow_every != 0 {
                        continue;
                    }
                    specs.push((lv, kind, vec![], vec![others[k % others.len()]]));
                }
            }
        }
        for (lv, kind, failing, slow) in specs {
            {
                {
                    // bulk calls name two documents; with every replica healthy, the bulk calls at All / One name 5 001 / 1 025
                    // (one request, one batch, one reply per replica - whatever its size)
                    let many = match (kind.ends_with("many"), failing.is_empty() && slow.is_empty(), lv) {
                        (true, true, "All") => 5_001,
                        (true, true, "One") => 1_025,
                        (true, _, _) => 2,
                        _ => 1,
                    };
                    let ids: Vec<u64> = (next_id..next_id + many).collect();
                    // the large calls have a keyspace of their own (the hooks do not log the states of large actors, and the
                    // ordinary keyspace's actors are to stay within what the trace specification is shown)
                    let ksn = if many > 2 { KS_BULK } else { KS };
                    let handle = if many > 2 { &handle_bulk } else { &handle };
                    next_id += many + (many % 2);
                    // every other bulk write names its first document twice (an earlier draft first): all of one call's
                    // documents carry one timestamp, and the version the issuer ends with is the one the replicas must hold
                    let repeated = kind == "put_many" && (next_id / 2) % 2 == 0;
                    let is_del = kind.starts_with("del");
                    if is_del {
                        // the documents exist everywhere first
                        handle.put_many(ids.iter().map(|i| (*i, b"seed".to_vec())).collect::<Vec<_>>(), Consistency::All).await.expect("seed documents");
                    }
                    for o in &failing {
                        members[*o].fail.store(true, Ordering::SeqCst);
                    }
                    for o in &slow {
                        members[*o].delay.store(slow_ms, Ordering::SeqCst);
                    }
                    let res = match kind {
                        "put" => handle.put(ids[0], format!("v-{}", ids[0]).into_bytes(), level(lv)).await,
                        "put_many" => {
                            let mut docs: Vec<(u64, Vec<u8>)> = vec![];
                            if repeated {
                                docs.push((ids[0], format!("draft-{}", ids[0]).into_bytes()));
                            }
                            docs.extend(ids.iter().map(|i| (*i, format!("v-{i}").into_bytes())));
                            handle.put_many(docs, level(lv)).await
                        },
                        "del" => handle.del(ids[0], level(lv)).await,
                        _ => handle.del_many(ids.clone(), level(lv)).await,
                    };
                    // read every node right after the call returned
                    let mut local_ok = true;
                    let mut have: Vec<Value> = vec![];
                    let mut local_ts = vec![];
                    let mut local_dig = vec![];
                    for id in &ids {
                        match held_full(issuer, ksn, *id).await {
                            Some((ts, tomb, dig)) if tomb == is_del => {
                                local_ts.push(ts);
                                local_dig.push(dig);
                            },
                            _ => {
                                local_ok = false;
                                local_ts.push(0);
                                local_dig.push(String::new());
                            },
                        }
                    }
                    for (oi, m) in members.iter().enumerate().skip(1) {
                        let mut all = true;
                        for (j, id) in ids.iter().enumerate() {
                            match held_full(m, ksn, *id).await {
                                // the mutation (the very bytes the issuer holds), or a newer one for the same id
                                Some((ts, tomb, dig)) if (ts == local_ts[j] && tomb == is_del && dig == local_dig[j]) || ts > local_ts[j] => {},
                                _ => all = false,
                            }
                        }
                        if all && local_ok {
                            have.push(json!([m.dc, members.iter().take(oi + 1).filter(|x| x.dc == m.dc).count()]));
                        }
                    }
                    for o in &failing {
                        members[*o].fail.store(false, Ordering::SeqCst);
                    }
                    for o in &slow {
                        members[*o].delay.store(0, Ordering::SeqCst);
                    }
                    let (result, responses, required, detail) = match &res {
                        Ok(()) => ("ok", 0, 0, String::new()),
                        Err(StoreError::ConsistencyError(ConsistencyError::ConsistencyFailure { responses, required, .. })) => ("failure", *responses, *required, String::new()),
                        Err(StoreError::ConsistencyError(ConsistencyError::NotEnoughNodes { live, required })) => ("notenough", *live, *required, String::new()),
                        Err(e) => ("other", 0, 0, e.to_string()),
                    };
                    calls += 1;
                    writeln!(f, "{}", json!({"ev": "call", "layout": layout, "level": lv, "kind": kind,
                        "failing": failing.iter().map(|o| json!([members[*o].dc, members.iter().take(o + 1).filter(|x| x.dc == members[*o].dc).count()])).collect::<Vec<_>>(),
                        "slow": slow.iter().map(|o| json!([members[*o].dc, members.iter().take(o + 1).filter(|x| x.dc == members[*o].dc).count()])).collect::<Vec<_>>(),
                        "result": result, "responses": responses, "required": required, "detail": detail,
                        "local": local_ok, "others": have, "ids": ids})).unwrap();
                    if result == "failure" && pending_later.len() < 6 {
                        pending_later.push((ids[0], is_del));
                    }
                }
            }
        }
        // "the local write is still replicated later": batch broadcast (1 s) and repair; polled for up to 30 s so
        // that a slow machine cannot turn this into a timing verdict
        for (id, is_del) in pending_later {
            let mut all = false;
            for _ in 0..60 {
                let local = held(issuer, id).await;
                all = true;
                for m in members.iter().skip(1) {
                    match (held(m, id).await, local.clone()) {
                        (Some((ts, tomb, dig)), Some((lts, _, ldig))) if (ts == lts && tomb == is_del && dig == ldig) || ts > lts => {},
                        _ => all = false,
                    }
                }
                if all {
                    break;
                }
                tokio::time::sleep(Duration::from_millis(500)).await;
            }
            later_checks += 1;
            writeln!(f, "{}", json!({"ev": "later", "layout": layout, "id": id, "replicated_everywhere": all})).unwrap();
        }
        drop(members);
    }
    let joins = join_scenario(&mut f, &mut next_id).await;
    calls += joins;
    f.flush().unwrap();
    println!("{}", json!({"calls": calls, "later_checks": later_checks, "layouts": layouts.len(), "calls_after_a_join": joins}));
}

/// A node joins while writes are going on.  Two nodes form a cluster and node 1 keeps writing at levels All and Quorum
/// (every 100 ms, so that whatever the selector remembers is fresh); a third node with its store joins; once node 1 has
/// published the membership change that names it (its selector has been told before that), the next writes are recorded
/// as calls on the three-node layout: `Ok` at All means the document is on both other members.
async fn join_scenario(f: &mut impl Write, next_id: &mut u64) -> u64 {
    use futures::StreamExt;
    let mut recorded = 0u64;
    for attempt in 0..3 {
        let members = start_cluster(&[2]).await;
        let issuer = &members[0];
        let handle = issuer.store.handle_with_keyspace(KS);
        let mut changes = issuer._node.membership_changes();
        let seen_joiner = Arc::new(AtomicBool::new(false));
        let flag = seen_joiner.clone();
        let watcher = tokio::spawn(async move {
            while let Some(change) = changes.next().await {
                if change.joined.iter().any(|m| m.node_id == 3) {
                    flag.store(true, Ordering::SeqCst);
                }
            }
        });
        // the joiner: a third node of the same data centre, seeded with the two others
        let addr = free_addr();
        let seeds: Vec<String> = members.iter().map(|m| m._node.me().public_addr.to_string()).collect();
        let cfg = ConnectionConfig::new(addr, addr, seeds);
        let inner3 = Arc::new(MemStore::default());
        let writer = async {
            let mut after = 0;
            let mut out = vec![];
            let start = std::time::Instant::now();
            while after < 6 && start.elapsed() < Duration::from_secs(90) {
                let lv = if *next_id % 2 == 0 { "All" } else { "Quorum" };
                let id = *next_id;
                *next_id += 1;
                let told = seen_joiner.load(Ordering::SeqCst);
                let res = handle.put(id, format!("v-{id}").into_bytes(), level(lv)).await;
                if told {
                    after += 1;
                    let (result, responses, required, detail) = match &res {
                        Ok(()) => ("ok", 0, 0, String::new()),
                        Err(StoreError::ConsistencyError(ConsistencyError::ConsistencyFailure { responses, required, .. })) => ("failure", *responses, *required, String::new()),
                        Err(StoreError::ConsistencyError(ConsistencyError::NotEnoughNodes { live, required })) => ("notenough", *live, *required, String::new()),
                        Err(e) => ("other", 0, 0, e.to_string()),
                    };
                    // every node is read right after the call returned
                    let local = held(issuer, id).await;
                    let mut have = vec![];
                    if let Some((lts, false, ldig)) = local.clone() {
                        if matches!(held(&members[1], id).await, Some((ts, false, d)) if ts == lts && d == ldig) {
                            have.push(json!([1, 2]));
                        }
                        let on3 = inner3.iter_metadata(KS).await.unwrap().find(|e| e.0 == id).map(|e| (e.1.as_u64(), e.2));
                        if matches!(on3, Some((ts, false)) if ts == lts) {
                            have.push(json!([1, 3]));
                        }
                    }
                    out.push(json!({"ev": "call", "layout": [3], "level": lv, "kind": "put", "failing": [], "slow": [[1, 3]],
                        "result": result, "responses": responses, "required": required, "detail": detail,
                        "local": local.is_some(), "others": have, "ids": [id], "after_join": true}));
                }
                tokio::time::sleep(Duration::from_millis(100)).await;
            }
            out
        };
        let joiner = async {
            tokio::time::sleep(Duration::from_millis(700)).await;
            let node = DatacakeNodeBuilder::<DCAwareSelector>::new(3, cfg).with_data_center("dc1".to_string()).connect().await.ok()?;
            let store = node.add_extension(EventuallyConsistentStoreExtension::new(FaultyStore::on(inner3.clone()))).await.ok()?;
            Some((node, store))
        };
        let (calls_after, joined) = tokio::join!(writer, joiner);
        watcher.abort();
        let Some(_joined) = joined else { continue };
        if calls_after.is_empty() {
            eprintln!("join scenario, attempt {attempt}: node 1 never published the joiner within 90 s; trying again");
            continue;
        }
        // (a write that failed its level says so itself - nobody refuses here, the joiner's services may simply not be up yet)
        for e in calls_after {
            writeln!(f, "{}", e).unwrap();
            recorded += 1;
        }
        break;
    }
    recorded
}


/// what a node's storage holds for `id`: (timestamp, tombstone, digest of the bytes)
async fn held_full(m: &Member, ks: &str, id: u64) -> Option<(u64, bool, String)> {
    let meta = m.inner.iter_metadata(ks).await.unwrap().find(|e| e.0 == id)?;
    let bytes = m.inner.get(ks, id).await.unwrap().map(|d| d.data().to_vec()).unwrap_or_default();
    Some((meta.1.as_u64(), meta.2, format!("{}:{:x}", bytes.len(), bytes.iter().fold(0xcbf29ce484222325u64, |h, b| (h ^ *b as u64).wrapping_mul(0x100000001b3)))))
}

/// C01 at system level: real nodes, operations issued at level None through the public handles, so that the other
/// nodes learn of them only through the real task distributor (and, if it gets to run, the real poller). Operations on
/// one document are issued at least 12 ms apart (three ticks of the hybrid clocks, which all read the same wall clock),
/// so the operation issued last is the one with the greatest timestamp: afterwards every node's storage must hold, per
/// keyspace and document, exactly that operation - its bytes if it was a put, a tombstone or nothing if it was a delete -
/// with the same timestamp everywhere.
pub async fn record_converge() {
    use datacake_eventual_consistency::ReplicatedKeyspaceHandle;
    type H = ReplicatedKeyspaceHandle<FaultyStore>;
    type Expect = std::collections::BTreeMap<(&'static str, u64), Option<String>>;
    fn dig(bytes: &[u8]) -> String {
        format!("{}:{:x}", bytes.len(), bytes.iter().fold(0xcbf29ce484222325u64, |h, b| (h ^ *b as u64).wrapping_mul(0x100000001b3)))
    }
    async fn gap() {
        tokio::time::sleep(Duration::from_millis(12)).await;
    }
    static OPS: std::sync::Mutex<Vec<Value>> = std::sync::Mutex::new(vec![]);
    fn log(ks: &str, id: u64, kind: &str, d: &str) {
        OPS.lock().unwrap().push(json!({"ev": "op", "ks": ks, "id": id, "kind": kind, "dig": d}));
    }
    async fn put(h: &H, e: &mut Expect, ks: &'static str, id: u64, bytes: &[u8]) {
        h.put(id, bytes.to_vec(), Consistency::None).await.expect("put");
        e.insert((ks, id), Some(dig(bytes)));
        log(ks, id, "put", &dig(bytes));
        gap().await;
    }
    async fn put_many(h: &H, e: &mut Expect, ks: &'static str, docs: Vec<(u64, &[u8])>) {
        h.put_many(docs.iter().map(|(i, b)| (*i, b.to_vec())).collect::<Vec<_>>(), Consistency::None).await.expect("put_many");
        for (i, b) in docs {
            e.insert((ks, i), Some(dig(b)));      // a document named twice: the last version stays
            log(ks, i, "put", &dig(b));
        }
        gap().await;
    }
    async fn del(h: &H, e: &mut Expect, ks: &'static str, id: u64) {
        h.del(id, Consistency::None).await.expect("del");
        e.insert((ks, id), None);
        log(ks, id, "del", "");
        gap().await;
    }
    async fn del_many(h: &H, e: &mut Expect, ks: &'static str, ids: Vec<u64>) {
        h.del_many(ids.clone(), Consistency::None).await.expect("del_many");
        for i in ids {
            e.insert((ks, i), None);
            log(ks, i, "del", "");
        }
        gap().await;
    }
    let out = arg_or("--out", "converge.ndjson");
    let rounds: u64 = arg_or("--rounds", "3").parse().unwrap();
    let mut f = std::io::BufWriter::new(std::fs::File::create(&out).expect("create trace"));
    let mut docs = 0u64;
    for layout in [vec![3u64], vec![2, 1]] {
        let members = start_cluster(&layout).await;
        let a = members[0].store.handle_with_keyspace(KS);
        let b = members[1].store.handle_with_keyspace(KS);
        // a second keyspace with the same document ids and other contents, and a third one that only comes into being
        // in the last round: keyspaces are replicated independently of one another
        let a2 = members[0].store.handle_with_keyspace(KS2);
        let b2 = members[1].store.handle_with_keyspace(KS2);
        let b3 = members[1].store.handle_with_keyspace(KS3);
        // the third node only deletes in the first keyspace and only writes in the second one (same document ids), so
        // that the batches its distributor builds hold removals of one keyspace and modifications of another
        let c = members[2].store.handle_with_keyspace(KS);
        let c2 = members[2].store.handle_with_keyspace(KS2);
        let mut e: Expect = Default::default();
        for r in 0..rounds {
            let base = 5000 + r * 100;
            // the same id twice in one bulk write (one timestamp for the whole call): every node must end with the same bytes
            put_many(&a, &mut e, KS, vec![(base + 1, b"first revision"), (base + 1, b"second revision")]).await;
            put_many(&a, &mut e, KS, vec![(base + 2, b"a"), (base + 3, b"b"), (base + 2, b"c")]).await;
            // rewritten at once, and rewritten by another node
            put(&a, &mut e, KS, base + 4, b"one").await;
            put(&a, &mut e, KS, base + 4, b"two").await;
            put(&a, &mut e, KS, base + 5, b"from a").await;
            put(&b, &mut e, KS, base + 5, b"from b").await;
            // bulk write then bulk delete of a part, delete then write again
            put_many(&a, &mut e, KS, vec![(base + 6, b"x"), (base + 7, b"y"), (base + 8, b"z")]).await;
            del_many(&a, &mut e, KS, vec![base + 6, base + 8]).await;
            put(&b, &mut e, KS, base + 9, b"soon gone").await;
            del(&b, &mut e, KS, base + 9).await;
            put(&b, &mut e, KS, base + 9, b"back again").await;
            put_many(&b2, &mut e, KS2, vec![(base + 1, b"other keyspace"), (base + 4, b"four"), (base + 6, b"six")]).await;
            del(&a2, &mut e, KS2, base + 4).await;
            put(&a2, &mut e, KS2, base + 5, b"only here").await;
            del_many(&b2, &mut e, KS2, vec![base + 1, base + 9]).await;
            put(&a2, &mut e, KS2, base + 9, b"after its delete").await;
            // the same bytes written again after another node deleted (or rewrote) the document, before the writer can
            // have heard of it: the second write is the last writer
            put(&a, &mut e, KS, base + 10, b"same bytes").await;
            del(&b, &mut e, KS, base + 10).await;
            put(&a, &mut e, KS, base + 10, b"same bytes").await;
            put_many(&a, &mut e, KS, vec![(base + 11, b"same bytes, bulk"), (base + 12, b"other")]).await;
            put(&b, &mut e, KS, base + 11, b"rewritten elsewhere").await;
            put_many(&a, &mut e, KS, vec![(base + 11, b"same bytes, bulk"), (base + 12, b"other")]).await;
            // third node: writes in the second keyspace, then deletes the same ids in the first one
            put(&c2, &mut e, KS2, base + 7, b"seven, second keyspace").await;
            put_many(&c2, &mut e, KS2, vec![(base + 3, b"three, second keyspace"), (base + 2, b"two, second keyspace")]).await;
            del(&c, &mut e, KS, base + 7).await;
            del_many(&c, &mut e, KS, vec![base + 3, base + 2]).await;
            if r + 1 == rounds {
                put(&b3, &mut e, KS3, base + 1, b"late keyspace").await;
                put_many(&b3, &mut e, KS3, vec![(base + 2, b"l2"), (base + 3, b"l3")]).await;
                del(&b3, &mut e, KS3, base + 2).await;
            }
            tokio::time::sleep(Duration::from_millis(300)).await;
        }
        let ops = std::mem::take(&mut *OPS.lock().unwrap());
        for mut op in ops {
            op["layout"] = json!(layout);
            writeln!(f, "{}", op).unwrap();
        }
        // polled for up to 40 s so that a slow machine cannot turn this into a timing verdict
        let mut finals: Vec<((&str, u64), Vec<Option<(u64, bool, String)>>, bool)> = vec![];
        for _ in 0..80 {
            finals.clear();
            let mut all_good = true;
            for (key, want) in e.iter() {
                let mut row = vec![];
                for m in &members {
                    row.push(held_full(m, key.0, key.1).await);
                }
                let equal = row.iter().all(|x| *x == row[0]);
                let mut as_expected = row.iter().all(|x| match (x, want) {
                    (Some((_, false, d)), Some(w)) => d == w,
                    (Some((_, true, _)), None) | (None, None) => true,
                    _ => false,
                });
                // the same through the public read API of every node: `get`, `get_many` and `iter_metadata` of its handle
                for m in &members {
                    let h = m.store.handle_with_keyspace(key.0);
                    let one = h.get(key.1).await.ok().flatten().map(|d| dig(d.data()));
                    let many: Vec<String> = h.get_many(vec![key.1]).await.map(|it| it.map(|d| dig(d.data())).collect()).unwrap_or_default();
                    let listed = m.store.handle().iter_metadata(key.0).await.map(|mut it| it.find(|e| e.0 == key.1)).ok().flatten();
                    let ok = match want {
                        Some(w) => one.as_ref() == Some(w) && many == vec![w.clone()] && matches!(listed, Some((_, _, false))),
                        None => one.is_none() && many.is_empty() && !matches!(listed, Some((_, _, false))),
                    };
                    if !ok {
                        as_expected = false;
                    }
                }
                if !equal || !as_expected {
                    all_good = false;
                }
                finals.push((*key, row, as_expected));
            }
            if all_good {
                break;
            }
            tokio::time::sleep(Duration::from_millis(500)).await;
        }
        for (id, row, as_expected) in finals {
            docs += 1;
            let equal = row.iter().all(|x| *x == row[0]);
            writeln!(f, "{}", json!({"ev": "final", "layout": layout, "ks": id.0, "id": id.1, "all_equal": equal, "as_expected": as_expected,
                "expected": e[&id].clone().map(|d| json!(["put", d])).unwrap_or(json!(["delete"])),
                "nodes": row.iter().map(|x| match x { Some((ts, tomb, dig)) => json!([ts.to_string(), tomb, dig]), None => json!([]) }).collect::<Vec<_>>()})).unwrap();
        }
        drop(members);
    }
    f.flush().unwrap();
    println!("{}", json!({"documents": docs}));
}
