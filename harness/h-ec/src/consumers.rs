//! C16, the consumers (G): behaviours emitted by Membership.tla are replayed on the real pipeline
//!   membership snapshots -> datacake-node `watch_membership_changes` -> watch channel -> `DatacakeHandle::membership_changes()`
//!   -> the store's `watch_membership_changes` -> task distributor / replication cycle
//! and judged by whom the two services address: which peers receive a batch (their storage is read), which peers
//! the replication cycle polls (its live members at the start of a round, and the peers its keyspace tracker
//! remembers one round later).  Peers are real RPC servers with the real services, shared by all behaviours of a
//! process; every behaviour writes documents with ids of its own.
//!
//! The store's watcher reads a change as soon as it is published, so only behaviours are replayed in which every
//! `sub` and every `pub` after it is directly followed by the subscriber's `read`.  Mode A lets both services tick
//! after every read, mode B only at the end (several changes drained at one tick).

use std::borrow::Cow;
use std::collections::{BTreeMap, BTreeSet, HashMap};
use std::net::SocketAddr;
use std::sync::Arc;
use std::time::{Duration, Instant};

use datacake_crdt::verif;
use datacake_eventual_consistency::test_utils::MemStore;
use datacake_eventual_consistency::verif::{ConsistencyService, KeyspaceGroup, MembershipConsumers, ReplicationService};
use datacake_eventual_consistency::{Document, Storage};
use datacake_node::verif::{handle_from_parts, spawn_membership_watcher, start_node_selector, NodeMembership};
use datacake_node::{Clock, ClusterMember, DCAwareSelector, RpcNetwork};
use datacake_rpc::Server;
use parking_lot::Mutex;
use serde_json::{json, Value};
use tokio::sync::watch;
use vcommon::{arg_or, for_each_payload, open_input, Summary};

use crate::fn_items;

const SELF_ID: u8 = 0;
const KS: &str = "members";

struct Peer {
    addr: SocketAddr,
    store: Arc<MemStore>,
    _server: Server,
}

async fn listen_free() -> (SocketAddr, Server) {
    let mut last = None;
    for _ in 0..200 {
        let addr = vcommon::free_addr();
        match Server::listen(addr).await {
            Ok(s) => return (addr, s),
            Err(e) => last = Some(e),
        }
    }
    eprintln!("tool error: no port to listen on: {last:?}");
    std::process::exit(2);
}

/// A peer: the real consistency service over a group whose storage the harness reads, the real replication service
/// over an empty group (a poll finds nothing to synchronise, so thousands of rounds stay cheap).
async fn start_peer(id: u8) -> Peer {
    let clock = Clock::new(id);
    let store = Arc::new(MemStore::default());
    let group = KeyspaceGroup::new(store.clone(), clock.clone()).await;
    let empty = KeyspaceGroup::new(Arc::new(MemStore::default()), clock.clone()).await;
    let (addr, server) = listen_free().await;
    server.add_service(ConsistencyService::new(group, RpcNetwork::default()));
    server.add_service(ReplicationService::new(empty));
    Peer { addr, store, _server: server }
}

#[derive(Clone, Debug)]
struct McEv {
    seq: u64,
    members: BTreeMap<u64, String>,
    tracked: BTreeSet<u64>,
}

#[derive(Default)]
struct Events {
    dist: HashMap<u64, Vec<McEv>>,
    poll: HashMap<u64, Vec<McEv>>,
    fwd: HashMap<u64, Vec<u64>>,
}

fn pump(events: &Mutex<Events>) {
    let lines = verif::drain_events();
    if lines.is_empty() {
        return;
    }
    let mut ev = events.lock();
    for line in lines {
        if !line.contains("\"mc_") {
            continue;
        }
        let v: Value = match serde_json::from_str(&line) {
            Ok(v) => v,
            Err(_) => continue,
        };
        let seq = v["seq"].as_u64().unwrap();
        match v["ev"].as_str().unwrap() {
            "mc_fwd" => ev.fwd.entry(v["dist"].as_u64().unwrap()).or_default().push(seq),
            kind @ ("mc_dist" | "mc_poll") => {
                let members = v["members"].as_array().unwrap().iter().map(|p| (p[0].as_u64().unwrap(), p[1].as_str().unwrap().to_string())).collect();
                let tracked = v["tracked"].as_array().unwrap().iter().map(|x| x.as_u64().unwrap()).collect();
                let e = McEv { seq, members, tracked };
                let svc = v["service"].as_u64().unwrap();
                if kind == "mc_dist" { ev.dist.entry(svc).or_default().push(e) } else { ev.poll.entry(svc).or_default().push(e) }
            },
            _ => {},
        }
    }
}

/// Waits until `pick` finds what it is looking for among the recorded events.
async fn wait_for<T>(events: &Mutex<Events>, what: &str, mut pick: impl FnMut(&Events) -> Option<T>) -> Result<T, String> {
    let start = Instant::now();
    loop {
        pump(events);
        if let Some(x) = pick(&events.lock()) {
            return Ok(x);
        }
        if start.elapsed() > Duration::from_secs(60) {
            return Err(format!("no {what} within 60 s"));
        }
        tokio::time::sleep(Duration::from_millis(25)).await;
    }
}

fn nth_after(list: Option<&Vec<McEv>>, seq: u64, n: usize) -> Option<McEv> {
    list?.iter().filter(|e| e.seq > seq).nth(n).cloned()
}

struct Outcome {
    violation: Option<Value>,
    tool_error: Option<String>,
    skipped_known: bool,
    judged: u64,
    multi_drain: bool,
    sample: Value,
}

fn qualifies(hist: &[Value]) -> bool {
    let mut subscribed = false;
    let mut any_read = false;
    for (i, step) in hist.iter().enumerate() {
        let op = step["op"].as_str().unwrap();
        let next = hist.get(i + 1).map(|s| s["op"].as_str().unwrap());
        match op {
            "sub" => {
                subscribed = true;
                if next != Some("read") {
                    return false;
                }
            },
            "pub" if subscribed => {
                if next != Some("read") {
                    return false;
                }
            },
            "read" => any_read = true,
            _ => {},
        }
    }
    subscribed && any_read
}

struct Ctx {
    peers: BTreeMap<(u64, u64), Peer>,
    events: Mutex<Events>,
    next_doc: std::sync::atomic::AtomicU64,
    tracker_drift: std::sync::atomic::AtomicU64,
}

impl Ctx {
    fn snapshot(&self, self_addr: SocketAddr, snap: &Value) -> NodeMembership {
        let mut m = NodeMembership::new();
        m.insert(SELF_ID, ClusterMember::new(SELF_ID, self_addr, "dc1".to_string()));
        for (id, a) in fn_items(snap) {
            let a = a.as_u64().unwrap();
            if a != 0 {
                m.insert(id as u8, ClusterMember::new(id as u8, self.peers[&(id, a)].addr, "dc1".to_string()));
            }
        }
        m
    }

    fn expect_members(&self, expect: &Value) -> BTreeMap<u64, String> {
        fn_items(expect)
            .into_iter()
            .filter_map(|(id, a)| {
                let a = a.as_u64().unwrap();
                (a != 0).then(|| (id, self.peers[&(id, a)].addr.to_string()))
            })
            .collect()
    }

    fn name(&self, addr: &str) -> String {
        self.peers.iter().find(|(_, p)| p.addr.to_string() == addr).map(|((id, a), _)| format!("{id}@{a}")).unwrap_or_else(|| addr.to_string())
    }

    fn pretty(&self, m: &BTreeMap<u64, String>) -> Vec<String> {
        m.values().map(|a| self.name(a)).collect()
    }
}

/// `tick_once`, and once more when the first look disagrees with `expect`: a batch is sent once and a poll may fail for
/// reasons of the machine (connection trouble under load); only a disagreement that repeats is reported.
async fn tick_and_judge(ctx: &Ctx, consumers: &MembershipConsumers, clock: &Clock, after: u64, expect: &Value, judge: bool, why: &mut Vec<String>) -> Result<(), String> {
    let mut first = vec![];
    tick_once(ctx, consumers, clock, after, expect, judge, &mut first).await?;
    if !first.is_empty() {
        tick_once(ctx, consumers, clock, after, expect, judge, why).await?;
    }
    Ok(())
}

/// Lets both services tick and compares whom they address with `expect` (when `judge`).
async fn tick_once(ctx: &Ctx, consumers: &MembershipConsumers, clock: &Clock, after: u64, expect: &Value, judge: bool, why: &mut Vec<String>) -> Result<(), String> {
    let (dist, poll) = consumers.service_ids();
    let (dist, poll) = (dist as u64, poll as u64);
    let doc_id = ctx.next_doc.fetch_add(1, std::sync::atomic::Ordering::SeqCst);
    let ts = clock.get_time().await;
    let mark = verif::next_seq().max(after);
    consumers.put(KS, Document::new(doc_id, ts, format!("doc {doc_id}").into_bytes()));
    // the tick that drains the channel (membership changes first, then this put) and the one after it, by which
    // the batch has been delivered or has failed
    let t1 = wait_for(&ctx.events, "distributor tick", |e| nth_after(e.dist.get(&dist), mark, 0)).await?;
    let _t2 = wait_for(&ctx.events, "second distributor tick", |e| nth_after(e.dist.get(&dist), mark, 1)).await?;
    let p1 = wait_for(&ctx.events, "replication round", |e| nth_after(e.poll.get(&poll), mark, 0)).await?;
    let p2 = wait_for(&ctx.events, "second replication round", |e| nth_after(e.poll.get(&poll), mark, 1)).await?;
    if !judge {
        return Ok(());
    }
    let want = ctx.expect_members(expect);
    let mut got_batch = BTreeMap::new();
    for ((id, a), peer) in ctx.peers.iter() {
        if peer.store.get(KS, doc_id).await.map_err(|e| e.to_string())?.is_some() {
            got_batch.insert((*id, *a), peer.addr.to_string());
        }
    }
    let want_batch: BTreeSet<String> = want.values().cloned().collect();
    let have_batch: BTreeSet<String> = got_batch.values().cloned().collect();
    if t1.members != want {
        why.push(format!("the task distributor holds live members {:?}; the live peers are {:?}", ctx.pretty(&t1.members), ctx.pretty(&want)));
    }
    if have_batch != want_batch {
        why.push(format!("the batch reached {:?}; the live peers are {:?}", have_batch.iter().map(|a| ctx.name(a)).collect::<Vec<_>>(), ctx.pretty(&want)));
    }
    if p1.members != want {
        why.push(format!("the replication cycle polls {:?}; the live peers are {:?}", ctx.pretty(&p1.members), ctx.pretty(&want)));
    }
    let want_ids: BTreeSet<u64> = want.keys().copied().collect();
    if p2.tracked != want_ids {
        // internal: the tracker decides which synchronisations may be skipped, not who is addressed (drift, no alarm)
        ctx.tracker_drift.fetch_add(1, std::sync::atomic::Ordering::SeqCst);
    }
    Ok(())
}

async fn run_history(ctx: Arc<Ctx>, h: Value, mode_b: bool) -> Outcome {
    let mut out = Outcome { violation: None, tool_error: None, skipped_known: false, judged: 0, multi_drain: false, sample: Value::Null };
    let hist = h["hist"].as_array().unwrap().clone();
    let self_addr: SocketAddr = "127.0.0.1:9".parse().unwrap();
    let selector = start_node_selector(self_addr, Cow::Borrowed("dc1"), DCAwareSelector::default()).await;
    let (snap_tx, snap_rx) = watch::channel(ctx.snapshot(self_addr, &json!([])));
    let (changes_rx, network, _stats) = spawn_membership_watcher(SELF_ID, selector.clone(), snap_rx);
    let mut observer = changes_rx.clone();
    if tokio::time::timeout(Duration::from_secs(30), observer.changed()).await.is_err() {
        out.tool_error = Some("watcher did not publish the initial snapshot".into());
        return out;
    }
    let clock = Clock::new(SELF_ID);
    let group = KeyspaceGroup::new(Arc::new(MemStore::default()), clock.clone()).await;
    let mut consumers: Option<MembershipConsumers> = None;
    let mut reads = 0usize;
    let mut last_fwd = 0u64;
    let mut why = vec![];
    let mut last_read: Option<Value> = None;
    for (i, step) in hist.iter().enumerate() {
        match step["op"].as_str().unwrap() {
            "pub" => {
                snap_tx.send(ctx.snapshot(self_addr, &step["snap"])).expect("watcher alive");
                if tokio::time::timeout(Duration::from_secs(30), observer.changed()).await.is_err() {
                    // judged by the subscriber replay of h-node; nothing to forward here
                    out.tool_error = Some(format!("step {}: no change was published for a changed membership", i + 1));
                    break;
                }
                observer.borrow_and_update();
            },
            "sub" => {
                let handle = handle_from_parts(ClusterMember::new(SELF_ID, self_addr, "dc1".to_string()), clock.clone(), network.clone(), selector.clone(), changes_rx.clone());
                consumers = Some(MembershipConsumers::start(group.clone(), handle, Duration::from_secs(1)).await);
            },
            "read" => {
                let c = consumers.as_ref().expect("read before sub");
                let dist = c.service_ids().0 as u64;
                reads += 1;
                let n = reads;
                let fwd = match wait_for(&ctx.events, "forwarded change", |e| e.fwd.get(&dist).and_then(|v| v.get(n - 1).copied())).await {
                    Ok(s) => s,
                    Err(e) => {
                        // the store's watcher read nothing although the model says a change is readable
                        out.violation = Some(json!({"property": "C16", "step": i + 1, "history": h["hist"], "mode": if mode_b { "B" } else { "A" },
                            "why": [format!("the store's membership watcher handed nothing to its services ({e})")]}));
                        break;
                    },
                };
                last_fwd = fwd;
                let known = step["late"].as_bool().unwrap() || step["skipped"].as_bool().unwrap();
                if known {
                    out.skipped_known = true;
                }
                last_read = Some(step.clone());
                if !mode_b {
                    let mut w = vec![];
                    if let Err(e) = tick_and_judge(&ctx, c, &clock, fwd, &step["expect"], !known, &mut w).await {
                        out.tool_error = Some(e);
                        break;
                    }
                    if !known {
                        out.judged += 1;
                    }
                    if !w.is_empty() && why.is_empty() {
                        why = w;
                        out.violation = Some(json!({"property": "C16", "step": i + 1, "history": h["hist"], "mode": "A", "why": why.clone()}));
                    }
                }
            },
            other => panic!("unknown op {other}"),
        }
    }
    if mode_b && out.tool_error.is_none() && out.violation.is_none() {
        if let (Some(c), Some(step)) = (consumers.as_ref(), last_read.as_ref()) {
            let known = step["late"].as_bool().unwrap() || step["skipped"].as_bool().unwrap();
            let dist = c.service_ids().0 as u64;
            pump(&ctx.events);
            // did the distributor find several changes in its channel at one tick?
            {
                let ev = ctx.events.lock();
                let fwds = ev.fwd.get(&dist).cloned().unwrap_or_default();
                let ticks: Vec<u64> = ev.dist.get(&dist).map(|v| v.iter().map(|e| e.seq).collect()).unwrap_or_default();
                out.multi_drain = fwds.windows(2).any(|w| !ticks.iter().any(|t| *t > w[0] && *t < w[1]));
            }
            let mut w = vec![];
            match tick_and_judge(&ctx, c, &clock, last_fwd, &step["expect"], !known, &mut w).await {
                Err(e) => out.tool_error = Some(e),
                Ok(()) => {
                    if !known {
                        out.judged += 1;
                    }
                    if !w.is_empty() {
                        out.violation = Some(json!({"property": "C16", "step": hist.len(), "history": h["hist"], "mode": "B", "why": w}));
                    }
                },
            }
        }
    }
    if let Some(c) = consumers.as_ref() {
        c.kill();
    }
    out.sample = json!({"history": h["hist"], "mode": if mode_b { "B" } else { "A" }, "reads": reads, "judged_points": out.judged});
    out
}

pub fn replay() {
    let input = arg_or("--input", "-");
    let out_path = arg_or("--out", "-");
    let conc: usize = arg_or("--concurrency", "200").parse().unwrap();
    let limit: usize = arg_or("--limit", "0").parse().unwrap();
    let slice: Vec<usize> = arg_or("--slice", "0/1").split('/').map(|x| x.parse().unwrap()).collect();
    let max_id: u64 = arg_or("--max-id", "3").parse().unwrap();
    let mut hists = vec![];
    let mut total = 0u64;
    for_each_payload(open_input(&input), None, |tag, v| {
        if tag == "HIST" {
            total += 1;
            if qualifies(v["hist"].as_array().unwrap()) {
                hists.push(v);
            }
        }
    });
    let qualifying = hists.len();
    if limit > 0 && hists.len() > limit {
        let stride = hists.len() as f64 / limit as f64;
        hists = (0..limit).map(|i| hists[(i as f64 * stride) as usize].clone()).collect();
    }
    let hists: Vec<Value> = hists.into_iter().enumerate().filter(|(i, _)| i % slice[1] == slice[0]).map(|(_, h)| h).collect();
    let rt = tokio::runtime::Builder::new_current_thread().enable_all().build().unwrap();
    let mut summary = Summary::default();
    rt.block_on(async {
        verif::start_recording();
        let mut peers = BTreeMap::new();
        for id in 1..=max_id {
            for a in 1..=2u64 {
                peers.insert((id, a), start_peer(id as u8).await);
            }
        }
        let ctx = Arc::new(Ctx { peers, events: Mutex::new(Events::default()), next_doc: std::sync::atomic::AtomicU64::new(1), tracker_drift: std::sync::atomic::AtomicU64::new(0) });
        let mut jobs: Vec<(Value, bool)> = vec![];
        for h in hists.iter() {
            jobs.push((h.clone(), false));
            let reads = h["hist"].as_array().unwrap().iter().filter(|s| s["op"] == "read").count();
            if reads >= 2 {
                jobs.push((h.clone(), true));
            }
        }
        let (mut judged, mut known, mut multi, mut tool_errors) = (0u64, 0u64, 0u64, vec![]);
        for chunk in jobs.chunks(conc) {
            let tasks: Vec<_> = chunk.iter().map(|(h, b)| tokio::spawn(run_history(ctx.clone(), h.clone(), *b))).collect();
            for t in tasks {
                match t.await {
                    Ok(o) => {
                        summary.evaluations += 1;
                        judged += o.judged;
                        known += o.skipped_known as u64;
                        multi += o.multi_drain as u64;
                        if let Some(v) = o.violation {
                            summary.violation(v);
                        }
                        if let Some(e) = o.tool_error {
                            tool_errors.push(e);
                        }
                        summary.sample(o.sample);
                    },
                    Err(e) => {
                        // a panic of the code under test inside the behaviour's task
                        summary.violation(json!({"property": "C16", "why": [format!("the replay task died: {e}")]}));
                    },
                }
            }
            // events of finished behaviours are no longer needed
            pump(&ctx.events);
            *ctx.events.lock() = Events::default();
        }
        summary.set("behaviours_total", total);
        summary.set("behaviours_qualifying", qualifying as u64);
        summary.set("judged_points", judged);
        summary.set("behaviours_with_known_finding", known);
        summary.set("behaviours_with_several_changes_in_one_drain", multi);
        summary.drift = ctx.tracker_drift.load(std::sync::atomic::Ordering::SeqCst);
        summary.set("tool_errors", tool_errors.len() as u64);
        summary.set("tool_error_samples", tool_errors.into_iter().take(3).collect::<Vec<_>>());
    });
    summary.write(&out_path);
}
