//! A `Storage` wrapper around MemStore whose next mutating call can be made to fail (with
//! nothing written, or part-way with exactly the reported ids written) or to park forever
//! right after the inner write (a crash inside a request).

use std::sync::atomic::{AtomicBool, AtomicU64, Ordering};
use std::sync::Arc;

use datacake_crdt::{HLCTimestamp, Key};
use datacake_eventual_consistency::test_utils::{MemStore, MemStoreError};
use datacake_eventual_consistency::{BulkMutationError, Document, DocumentMetadata, Storage};
use parking_lot::Mutex;
use tokio::sync::Notify;

#[derive(Clone, Debug, Default)]
pub enum Plan {
    #[default]
    Ok,
    /// fail; exactly these ids are written (and reported as successful)
    Fail(Vec<Key>),
    /// perform the write, signal `parked`, never return
    ParkAfterWrite,
}

#[derive(Default)]
pub struct FaultyStore {
    pub inner: Arc<MemStore>,
    pub plan: Mutex<Plan>,
    pub parked: Notify,
    pub calls: Mutex<Vec<String>>,
    /// while set, every mutating call fails with nothing written
    pub fail_all: Arc<AtomicBool>,
    /// the next call of this read ("list" = get_keyspace_list, "meta" = iter_metadata, "fetch" = get / multi_get) fails once
    pub fail_read: Mutex<Option<&'static str>>,
    /// while non-zero, every mutating call first waits this many milliseconds (a replica that answers late)
    pub delay_ms: Arc<AtomicU64>,
    /// one-shot: the next put / multi_put first waits this many milliseconds and is then refused (true) or carried out
    pub slow_put: Mutex<Option<(u64, bool)>>,
    /// when that wait was over
    pub slow_released: Mutex<Option<std::time::Instant>>,
}

impl FaultyStore {
    pub fn on(inner: Arc<MemStore>) -> Self {
        Self { inner, plan: Mutex::new(Plan::Ok), parked: Notify::new(), calls: Mutex::new(vec![]), fail_read: Mutex::new(None), fail_all: Arc::new(AtomicBool::new(false)), delay_ms: Arc::new(AtomicU64::new(0)), slow_put: Mutex::new(None), slow_released: Mutex::new(None) }
    }

    pub fn set_plan(&self, p: Plan) {
        *self.plan.lock() = p;
    }

    async fn maybe_delay(&self) {
        let ms = self.delay_ms.load(Ordering::SeqCst);
        if ms > 0 {
            tokio::time::sleep(std::time::Duration::from_millis(ms)).await;
        }
    }

    /// Err(()) = the slow write is refused after its wait
    async fn maybe_slow_put(&self) -> Result<(), ()> {
        let slow = self.slow_put.lock().take();
        if let Some((ms, refuse)) = slow {
            tokio::time::sleep(std::time::Duration::from_millis(ms)).await;
            *self.slow_released.lock() = Some(std::time::Instant::now());
            if refuse {
                return Err(());
            }
        }
        Ok(())
    }

    fn take_plan(&self) -> Plan {
        if self.fail_all.load(Ordering::SeqCst) {
            return Plan::Fail(vec![]);
        }
        std::mem::take(&mut *self.plan.lock())
    }
}

/// The ids a failed bulk call reports as done. The Storage contract gives them no order, so they are deliberately
/// not reported in request order: descending when their sum is even, rotated by one otherwise (a function of the
/// ids only, so a replay of the same call reports the same list).
fn reported(mut ids: Vec<Key>) -> Vec<Key> {
    if ids.len() > 1 {
        let sum: u64 = ids.iter().fold(0u64, |a, b| a.wrapping_add(*b));
        if sum % 2 == 0 {
            ids.sort_unstable_by(|a, b| b.cmp(a));
        } else {
            ids.rotate_left(1);
        }
    }
    ids
}

fn injected() -> MemStoreError {
    MemStoreError(anyhow::anyhow!("injected storage failure"))
}

#[async_trait::async_trait]
impl Storage for FaultyStore {
    type Error = MemStoreError;
    type DocsIter = <MemStore as Storage>::DocsIter;
    type MetadataIter = <MemStore as Storage>::MetadataIter;

    async fn get_keyspace_list(&self) -> Result<Vec<String>, Self::Error> {
        if *self.fail_read.lock() == Some("list") {
            *self.fail_read.lock() = None;
            return Err(injected());
        }
        self.inner.get_keyspace_list().await
    }

    async fn iter_metadata(&self, keyspace: &str) -> Result<Self::MetadataIter, Self::Error> {
        if *self.fail_read.lock() == Some("meta") {
            *self.fail_read.lock() = None;
            return Err(injected());
        }
        self.inner.iter_metadata(keyspace).await
    }

    async fn remove_tombstones(
        &self,
        keyspace: &str,
        keys: impl Iterator<Item = Key> + Send,
    ) -> Result<(), BulkMutationError<Self::Error>> {
        let keys: Vec<Key> = keys.collect();
        self.calls.lock().push(format!("remove_tombstones {keys:?}"));
        self.maybe_delay().await;
        match self.take_plan() {
            Plan::Ok => self.inner.remove_tombstones(keyspace, keys.into_iter()).await,
            Plan::Fail(ok) => {
                let sel: Vec<Key> = keys.into_iter().filter(|k| ok.contains(k)).collect();
                self.inner.remove_tombstones(keyspace, sel.clone().into_iter()).await?;
                Err(BulkMutationError::new(injected(), reported(sel)))
            },
            Plan::ParkAfterWrite => {
                self.inner.remove_tombstones(keyspace, keys.into_iter()).await?;
                self.parked.notify_one();
                std::future::pending().await
            },
        }
    }

    async fn put(&self, keyspace: &str, document: Document) -> Result<(), Self::Error> {
        self.calls.lock().push(format!("put {}", document.id()));
        self.maybe_delay().await;
        if self.maybe_slow_put().await.is_err() {
            return Err(injected());
        }
        match self.take_plan() {
            Plan::Ok => self.inner.put(keyspace, document).await,
            Plan::Fail(_) => Err(injected()),
            Plan::ParkAfterWrite => {
                self.inner.put(keyspace, document).await?;
                self.parked.notify_one();
                std::future::pending().await
            },
        }
    }

    async fn multi_put(
        &self,
        keyspace: &str,
        documents: impl Iterator<Item = Document> + Send,
    ) -> Result<(), BulkMutationError<Self::Error>> {
        let docs: Vec<Document> = documents.collect();
        self.calls.lock().push(format!("multi_put {:?}", docs.iter().map(|d| d.id()).collect::<Vec<_>>()));
        self.maybe_delay().await;
        if self.maybe_slow_put().await.is_err() {
            return Err(BulkMutationError::new(injected(), vec![]));
        }
        match self.take_plan() {
            Plan::Ok => self.inner.multi_put(keyspace, docs.into_iter()).await,
            Plan::Fail(ok) => {
                let sel: Vec<Document> = docs.into_iter().filter(|d| ok.contains(&d.id())).collect();
                let mut ids: Vec<Key> = sel.iter().map(|d| d.id()).collect();
                ids.dedup();
                self.inner.multi_put(keyspace, sel.into_iter()).await?;
                Err(BulkMutationError::new(injected(), reported(ids)))
            },
            Plan::ParkAfterWrite => {
                self.inner.multi_put(keyspace, docs.into_iter()).await?;
                self.parked.notify_one();
                std::future::pending().await
            },
        }
    }

    async fn mark_as_tombstone(&self, keyspace: &str, doc_id: Key, timestamp: HLCTimestamp) -> Result<(), Self::Error> {
        self.calls.lock().push(format!("mark_as_tombstone {doc_id}"));
        self.maybe_delay().await;
        match self.take_plan() {
            Plan::Ok => self.inner.mark_as_tombstone(keyspace, doc_id, timestamp).await,
            Plan::Fail(_) => Err(injected()),
            Plan::ParkAfterWrite => {
                self.inner.mark_as_tombstone(keyspace, doc_id, timestamp).await?;
                self.parked.notify_one();
                std::future::pending().await
            },
        }
    }

    async fn mark_many_as_tombstone(
        &self,
        keyspace: &str,
        documents: impl Iterator<Item = DocumentMetadata> + Send,
    ) -> Result<(), BulkMutationError<Self::Error>> {
        let docs: Vec<DocumentMetadata> = documents.collect();
        self.calls.lock().push(format!("mark_many_as_tombstone {:?}", docs.iter().map(|d| d.id).collect::<Vec<_>>()));
        self.maybe_delay().await;
        match self.take_plan() {
            Plan::Ok => self.inner.mark_many_as_tombstone(keyspace, docs.into_iter()).await,
            Plan::Fail(ok) => {
                let sel: Vec<DocumentMetadata> = docs.into_iter().filter(|d| ok.contains(&d.id)).collect();
                let mut ids: Vec<Key> = sel.iter().map(|d| d.id).collect();
                ids.dedup();
                self.inner.mark_many_as_tombstone(keyspace, sel.into_iter()).await?;
                Err(BulkMutationError::new(injected(), reported(ids)))
            },
            Plan::ParkAfterWrite => {
                self.inner.mark_many_as_tombstone(keyspace, docs.into_iter()).await?;
                self.parked.notify_one();
                std::future::pending().await
            },
        }
    }

    async fn get(&self, keyspace: &str, doc_id: Key) -> Result<Option<Document>, Self::Error> {
        if *self.fail_read.lock() == Some("fetch") {
            *self.fail_read.lock() = None;
            return Err(injected());
        }
        self.inner.get(keyspace, doc_id).await
    }

    async fn multi_get(&self, keyspace: &str, doc_ids: impl Iterator<Item = Key> + Send) -> Result<Self::DocsIter, Self::Error> {
        if *self.fail_read.lock() == Some("fetch") {
            *self.fail_read.lock() = None;
            return Err(injected());
        }
        self.inner.multi_get(keyspace, doc_ids).await
    }
}
