//! C18 (V): rounds of concurrent first use of a fresh keyspace on the real KeyspaceGroup, on a
//! current-thread runtime (every await is a deterministic interleaving point) and on a
//! multi-thread runtime. One NDJSON event per round for Trace_KeyspaceGroup.tla.

use std::io::Write;
use std::marker::PhantomData;
use std::sync::Arc;
use std::time::Duration;

use datacake_crdt::HLCTimestamp;
use datacake_eventual_consistency::test_utils::MemStore;
use datacake_eventual_consistency::verif::{KeyspaceGroup, Serialize, Set};
use datacake_eventual_consistency::Document;
use datacake_node::Clock;
use serde_json::json;
use vcommon::arg_or;

use crate::keyspace::decode_set;

async fn round(group: &KeyspaceGroup<MemStore>, name: String, k: u64, yields: u64, base: u64) -> (Vec<u64>, Vec<u64>, u64) {
    let mut tasks = vec![];
    for t in 0..k {
        let group = group.clone();
        let name = name.clone();
        tasks.push(tokio::spawn(async move {
            for _ in 0..(t * yields) {
                tokio::task::yield_now().await;
            }
            let ks = group.get_or_create_keyspace(&name).await;
            let ts = HLCTimestamp::new(Duration::from_secs(100 + t), 0, (t % 200) as u8 + 1);
            let doc = Document::new(base + t, ts, format!("task-{t}").into_bytes());
            let ok = ks.send(Set { source: 0, doc, ctx: None, _marker: PhantomData::<MemStore> }).await.is_ok();
            (t, ok)
        }));
    }
    let mut acked = vec![];
    for t in tasks {
        let (id, ok) = t.await.expect("task");
        if ok {
            acked.push(base + id);
        }
    }
    // a later lookup: the state peers would synchronise against
    let ks = group.get_or_create_keyspace(&name).await;
    let set = decode_set(&ks.send(Serialize).await.expect("serialize"));
    let mut fin: Vec<u64> = (0..k).map(|t| base + t).filter(|id| set.get(id).is_some()).collect();
    fin.sort();
    acked.sort();
    // documents of another keyspace's tasks that ended up in this keyspace's set
    let foreign = set.verif_project().entries.iter().filter(|e| e.0 < base || e.0 >= base + k).count() as u64;
    (acked, fin, foreign)
}

async fn rounds(rt_name: &str, n: u64, out: &mut impl Write) -> u64 {
    let group = KeyspaceGroup::new(Arc::new(MemStore::default()), Clock::new(1)).await;
    let mut events = 0;
    for r in 0..n {
        let k = 2 + r % 7;
        let yields = r % 4;
        let name = format!("{rt_name}-fresh-{r}");
        // a sibling keyspace whose name is related to the first one's as a string (names are all the group can tell keyspaces
        // by) is used for the first time by other tasks in the same round
        let sibling = match r % 5 {
            0 => format!("{name} "),
            1 => name.to_uppercase(),
            2 => format!("{name}-"),
            3 => format!("{name}-kv"),
            _ => format!(" {name}"),
        };
        datacake_crdt::verif::start_recording();
        let ((acked, fin, foreign), (acked2, fin2, foreign2)) =
            tokio::join!(round(&group, name.clone(), k, yields, 1000), round(&group, sibling.clone(), k, (yields + 1) % 4, 2000));
        let evs = datacake_crdt::verif::take_events();
        let installs_of = |n: &str| evs.iter().filter(|e| e.contains("\"ks_install\"") && e.contains(&format!("{:?}", n))).count();
        writeln!(out, "{}", json!({"round": r, "runtime": rt_name, "tasks": k, "stagger": yields, "acked": acked, "final": fin, "foreign": foreign, "installs": installs_of(&name)})).unwrap();
        writeln!(out, "{}", json!({"round": r, "runtime": rt_name, "tasks": k, "stagger": yields, "acked": acked2, "final": fin2, "foreign": foreign2, "installs": installs_of(&sibling), "sibling": true})).unwrap();
        events += 2;
    }
    events
}

pub fn record() {
    let n: u64 = arg_or("--rounds", "300").parse().unwrap();
    let out = arg_or("--out", "trace.ndjson");
    let mut f = std::io::BufWriter::new(std::fs::File::create(&out).expect("create trace"));
    let ct = tokio::runtime::Builder::new_current_thread().enable_all().build().unwrap();
    let a = ct.block_on(rounds("current-thread", n, &mut f));
    ct.shutdown_background();
    let mt = tokio::runtime::Builder::new_multi_thread().worker_threads(8).enable_all().build().unwrap();
    let b = mt.block_on(rounds("multi-thread", n, &mut f));
    mt.shutdown_background();
    f.flush().unwrap();
    println!("{}", json!({"rounds": a + b}));
}
