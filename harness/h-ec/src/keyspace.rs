//! C02 / C07 (G): every transition of Keyspace.tla is replayed on a real keyspace actor
//! (real `KeyspaceGroup` + `KeyspaceActor` over a `FaultyStore`-wrapped MemStore) that is put
//! into the transition's source state; after the request the real set (via the actor's
//! `Serialize` reply) and the real storage are read back and judged:
//!   C02  set and storage describe the same thing,
//!   C07  after a (mid-request) crash and `load_states_from_storage` the rebuilt set is exactly
//!        what storage holds and every acknowledged mutation is still visible.

use std::collections::{BTreeMap, HashMap};
use std::marker::PhantomData;
use std::sync::Arc;
use std::time::Duration;

use datacake_crdt::{HLCTimestamp, OrSWotSet};
use datacake_eventual_consistency::test_utils::MemStore;
use datacake_eventual_consistency::verif::{
    Del, DocVec, KeyspaceGroup, MultiDel, MultiSet, PurgeDeletes, Serialize, Set,
};
use datacake_eventual_consistency::{Document, DocumentMetadata, Storage};
use datacake_node::Clock;
use rkyv::AlignedVec;
use serde_json::{json, Value};
use vcommon::{arg_list_u64, arg_or, for_each_payload, open_input, Summary};

use crate::faulty::{FaultyStore, Plan};
use crate::model::*;

pub type Set2 = OrSWotSet<2>;
type Snapshot = Vec<(u64, HLCTimestamp, bool)>;

pub fn doc_bytes(k: u64, ts: HLCTimestamp) -> Vec<u8> {
    format!("doc-{}-{}", k, ts).into_bytes()
}

pub fn decode_set(bytes: &[u8]) -> Set2 {
    let mut v = AlignedVec::with_capacity(bytes.len());
    v.extend_from_slice(bytes);
    unsafe { rkyv::from_bytes_unchecked::<Set2>(&v) }.expect("decode set")
}

async fn populate(store: &MemStore, ks: &str, snap: &Snapshot) {
    for (k, ts, tomb) in snap {
        if *tomb {
            store.mark_as_tombstone(ks, *k, *ts).await.unwrap();
        } else {
            store.put(ks, Document::new(*k, *ts, doc_bytes(*k, *ts))).await.unwrap();
        }
    }
}

async fn read_storage(store: &MemStore, ks: &str, keys: &[u64]) -> (Snapshot, Vec<String>) {
    let mut problems = vec![];
    let mut snap: Snapshot = store.iter_metadata(ks).await.unwrap().collect();
    snap.sort();
    for (k, ts, tomb) in &snap {
        let doc = store.get(ks, *k).await.unwrap();
        match (tomb, doc) {
            (true, None) => {},
            (false, Some(d)) => {
                if d.last_updated() != *ts || d.data() != doc_bytes(*k, *ts).as_slice() {
                    problems.push(format!("storage metadata says {k}@{ts} but get() returns {}@{} with {} bytes", d.id(), d.last_updated(), d.data().len()));
                }
            },
            (true, Some(_)) => problems.push(format!("key {k} is a tombstone in metadata but get() returns a document")),
            (false, None) => problems.push(format!("key {k} is live in metadata but get() returns nothing")),
        }
    }
    let _ = keys;
    (snap, problems)
}

/// C02: the set and the storage describe the same thing
fn agree(set: &Set2, snap: &Snapshot, keys: &[u64]) -> Vec<String> {
    let mut why = vec![];
    let tombs = tombstones(set);
    let meta: BTreeMap<u64, (HLCTimestamp, bool)> = snap.iter().map(|(k, ts, t)| (*k, (*ts, *t))).collect();
    for k in keys {
        let live = set.get(k).copied();
        let dead = tombs.get(k).copied();
        match meta.get(k) {
            None => {
                if live.is_some() || dead.is_some() {
                    why.push(format!("key {k}: set holds live={live:?} tombstone={dead:?}, storage holds nothing"));
                }
            },
            Some((ts, false)) => {
                if live != Some(*ts) {
                    why.push(format!("key {k}: storage holds the document at {ts}, the set says live={live:?} tombstone={dead:?}"));
                }
            },
            Some((ts, true)) => {
                if dead != Some(*ts) || live.is_some() {
                    why.push(format!("key {k}: storage records a tombstone at {ts}, the set says live={live:?} tombstone={dead:?}"));
                }
            },
        }
    }
    for k in meta.keys() {
        if !keys.contains(k) {
            why.push(format!("storage holds an unexpected key {k}"));
        }
    }
    why
}

fn snapshot_json(scale: Scale, snap: &Snapshot) -> Value {
    Value::Array(snap.iter().map(|(k, ts, t)| json!([k, scale.ts_json(ts), t])).collect())
}

fn model_store(scale: Scale, store: &Value) -> Snapshot {
    let mut out = vec![];
    for (k, e) in crate::fn_items(store) {
        if e.get("absent").is_some() {
            continue;
        }
        out.push((k, scale.ts(&e["ts"]).unwrap(), e["tomb"].as_bool().unwrap()));
    }
    out.sort();
    out
}

struct EdgeResult {
    set: Set2,
    snap: Snapshot,
    why_c02: Vec<String>,
    why_c07: Vec<String>,
    reply_ok: Option<bool>,
    tool_error: Option<String>,
    failed_start: Option<bool>,
}

async fn run_edge(clock: &Clock, scale: Scale, keys: &[u64], pre: &(Set2, Snapshot), e: &Value, n: u64) -> EdgeResult {
    let ks = format!("ks{}", n);
    let inner = Arc::new(MemStore::default());
    populate(&inner, &ks, &pre.1).await;
    let store = Arc::new(FaultyStore::on(inner.clone()));
    let group = KeyspaceGroup::new(store.clone(), clock.clone()).await;
    // The group's purge task ticks once right after start-up. The runtime's clock is paused
    // (auto-advancing), so this 1 ms sleep returns only after that first tick has run, while the
    // group is still empty: it cannot interleave with the request under test.
    tokio::time::sleep(Duration::from_millis(1)).await;
    let actor = group.add_state(ks.clone(), pre.0.clone()).await;
    let op = &e["op"];
    let kind = op["kind"].as_str().unwrap();
    let outcome = op["outcome"].as_str().unwrap_or("ok");
    let written: Vec<u64> = op["written"].as_array().map(|a| a.iter().map(|x| x.as_u64().unwrap()).collect()).unwrap_or_default();
    let src = op["src"].as_u64().unwrap_or(0) as usize;
    let items: Vec<(u64, HLCTimestamp)> = op["items"]
        .as_array()
        .map(|a| a.iter().map(|p| (p[0].as_u64().unwrap(), scale.ts(&p[1]).unwrap())).collect())
        .unwrap_or_default();
    let mut res = EdgeResult { set: Set2::default(), snap: vec![], why_c02: vec![], why_c07: vec![], reply_ok: None, tool_error: None, failed_start: None };
    let crash = outcome == "crash-mid" || kind == "restart";

    match outcome {
        "ok" | "after-request" => store.set_plan(Plan::Ok),
        "fail" => store.set_plan(Plan::Fail(written.clone())),
        "crash-mid" => store.set_plan(Plan::ParkAfterWrite),
        other => panic!("outcome {other}"),
    }
    if kind != "restart" {
        let send = {
            let actor = actor.clone();
            let items = items.clone();
            let kind = kind.to_string();
            async move {
                match kind.as_str() {
                    "set" => actor.send(Set { source: src, doc: Document::new(items[0].0, items[0].1, doc_bytes(items[0].0, items[0].1)), ctx: None, _marker: PhantomData::<FaultyStore> }).await.is_ok(),
                    "del" => actor.send(Del { source: src, doc: DocumentMetadata::new(items[0].0, items[0].1), _marker: PhantomData::<FaultyStore> }).await.is_ok(),
                    "mset" => {
                        let docs: DocVec<Document> = items.iter().map(|(k, ts)| Document::new(*k, *ts, doc_bytes(*k, *ts))).collect();
                        actor.send(MultiSet { source: src, docs, ctx: None, _marker: PhantomData::<FaultyStore> }).await.is_ok()
                    },
                    "mdel" => {
                        let docs: DocVec<DocumentMetadata> = items.iter().map(|(k, ts)| DocumentMetadata::new(*k, *ts)).collect();
                        actor.send(MultiDel { source: src, docs, _marker: PhantomData::<FaultyStore> }).await.is_ok()
                    },
                    "purge" => actor.send(PurgeDeletes(PhantomData::<FaultyStore>)).await.is_ok(),
                    other => panic!("kind {other}"),
                }
            }
        };
        if outcome == "crash-mid" {
            let task = tokio::spawn(send);
            if tokio::time::timeout(Duration::from_secs(5), store.parked.notified()).await.is_err() {
                res.tool_error = Some("the request never reached the storage write the model predicts".into());
                return res;
            }
            task.abort();
        } else {
            res.reply_ok = Some(send.await);
        }
    }
    // the plan must have been consumed exactly when the model says storage was called
    store.set_plan(Plan::Ok);

    if crash {
        // the node is gone: a new group is started on the same storage
        drop(actor);
        drop(group);
        if let Some(which) = op["fail"].as_str() {
            // first a start that meets a storage read error: it is refused, or what it built is what storage holds
            let store1 = Arc::new(FaultyStore::on(inner.clone()));
            *store1.fail_read.lock() = Some(if which == "list" { "list" } else { "meta" });
            let group1 = KeyspaceGroup::new(store1.clone(), clock.clone()).await;
            tokio::time::sleep(Duration::from_millis(1)).await;
            let started = group1.load_states_from_storage().await.is_ok();
            // (on a storage without keyspaces there is no metadata scan that could fail)
            res.failed_start = Some(store1.fail_read.lock().is_none());
            if started && res.failed_start == Some(true) {
                let a1 = group1.get_or_create_keyspace(&ks).await;
                let set1 = decode_set(&a1.send(Serialize).await.expect("serialize"));
                let (snap1, _) = read_storage(&inner, &ks, keys).await;
                for w in agree(&set1, &snap1, keys) {
                    res.why_c07.push(format!("a start whose storage read ({which}) failed reported success, and then: {w}"));
                }
            }
        }
        let store2 = Arc::new(FaultyStore::on(inner.clone()));
        let group2 = KeyspaceGroup::new(store2, clock.clone()).await;
        tokio::time::sleep(Duration::from_millis(1)).await;
        if let Err(err) = group2.load_states_from_storage().await {
            res.why_c07.push(format!("load_states_from_storage failed: {err}"));
        }
        let actor2 = group2.get_or_create_keyspace(&ks).await;
        res.set = decode_set(&actor2.send(Serialize).await.expect("serialize"));
    } else {
        res.set = decode_set(&actor.send(Serialize).await.expect("serialize"));
    }
    let (snap, problems) = read_storage(&inner, &ks, keys).await;
    res.snap = snap;
    let mut why = agree(&res.set, &res.snap, keys);
    why.extend(problems);
    if crash {
        res.why_c07.extend(why.into_iter().map(|w| format!("after restart: {w}")));
        // acknowledged mutations are still visible
        let tombs = tombstones(&res.set);
        let acked: Vec<(u64, HLCTimestamp, bool)> = e["to"]["acked"].as_array().unwrap().iter()
            .map(|a| (a[0].as_u64().unwrap(), scale.ts(&a[1]).unwrap(), a[2].as_bool().unwrap())).collect();
        for (k, ts, is_del) in &acked {
            let live = res.set.get(k).copied();
            let dead = tombs.get(k).copied();
            let absent = live.is_none() && dead.is_none();
            let visible = live.map(|t| *ts <= t).unwrap_or(false)
                || dead.map(|t| *ts <= t).unwrap_or(false)
                || (absent && *is_del)
                || (absent && !*is_del && acked.iter().any(|(k2, t2, d2)| k2 == k && *d2 && ts < t2));
            if !visible {
                res.why_c07.push(format!("acknowledged {} of key {k} at {ts} is no longer visible after the restart (live={live:?}, tombstone={dead:?})",
                                         if *is_del { "delete" } else { "put" }));
            }
        }
    } else {
        res.why_c02 = why;
    }
    res
}

pub fn main() {
    let f: u64 = arg_or("--f", "2").parse().unwrap();
    let scale = Scale::from_f(f);
    let keys = arg_list_u64("--keys", "1,2");
    let out = arg_or("--out", "-");
    let batch: u64 = arg_or("--batch", "4000").parse().unwrap();
    let reader = open_input(&arg_or("--input", "-"));
    let passthrough = vcommon::arg("--passthrough");

    // a non-empty initial state: the node starts on a storage that already holds tombstones (stamp <<0, 0, first node>>)
    // and builds its set from it, exactly as a restarted node does
    let init_tombs = arg_list_u64("--init-tombs", "");
    let init_node = arg_or("--init-node", "1").parse::<u64>().unwrap();
    let init_state: (Set2, Snapshot) = if init_tombs.is_empty() {
        (Set2::default(), vec![])
    } else {
        let r = tokio::runtime::Builder::new_current_thread().enable_all().start_paused(true).build().unwrap();
        r.block_on(async {
            let clock = Clock::new(9);
            let ts = scale.ts(&json!([0, 0, init_node])).unwrap();
            let snap: Snapshot = init_tombs.iter().map(|k| (*k, ts, true)).collect();
            let inner = Arc::new(MemStore::default());
            populate(&inner, "init", &snap).await;
            let group = KeyspaceGroup::new(inner.clone(), clock).await;
            tokio::time::sleep(Duration::from_millis(1)).await;
            group.load_states_from_storage().await.expect("load initial state");
            let actor = group.get_or_create_keyspace("init").await;
            (decode_set(&actor.send(Serialize).await.expect("serialize")), snap)
        })
    };

    let mut sum = Summary::default();
    let mut states: HashMap<String, (Set2, Snapshot)> = HashMap::new();
    let mut parents: HashMap<String, (String, Value)> = HashMap::new();
    let mut cur: Option<(Set2, Snapshot)> = None;
    let mut cur_key = String::new();
    let mut missing_from = 0u64;
    let mut by_kind: BTreeMap<String, u64> = BTreeMap::new();
    let (mut crash_edges, mut failed_storage_edges) = (0u64, 0u64);
    let mut failed_starts = 0u64;
    let (mut effective_purges, mut effective_purge_failures) = (0u64, 0u64);
    let mut rt: Option<(tokio::runtime::Runtime, Clock)> = None;
    let mut in_rt = 0u64;
    let mut tool_errors: Vec<String> = vec![];
    let mut unreplayable = 0u64;

    for_each_payload(reader, passthrough.as_deref(), |tag, e| {
        if tag == "FROM" {
            let key = e["from"].to_string();
            if states.is_empty() {
                states.insert(key.clone(), init_state.clone());
            }
            cur = states.get(&key).cloned();
            if cur.is_none() {
                missing_from += 1;
            }
            cur_key = key;
            return;
        }
        if tag != "EDGE" {
            return;
        }
        sum.evaluations += 1;
        let pre = match cur.as_ref() {
            Some(p) => p,
            None => return,
        };
        if rt.is_none() || in_rt >= batch {
            if let Some((old, _)) = rt.take() {
                old.shutdown_background();
            }
            let r = tokio::runtime::Builder::new_current_thread().enable_all().start_paused(true).build().unwrap();
            let clock = r.block_on(async { Clock::new(9) });
            rt = Some((r, clock));
            in_rt = 0;
        }
        in_rt += 1;
        let (runtime, clock) = rt.as_ref().unwrap();
        let kind = e["op"]["kind"].as_str().unwrap().to_string();
        *by_kind.entry(kind.clone()).or_default() += 1;
        let n = sum.evaluations;
        let r = runtime.block_on(run_edge(clock, scale, &keys, pre, &e, n));
        if let Some(err) = r.tool_error {
            // the real pre-state may already differ from the model's (an earlier edge drifted, and was judged by the
            // oracle there); the prediction of this edge then does not apply.  Decided at the end: with no violation
            // anywhere this is a tool error.
            if tool_errors.len() < 5 {
                tool_errors.push(format!("edge {n}: {err}: {}", e["op"]));
            }
            unreplayable += 1;
            return;
        }
        let outcome = e["op"]["outcome"].as_str().unwrap_or("");
        if outcome == "crash-mid" || kind == "restart" {
            crash_edges += 1;
        }
        if r.failed_start == Some(true) {
            failed_starts += 1;
        }
        if outcome == "fail" {
            failed_storage_edges += 1;
        }
        if kind == "purge" && e["op"]["purged"].as_array().map(|a| !a.is_empty()).unwrap_or(false) {
            effective_purges += 1;
            if outcome == "fail" {
                effective_purge_failures += 1;
            }
        }
        let observed = json!({"set": project(scale, &r.set), "storage": snapshot_json(scale, &r.snap), "reply_ok": r.reply_ok});
        if !r.why_c02.is_empty() {
            sum.violation(json!({"property": "C02", "why": r.why_c02, "edge": e, "observed": observed, "from_key": cur_key}));
        }
        if !r.why_c07.is_empty() {
            sum.violation(json!({"property": "C07", "why": r.why_c07, "edge": e, "observed": observed, "from_key": cur_key}));
        }
        // drift against the faithful layer
        let model_snap = model_store(scale, &e["to"]["store"]);
        if project(scale, &r.set) != canon_model_state(&e["to"]["st"]) || r.snap != model_snap
            || (r.reply_ok.is_some() && r.reply_ok != e["op"]["ok"].as_bool()) {
            sum.drift(json!({"what": "set / storage / reply differ from the faithful layer", "edge": e, "observed": observed}));
        }
        if sum.evaluations % 20_000 == 1 {
            sum.sample(json!({"op": e["op"], "observed": observed}));
        }
        let to_key = e["to"].to_string();
        if !states.contains_key(&to_key) {
            parents.insert(to_key.clone(), (cur_key.clone(), e["op"].clone()));
            states.insert(to_key, (r.set, r.snap));
        }
    });
    if let Some((old, _)) = rt.take() {
        old.shutdown_background();
    }
    for v in sum.violations.iter_mut() {
        let mut path = vec![];
        let mut k = v["from_key"].as_str().unwrap_or_default().to_string();
        while let Some((pk, op)) = parents.get(&k) {
            path.push(op.clone());
            k = pk.clone();
        }
        path.reverse();
        v["path"] = Value::Array(path);
        v.as_object_mut().unwrap().remove("from_key");
    }
    sum.set("distinct_states", states.len() as u64);
    sum.set("missing_from", missing_from);
    sum.set("by_kind", json!(by_kind));
    sum.set("crash_edges", crash_edges);
    sum.set("failed_start_edges", failed_starts);
    sum.set("failed_storage_edges", failed_storage_edges);
    sum.set("effective_purges", effective_purges);
    sum.set("effective_purge_failures", effective_purge_failures);
    sum.set("unreplayable_edges", unreplayable);
    sum.set("unreplayable_samples", json!(tool_errors));
    sum.write(&out);
    if (unreplayable > 0 || missing_from > 0) && sum.violations.is_empty() {
        eprintln!("tool error: {missing_from} pre-states never reached, {unreplayable} edges could not be replayed");
        for t in &tool_errors {
            eprintln!("tool error: {t}");
        }
        std::process::exit(2);
    }
}
