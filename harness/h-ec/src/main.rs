mod actor_random;
mod cluster;
mod consistency;
mod consumers;
mod faulty;
mod group;
mod keyspace;
mod model;
mod restart;
mod storage;
mod storage_random;
mod transfer;

fn main() {
    let cmd = std::env::args().nth(1).unwrap_or_default();
    if cmd == "replay-keyspace" {
        return keyspace::main();
    }
    if cmd == "actor-random" {
        return actor_random::main();
    }
    if cmd == "replay-consumers" {
        return consumers::replay();
    }
    if cmd == "record-group" {
        return group::record();
    }
    let rt = tokio::runtime::Builder::new_multi_thread().worker_threads(8).enable_all().build().unwrap();
    match cmd.as_str() {
        "replay-storage" => rt.block_on(storage::replay()),
        "verify-lmdb" => rt.block_on(storage::verify_lmdb()),
        "record-storage" => rt.block_on(storage_random::record()),
        "replay-cluster" => rt.block_on(cluster::replay()),
        "large-exchange" => rt.block_on(cluster::large_exchange()),
        "record-consistency" => rt.block_on(consistency::record()),
        "record-converge" => rt.block_on(consistency::record_converge()),
        "replay-transfer" => rt.block_on(transfer::replay()),
        "restart-backends" => rt.block_on(restart::run()),
        "transfer-garbage" => rt.block_on(transfer::garbage()),
        other => {
            eprintln!("unknown command {other:?}");
            std::process::exit(2);
        },
    }
}

/// A TLA+ function as (domain element, value) pairs. Sequences are 1-based.
pub fn fn_items(v: &serde_json::Value) -> Vec<(u64, &serde_json::Value)> {
    match v {
        serde_json::Value::Array(a) => a.iter().enumerate().map(|(i, x)| (i as u64 + 1, x)).collect(),
        serde_json::Value::Object(m) => {
            let mut out: Vec<(u64, &serde_json::Value)> = m.iter().map(|(k, x)| (k.parse().expect("numeric domain"), x)).collect();
            out.sort_by_key(|p| p.0);
            out
        },
        _ => panic!("not a function: {v}"),
    }
}
