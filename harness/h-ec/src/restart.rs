//! C07 on the persistent backends: a real KeyspaceGroup over SQLite (file) / LMDB handles a stream of requests (single and
//! bulk puts and deletes, two keyspaces, document ids from 0 to 2^64-1 and a run of several thousand consecutive ones),
//! then the process ends.  A fresh process opens the same files, runs `load_states_from_storage` and reports the set it
//! rebuilt.  Both reports go to Trace_Restart.tla: what was acknowledged before the stop is what the restarted node holds.

use std::marker::PhantomData;
use std::path::PathBuf;
use std::sync::Arc;
use std::time::Duration;

use datacake_crdt::HLCTimestamp;
use datacake_eventual_consistency::verif::{DocVec, KeyspaceGroup, MultiDel, MultiSet, Serialize, Set};
use datacake_eventual_consistency::verif::Del;
use datacake_eventual_consistency::{Document, DocumentMetadata, Storage};
use datacake_lmdb::LmdbStorage;
use datacake_node::Clock;
use datacake_sqlite::SqliteStorage;
use rand::rngs::StdRng;
use rand::{Rng, SeedableRng};
use serde_json::{json, Value};
use vcommon::arg_or;

use crate::keyspace::decode_set;
use crate::model::tombstones;

// (related as strings: names are all a backend or a node can tell keyspaces by)
const KEYSPACES: [&str; 2] = ["first", "first-kv"];

fn report(set: &datacake_crdt::OrSWotSet<2>) -> (Value, Value) {
    let mut live: Vec<(u64, HLCTimestamp)> = set.verif_project().entries;
    live.sort();
    let dead: Vec<(u64, HLCTimestamp)> = tombstones(set).into_iter().collect();
    (json!(live.iter().map(|(k, t)| format!("{k}@{t}")).collect::<Vec<_>>()), json!(dead.iter().map(|(k, t)| format!("{k}@{t}")).collect::<Vec<_>>()))
}

async fn write_phase<S: Storage>(store: S, backend: &str, seed: u64, out: &mut Vec<Value>) {
    let mut rng = StdRng::seed_from_u64(seed);
    let clock = Clock::new(1);
    let group = KeyspaceGroup::new(Arc::new(store), clock).await;
    let pool: Vec<u64> = vec![0, 1, 2, 42, i64::MAX as u64 - 1, i64::MAX as u64, i64::MAX as u64 + 1, i64::MAX as u64 + 2, u64::MAX - 1, u64::MAX,
                              rng.gen(), rng.gen(), rng.gen::<u64>() | (1 << 63), 1 << 32];
    let mut t = 1_000u64;
    let mut stamp = || {
        t += 1;
        HLCTimestamp::new(Duration::from_millis(t * 4), 0, 1)
    };
    let doc = |id: u64, ts: HLCTimestamp| Document::new(id, ts, format!("{id}-{ts}").into_bytes());
    for (ki, ks) in KEYSPACES.iter().enumerate() {
        let actor = group.get_or_create_keyspace(ks).await;
        // several thousand consecutive ids in one call (more than any page a backend may read at a time), some deleted again
        if ki == 0 {
            let ts = stamp();
            let docs: DocVec<Document> = (10_000..15_000u64).map(|i| doc(i, ts)).collect();
            actor.send(MultiSet { source: 0, docs, ctx: None, _marker: PhantomData::<S> }).await.expect("bulk put");
            let ts = stamp();
            let gone: DocVec<DocumentMetadata> = (10_000..15_000u64).step_by(7).map(|i| DocumentMetadata::new(i, ts)).collect();
            actor.send(MultiDel { source: 0, docs: gone, _marker: PhantomData::<S> }).await.expect("bulk delete");
        }
        for _ in 0..200 {
            let id = pool[rng.gen_range(0..pool.len())];
            match rng.gen_range(0..6) {
                0 | 1 | 2 => {
                    let ts = stamp();
                    actor.send(Set { source: rng.gen_range(0..2), doc: doc(id, ts), ctx: None, _marker: PhantomData::<S> }).await.expect("put");
                },
                3 => {
                    let ts = stamp();
                    actor.send(Del { source: rng.gen_range(0..2), doc: DocumentMetadata::new(id, ts), _marker: PhantomData::<S> }).await.expect("delete");
                },
                4 => {
                    let ts = stamp();
                    let docs: DocVec<Document> = (0..3).map(|_| doc(pool[rng.gen_range(0..pool.len())], ts)).collect();
                    actor.send(MultiSet { source: 0, docs, ctx: None, _marker: PhantomData::<S> }).await.expect("bulk put");
                },
                _ => {
                    let ts = stamp();
                    let docs: DocVec<DocumentMetadata> = (0..2).map(|_| DocumentMetadata::new(pool[rng.gen_range(0..pool.len())], ts)).collect();
                    actor.send(MultiDel { source: 0, docs, _marker: PhantomData::<S> }).await.expect("bulk delete");
                },
            }
        }
        let set = decode_set(&actor.send(Serialize).await.expect("serialize"));
        let (live, dead) = report(&set);
        out.push(json!({"ev": "before", "backend": backend, "ks": ks, "live": live, "dead": dead}));
    }
}

async fn load_phase<S: Storage>(store: S, backend: &str, out: &mut Vec<Value>) {
    let store = Arc::new(store);
    let group = KeyspaceGroup::new(store.clone(), Clock::new(1)).await;
    let started = group.load_states_from_storage().await.is_ok();
    for ks in KEYSPACES {
        let actor = group.get_or_create_keyspace(ks).await;
        let set = decode_set(&actor.send(Serialize).await.expect("serialize"));
        let (live, dead) = report(&set);
        // every document the rebuilt set calls live is readable with that stamp
        let mut unreadable = 0u64;
        for (id, ts) in set.verif_project().entries {
            match store.get(ks, id).await {
                Ok(Some(d)) if d.last_updated() == ts => {},
                _ => unreadable += 1,
            }
        }
        out.push(json!({"ev": "after", "backend": backend, "ks": ks, "started": started, "live": live, "dead": dead, "unreadable": unreadable}));
    }
}

/// One line to the acknowledgement log, written straight through to the file (no user-space buffer): what is in the file
/// when the process is killed is exactly what had been written.
fn log_line(f: &mut std::fs::File, v: Value) {
    use std::io::Write;
    f.write_all(format!("{}\n", v).as_bytes()).expect("ack log");
}

/// A request stream that is meant to be cut off by SIGKILL at an arbitrary moment: before every request a `try` line
/// (what it would leave behind), after its acknowledgement an `ack` line.  Stamps increase strictly, so the operation
/// acknowledged last on a document is the greatest one.  Some bulk requests carry thousands of documents, so that the
/// kill often lands in the middle of a request.
async fn kill_write_phase<S: Storage>(store: S, backend: &str, seed: u64, log: &str) {
    let mut f = std::fs::OpenOptions::new().create(true).append(true).open(log).expect("open ack log");
    let mut rng = StdRng::seed_from_u64(seed);
    let group = KeyspaceGroup::new(Arc::new(store), Clock::new(1)).await;
    let pool: Vec<u64> = vec![0, 1, 2, 42, 255, 256, 257, 65_536, i64::MAX as u64, i64::MAX as u64 + 1, u64::MAX - 1, u64::MAX,
                              rng.gen(), rng.gen::<u64>() | (1 << 63), 1 << 32, 1 << 40];
    let mut t = 1_000u64;
    let mut stamp = || {
        t += 1;
        HLCTimestamp::new(Duration::from_millis(t * 4), 0, 1)
    };
    let doc = |id: u64, ts: HLCTimestamp| Document::new(id, ts, format!("{id}-{ts}").into_bytes());
    let mut actors = vec![];
    for ks in KEYSPACES {
        actors.push(group.get_or_create_keyspace(ks).await);
    }
    println!("ready");
    let mut n = 0u64;
    loop {
        n += 1;
        let ki = rng.gen_range(0..KEYSPACES.len());
        let actor = &actors[ki];
        let ts = stamp();
        let ids: Vec<u64> = match rng.gen_range(0..10) {
            0 => { let base = 100_000 + rng.gen_range(0..4u64) * 1_000; (base..base + rng.gen_range(500..3_000u64)).collect() },
            1 | 2 => (0..rng.gen_range(2..5)).map(|_| pool[rng.gen_range(0..pool.len())]).collect(),
            _ => vec![pool[rng.gen_range(0..pool.len())]],
        };
        let put = rng.gen_bool(0.6);
        // a bulk request names a document once (the last version of a repeated id is C02's and C17's subject)
        let mut ids = ids;
        ids.sort();
        ids.dedup();
        log_line(&mut f, json!({"ev": "try", "n": n, "backend": backend, "ks": KEYSPACES[ki], "kind": if put { "put" } else { "del" },
                                "eff": ids.iter().map(|i| (i.to_string(), json!(format!("{i}@{ts}")))).collect::<serde_json::Map<String, Value>>()}));
        let source = rng.gen_range(0..2);
        if ids.len() == 1 && put {
            actor.send(Set { source, doc: doc(ids[0], ts), ctx: None, _marker: PhantomData::<S> }).await.expect("put");
        } else if ids.len() == 1 {
            actor.send(Del { source, doc: DocumentMetadata::new(ids[0], ts), _marker: PhantomData::<S> }).await.expect("delete");
        } else if put {
            let docs: DocVec<Document> = ids.iter().map(|i| doc(*i, ts)).collect();
            actor.send(MultiSet { source, docs, ctx: None, _marker: PhantomData::<S> }).await.expect("bulk put");
        } else {
            let docs: DocVec<DocumentMetadata> = ids.iter().map(|i| DocumentMetadata::new(*i, ts)).collect();
            actor.send(MultiDel { source, docs, _marker: PhantomData::<S> }).await.expect("bulk delete");
        }
        log_line(&mut f, json!({"ev": "ack", "n": n, "backend": backend, "ks": KEYSPACES[ki]}));
    }
}

/// After a kill: what a fresh process rebuilds, and what the storage's own metadata scan says.
async fn load_after_kill<S: Storage>(store: S, backend: &str, out: &mut Vec<Value>) {
    let store = Arc::new(store);
    let group = KeyspaceGroup::new(store.clone(), Clock::new(1)).await;
    let started = group.load_states_from_storage().await.is_ok();
    for ks in KEYSPACES {
        let actor = group.get_or_create_keyspace(ks).await;
        let set = decode_set(&actor.send(Serialize).await.expect("serialize"));
        let (live, dead) = report(&set);
        let mut unreadable = 0u64;
        for (id, ts) in set.verif_project().entries {
            match store.get(ks, id).await {
                Ok(Some(d)) if d.last_updated() == ts && d.data() == format!("{id}-{ts}").as_bytes() => {},
                _ => unreadable += 1,
            }
        }
        let mut meta_live = vec![];
        let mut meta_dead = vec![];
        match store.iter_metadata(ks).await {
            Ok(it) => for (id, ts, tomb) in it {
                if tomb { meta_dead.push(format!("{id}@{ts}")) } else { meta_live.push(format!("{id}@{ts}")) }
            },
            Err(_) => unreadable += 1_000_000,
        }
        meta_live.sort();
        meta_dead.sort();
        out.push(json!({"ev": "after_kill", "backend": backend, "ks": ks, "started": started, "live": live, "dead": dead,
                        "meta_live": meta_live, "meta_dead": meta_dead, "unreadable": unreadable}));
    }
}

pub async fn run() {
    let phase = arg_or("--phase", "write");
    let dir = PathBuf::from(arg_or("--dir", "/dev/shm/verif-restart"));
    let seed: u64 = arg_or("--seed", "1").parse().unwrap();
    let mut out = vec![];
    if phase == "killwrite" || phase == "killload" {
        let backend = arg_or("--backend", "sqlite");
        if phase == "killwrite" {
            let _ = std::fs::remove_dir_all(&dir);
            std::fs::create_dir_all(dir.join("lmdb")).unwrap();
            let log = arg_or("--log", "/dev/shm/verif-restart/ack.log");
            if backend == "sqlite" {
                kill_write_phase(SqliteStorage::open(dir.join("sqlite.db")).await.expect("open sqlite"), "sqlite", seed, &log).await;
            } else {
                kill_write_phase(LmdbStorage::open(dir.join("lmdb")).await.expect("open lmdb"), "lmdb", seed, &log).await;
            }
        } else if backend == "sqlite" {
            load_after_kill(SqliteStorage::open(dir.join("sqlite.db")).await.expect("open sqlite"), "sqlite", &mut out).await;
        } else {
            load_after_kill(LmdbStorage::open(dir.join("lmdb")).await.expect("open lmdb"), "lmdb", &mut out).await;
        }
    } else if phase == "write" {
        let _ = std::fs::remove_dir_all(&dir);
        std::fs::create_dir_all(dir.join("lmdb")).unwrap();
        write_phase(SqliteStorage::open(dir.join("sqlite.db")).await.expect("open sqlite"), "sqlite", seed, &mut out).await;
        write_phase(LmdbStorage::open(dir.join("lmdb")).await.expect("open lmdb"), "lmdb", seed + 1, &mut out).await;
    } else {
        load_phase(SqliteStorage::open(dir.join("sqlite.db")).await.expect("open sqlite"), "sqlite", &mut out).await;
        load_phase(LmdbStorage::open(dir.join("lmdb")).await.expect("open lmdb"), "lmdb", &mut out).await;
    }
    for e in out {
        println!("{}", e);
    }
    // the process ends here without closing anything, as a stopped node does
    std::process::exit(0);
}
