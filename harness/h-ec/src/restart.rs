//! C07 on the persistent backends: a real KeyspaceGroup over SQLite (file) / LMDB handles a stream of requests (single and
//! bulk puts and deletes, two keyspaces, document ids from 0 to 2^64-1 and a run of several thousand consecutive ones),
//! then the process ends.  A fresh process opens the same files, runs `load_states_from_storage` and reports the set it
//! rebuilt.  Both reports go to Trace_Restart.tla: what was acknowledged before the stop is what the restarted node holds.

use std::marker::PhantomData;
use std::path::PathBuf;
use std::sync::Arc;
use std::time::Duration;

use datacake_crdt::HLCTimestamp;
use datacake_eventual_consistency::verif::{DocVec, KeyspaceGroup, MultiDel, MultiSet, Serialize, Set};
use datacake_eventual_consistency::verif::Del;
use datacake_eventual_consistency::{Document, DocumentMetadata, Storage};
use datacake_lmdb::LmdbStorage;
use datacake_node::Clock;
use datacake_sqlite::SqliteStorage;
use rand::rngs::StdRng;
use rand::{Rng, SeedableRng};
use serde_json::{json, Value};
use vcommon::arg_or;

use crate::keyspace::decode_set;
use crate::model::tombstones;

const KEYSPACES: [&str; 2] = ["first", "second"];

fn report(set: &datacake_crdt::OrSWotSet<2>) -> (Value, Value) {
    let mut live: Vec<(u64, HLCTimestamp)> = set.verif_project().entries;
    live.sort();
    let dead: Vec<(u64, HLCTimestamp)> = tombstones(set).into_iter().collect();
    (json!(live.iter().map(|(k, t)| format!("{k}@{t}")).collect::<Vec<_>>()), json!(dead.iter().map(|(k, t)| format!("{k}@{t}")).collect::<Vec<_>>()))
}

async fn write_phase<S: Storage>(store: S, backend: &str, seed: u64, out: &mut Vec<Value>) {
    let mut rng = StdRng::seed_from_u64(seed);
    let clock = Clock::new(1);
    let group = KeyspaceGroup::new(Arc::new(store), clock).await;
    let pool: Vec<u64> = vec![0, 1, 2, 42, i64::MAX as u64 - 1, i64::MAX as u64, i64::MAX as u64 + 1, i64::MAX as u64 + 2, u64::MAX - 1, u64::MAX,
                              rng.gen(), rng.gen(), rng.gen::<u64>() | (1 << 63), 1 << 32];
    let mut t = 1_000u64;
    let mut stamp = || {
        t += 1;
        HLCTimestamp::new(Duration::from_millis(t * 4), 0, 1)
    };
    let doc = |id: u64, ts: HLCTimestamp| Document::new(id, ts, format!("{id}-{ts}").into_bytes());
    for (ki, ks) in KEYSPACES.iter().enumerate() {
        let actor = group.get_or_create_keyspace(ks).await;
        // several thousand consecutive ids in one call (more than any page a backend may read at a time), some deleted again
        if ki == 0 {
            let ts = stamp();
            let docs: DocVec<Document> = (10_000..15_000u64).map(|i| doc(i, ts)).collect();
            actor.send(MultiSet { source: 0, docs, ctx: None, _marker: PhantomData::<S> }).await.expect("bulk put");
            let ts = stamp();
            let gone: DocVec<DocumentMetadata> = (10_000..15_000u64).step_by(7).map(|i| DocumentMetadata::new(i, ts)).collect();
            actor.send(MultiDel { source: 0, docs: gone, _marker: PhantomData::<S> }).await.expect("bulk delete");
        }
        for _ in 0..200 {
            let id = pool[rng.gen_range(0..pool.len())];
            match rng.gen_range(0..6) {
                0 | 1 | 2 => {
                    let ts = stamp();
                    actor.send(Set { source: rng.gen_range(0..2), doc: doc(id, ts), ctx: None, _marker: PhantomData::<S> }).await.expect("put");
                },
                3 => {
                    let ts = stamp();
                    actor.send(Del { source: rng.gen_range(0..2), doc: DocumentMetadata::new(id, ts), _marker: PhantomData::<S> }).await.expect("delete");
                },
                4 => {
                    let ts = stamp();
                    let docs: DocVec<Document> = (0..3).map(|_| doc(pool[rng.gen_range(0..pool.len())], ts)).collect();
                    actor.send(MultiSet { source: 0, docs, ctx: None, _marker: PhantomData::<S> }).await.expect("bulk put");
                },
                _ => {
                    let ts = stamp();
                    let docs: DocVec<DocumentMetadata> = (0..2).map(|_| DocumentMetadata::new(pool[rng.gen_range(0..pool.len())], ts)).collect();
                    actor.send(MultiDel { source: 0, docs, _marker: PhantomData::<S> }).await.expect("bulk delete");
                },
            }
        }
        let set = decode_set(&actor.send(Serialize).await.expect("serialize"));
        let (live, dead) = report(&set);
        out.push(json!({"ev": "before", "backend": backend, "ks": ks, "live": live, "dead": dead}));
    }
}

async fn load_phase<S: Storage>(store: S, backend: &str, out: &mut Vec<Value>) {
    let store = Arc::new(store);
    let group = KeyspaceGroup::new(store.clone(), Clock::new(1)).await;
    let started = group.load_states_from_storage().await.is_ok();
    for ks in KEYSPACES {
        let actor = group.get_or_create_keyspace(ks).await;
        let set = decode_set(&actor.send(Serialize).await.expect("serialize"));
        let (live, dead) = report(&set);
        // every document the rebuilt set calls live is readable with that stamp
        let mut unreadable = 0u64;
        for (id, ts) in set.verif_project().entries {
            match store.get(ks, id).await {
                Ok(Some(d)) if d.last_updated() == ts => {},
                _ => unreadable += 1,
            }
        }
        out.push(json!({"ev": "after", "backend": backend, "ks": ks, "started": started, "live": live, "dead": dead, "unreadable": unreadable}));
    }
}

pub async fn run() {
    let phase = arg_or("--phase", "write");
    let dir = PathBuf::from(arg_or("--dir", "/dev/shm/verif-restart"));
    let seed: u64 = arg_or("--seed", "1").parse().unwrap();
    let mut out = vec![];
    if phase == "write" {
        let _ = std::fs::remove_dir_all(&dir);
        std::fs::create_dir_all(dir.join("lmdb")).unwrap();
        write_phase(SqliteStorage::open(dir.join("sqlite.db")).await.expect("open sqlite"), "sqlite", seed, &mut out).await;
        write_phase(LmdbStorage::open(dir.join("lmdb")).await.expect("open lmdb"), "lmdb", seed + 1, &mut out).await;
    } else {
        load_phase(SqliteStorage::open(dir.join("sqlite.db")).await.expect("open sqlite"), "sqlite", &mut out).await;
        load_phase(LmdbStorage::open(dir.join("lmdb")).await.expect("open lmdb"), "lmdb", &mut out).await;
    }
    for e in out {
        println!("{}", e);
    }
    // the process ends here without closing anything, as a stopped node does
    std::process::exit(0);
}
