//! C17 (G): every transition of the reference model Storage.tla is replayed on the bundled
//! backends.  For each edge the source state is built in a fresh pair of keyspaces (so one
//! database serves many edges and keyspace independence is exercised), the call is made, and
//! `iter_metadata`, `get`, `multi_get` and `get_keyspace_list` are compared with the model.

use std::collections::{BTreeMap, BTreeSet};
use std::path::PathBuf;
use std::time::Duration;

use datacake_crdt::HLCTimestamp;
use datacake_eventual_consistency::test_utils::MemStore;
use datacake_eventual_consistency::{Document, DocumentMetadata, Storage};
use datacake_lmdb::LmdbStorage;
use datacake_sqlite::SqliteStorage;
use serde_json::{json, Value};
use vcommon::{arg_or, for_each_payload, open_input, Summary};

use crate::fn_items;

/// concrete values for the model's abstract ids / stamps / payload classes; rotated per edge
struct Mapping {
    ids: [u64; 2],
    stamps: [HLCTimestamp; 2],
    payloads: [Vec<u8>; 2],
}

fn mapping(n: u64) -> Mapping {
    const IDS: [[u64; 2]; 6] = [
        [1, 2],
        [0, u64::MAX],
        [i64::MAX as u64, i64::MAX as u64 + 1],
        [u64::MAX - 3, 7],
        [1 << 32, (1 << 63) + 5],
        [42, 43],
    ];
    let stamps: [[HLCTimestamp; 2]; 4] = [
        [HLCTimestamp::new(Duration::from_secs(1), 0, 0), HLCTimestamp::new(Duration::from_secs(1), 1, 0)],
        [HLCTimestamp::new(Duration::from_secs(0), 0, 0), HLCTimestamp::new(Duration::from_secs((1 << 32) - 1) + Duration::from_millis(996), u16::MAX, u8::MAX)],
        [HLCTimestamp::new(Duration::from_millis(123_456_789), 7, 200), HLCTimestamp::new(Duration::from_millis(123_456_793), 0, 3)],
        [HLCTimestamp::new(Duration::from_secs(1 << 31), 255, 128), HLCTimestamp::new(Duration::from_secs((1 << 31) + 1), 256, 127)],
    ];
    let small: Vec<u8> = (0..(1 + n % 40)).map(|i| (i * 7 + n) as u8).collect();
    let second: Vec<u8> = if n % 97 == 0 { (0..65_536u32).map(|i| (i % 251) as u8).collect() } else { small };
    Mapping { ids: IDS[(n % 6) as usize], stamps: stamps[((n / 6) % 4) as usize], payloads: [Vec::new(), second] }
}

trait Backend: Sized {
    type S: Storage;
    const NAME: &'static str;
    const PERSISTENT: bool;
    /// how many edges may share one database
    const EDGES_PER_DB: u64;
    async fn fresh(dir: &PathBuf, n: u64) -> Self;
    fn storage(&self) -> &Self::S;
    async fn reopen(self, variant: u64) -> Self;
    async fn close(self);
    /// The same comparison made by a process of its own that opens the database afresh (a real restart's view);
    /// `None` where that is not done.
    async fn fresh_process_view(&self, _n: u64, _to: &Value, _must: &Value, _may: &Value) -> Option<Vec<String>> {
        None
    }
}

struct Mem(MemStore);
impl Backend for Mem {
    type S = MemStore;
    const NAME: &'static str = "memstore";
    const PERSISTENT: bool = false;
    const EDGES_PER_DB: u64 = 40;
    async fn fresh(_: &PathBuf, _: u64) -> Self { Mem(MemStore::default()) }
    fn storage(&self) -> &MemStore { &self.0 }
    async fn reopen(self, _: u64) -> Self { self }
    async fn close(self) {}
}

struct SqlMem(SqliteStorage);
impl Backend for SqlMem {
    type S = SqliteStorage;
    const NAME: &'static str = "sqlite-memory";
    const PERSISTENT: bool = false;
    const EDGES_PER_DB: u64 = 40;
    async fn fresh(_: &PathBuf, _: u64) -> Self { SqlMem(SqliteStorage::open_in_memory().await.expect("open sqlite")) }
    fn storage(&self) -> &SqliteStorage { &self.0 }
    async fn reopen(self, _: u64) -> Self { self }
    async fn close(self) {}
}

struct SqlFile(SqliteStorage, PathBuf);
impl Backend for SqlFile {
    type S = SqliteStorage;
    const NAME: &'static str = "sqlite-file";
    const PERSISTENT: bool = true;
    const EDGES_PER_DB: u64 = 40;
    async fn fresh(dir: &PathBuf, n: u64) -> Self {
        let p = dir.join(format!("sqlite-{n}.db"));
        SqlFile(SqliteStorage::open(&p).await.expect("open sqlite file"), p)
    }
    fn storage(&self) -> &SqliteStorage { &self.0 }
    async fn reopen(self, _: u64) -> Self {
        let p = self.1.clone();
        drop(self.0); // the backend thread ends and closes the connection once every handle is gone
        tokio::time::sleep(Duration::from_millis(2)).await;
        SqlFile(SqliteStorage::open(&p).await.expect("reopen sqlite file"), p)
    }
    async fn close(self) {
        let p = self.1.clone();
        drop(self.0);
        let _ = std::fs::remove_file(p);
    }
}

struct Lmdb(LmdbStorage, PathBuf);
impl Backend for Lmdb {
    type S = LmdbStorage;
    const NAME: &'static str = "lmdb";
    const PERSISTENT: bool = true;
    const EDGES_PER_DB: u64 = 50; // 250 named databases per environment, 4 per edge
    async fn fresh(dir: &PathBuf, n: u64) -> Self {
        let p = dir.join(format!("lmdb-{n}"));
        std::fs::create_dir_all(&p).unwrap();
        Lmdb(LmdbStorage::open(&p).await.expect("open lmdb"), p)
    }
    fn storage(&self) -> &LmdbStorage { &self.0 }
    async fn reopen(self, _variant: u64) -> Self {
        // A new datacake handle on the environment. heed keeps an environment open for the life of the process unless
        // it is closed explicitly, and closing it while datacake-lmdb's background thread is still on its way out is
        // unsafe (LMDB's thread-local reader slot is released at thread exit - observed as a SIGSEGV in
        // mdb_env_reader_dest when this harness used to call `prepare_for_closing` here). So nothing is ever closed
        // in-process; the view of a process that opens the files afresh is taken by `fresh_process_view`.
        let p = self.1.clone();
        drop(self.0);
        Lmdb(LmdbStorage::open(&p).await.expect("reopen lmdb"), p)
    }
    async fn close(self) {
        let p = self.1.clone();
        drop(self.0);
        // the environment stays open in this process (two descriptors, one 10 MiB mapping); its files can go
        let _ = std::fs::remove_dir_all(p);
    }
    async fn fresh_process_view(&self, n: u64, to: &Value, must: &Value, may: &Value) -> Option<Vec<String>> {
        let exe = std::env::current_exe().expect("own path");
        let arg = json!({"path": self.1, "n": n, "to": to, "must": must, "may": may}).to_string();
        let out = tokio::process::Command::new(exe).arg("verify-lmdb").arg(arg).output().await.expect("spawn verify-lmdb");
        if !out.status.success() {
            return Some(vec![format!("a fresh process could not open / read the environment: exit {:?}: {}",
                                     out.status.code(), String::from_utf8_lossy(&out.stderr).lines().last().unwrap_or(""))]);
        }
        let why: Vec<String> = serde_json::from_slice(&out.stdout).expect("verify-lmdb output");
        Some(why.into_iter().map(|w| format!("seen by a fresh process: {w}")).collect())
    }
}

/// `h-ec verify-lmdb <json>`: opens the LMDB environment at `path` in this (fresh) process and compares what the
/// Storage API returns with the model state; prints the list of mismatches as JSON.
pub async fn verify_lmdb() {
    let arg: Value = serde_json::from_str(&std::env::args().nth(2).expect("argument")).expect("json argument");
    let path = PathBuf::from(arg["path"].as_str().unwrap());
    let n = arg["n"].as_u64().unwrap();
    let store = LmdbStorage::open(&path).await.expect("open lmdb");
    let m = mapping(n);
    let r = Reader { s: &store, m: &m };
    let why = r.compare(n, &arg["to"], &arg["must"], &arg["may"]).await;
    println!("{}", serde_json::to_string(&why).unwrap());
}

fn ks_name(n: u64, k: u64) -> String {
    format!("n{}k{}", n, k)
}

struct Reader<'a, S: Storage> {
    s: &'a S,
    m: &'a Mapping,
}

impl<'a, S: Storage> Reader<'a, S> {
    /// reads everything back and compares with the model state `to`; returns the mismatches
    async fn compare(&self, n: u64, to: &Value, must: &Value, may: &Value) -> Vec<String> {
        let mut why = vec![];
        for (k, ks) in fn_items(&to["store"]) {
            let name = ks_name(n, k);
            let mut exp_meta = BTreeSet::new();
            let mut exp_docs: BTreeMap<u64, (HLCTimestamp, Vec<u8>)> = BTreeMap::new();
            for (i, e) in fn_items(ks) {
                if e.get("absent").is_some() {
                    continue;
                }
                let id = self.m.ids[i as usize - 1];
                let ts = self.m.stamps[e["ts"].as_u64().unwrap() as usize - 1];
                let tomb = e["tomb"].as_bool().unwrap();
                exp_meta.insert((id, ts, tomb));
                if !tomb {
                    exp_docs.insert(id, (ts, self.m.payloads[e["data"].as_u64().unwrap() as usize].clone()));
                }
            }
            match self.s.iter_metadata(&name).await {
                Err(e) => why.push(format!("iter_metadata({name}) failed: {e}")),
                Ok(it) => {
                    let got: Vec<_> = it.collect();
                    let set: BTreeSet<_> = got.iter().cloned().collect();
                    if set.len() != got.len() {
                        why.push(format!("iter_metadata({name}) lists an id twice: {got:?}"));
                    }
                    if set != exp_meta {
                        why.push(format!("iter_metadata({name}) = {set:?}, reference model {exp_meta:?}"));
                    }
                },
            }
            for id in self.m.ids {
                match self.s.get(&name, id).await {
                    Err(e) => why.push(format!("get({name}, {id}) failed: {e}")),
                    Ok(doc) => {
                        let got = doc.map(|d| (d.id(), d.last_updated(), d.data().to_vec()));
                        let exp = exp_docs.get(&id).map(|(ts, data)| (id, *ts, data.clone()));
                        if got != exp {
                            why.push(format!("get({name}, {id}) = {:?}, reference model {:?}", summarize(&got), summarize(&exp)));
                        }
                    },
                }
            }
            for order in [[0usize, 1], [1, 0]] {
                let ids: Vec<u64> = order.iter().map(|i| self.m.ids[*i]).collect();
                match self.s.multi_get(&name, ids.clone().into_iter()).await {
                    Err(e) => why.push(format!("multi_get({name}, {ids:?}) failed: {e}")),
                    Ok(it) => {
                        let got: BTreeMap<u64, (HLCTimestamp, Vec<u8>)> = it.map(|d| (d.id(), (d.last_updated(), d.data().to_vec()))).collect();
                        if got != exp_docs {
                            why.push(format!("multi_get({name}, {ids:?}) returns ids {:?}, reference model {:?}",
                                             got.keys().collect::<Vec<_>>(), exp_docs.keys().collect::<Vec<_>>()));
                        }
                    },
                }
            }
        }
        match self.s.get_keyspace_list().await {
            Err(e) => why.push(format!("get_keyspace_list failed: {e}")),
            Ok(list) => {
                let ours: BTreeSet<String> = list.into_iter().filter(|l| l.starts_with(&format!("n{}k", n))).collect();
                for k in must.as_array().unwrap() {
                    let name = ks_name(n, k.as_u64().unwrap());
                    if !ours.contains(&name) {
                        why.push(format!("get_keyspace_list lacks {name}, which holds entries"));
                    }
                }
                // Upper bound: keyspaces named in ANY call. This read-back itself names both keyspaces of the
                // namespace (LMDB legitimately registers a keyspace on first touch, SQLite forgets an emptied
                // one), so the bound is "nothing but our two names" - names are otherwise filtered by prefix.
                let _ = may;
                let both: BTreeSet<String> = [ks_name(n, 1), ks_name(n, 2)].into_iter().collect();
                for l in &ours {
                    if !both.contains(l) {
                        why.push(format!("get_keyspace_list names {l}, which no call ever named"));
                    }
                }
            },
        }
        why
    }
}

fn summarize(d: &Option<(u64, HLCTimestamp, Vec<u8>)>) -> Option<(u64, String, usize)> {
    d.as_ref().map(|(id, ts, data)| (*id, ts.to_string(), data.len()))
}

async fn build_state<S: Storage>(s: &S, m: &Mapping, n: u64, from: &Value) -> Result<(), String> {
    for (k, ks) in fn_items(&from["store"]) {
        let name = ks_name(n, k);
        for (i, e) in fn_items(ks) {
            if e.get("absent").is_some() {
                continue;
            }
            let id = m.ids[i as usize - 1];
            let ts = m.stamps[e["ts"].as_u64().unwrap() as usize - 1];
            if e["tomb"].as_bool().unwrap() {
                s.mark_as_tombstone(&name, id, ts).await.map_err(|e| e.to_string())?;
            } else {
                let data = m.payloads[e["data"].as_u64().unwrap() as usize].clone();
                s.put(&name, Document::new(id, ts, data)).await.map_err(|e| e.to_string())?;
            }
        }
        // a keyspace that was named but is empty in the source state
        if from["named"].as_array().unwrap().iter().any(|x| x.as_u64() == Some(k))
            && fn_items(ks).iter().all(|(_, e)| e.get("absent").is_some())
        {
            s.multi_put(&name, Vec::<Document>::new().into_iter()).await.map_err(|e| e.to_string())?;
        }
    }
    Ok(())
}

async fn apply_op<S: Storage>(s: &S, m: &Mapping, n: u64, op: &Value) -> Result<(), String> {
    let kind = op["kind"].as_str().unwrap();
    let name = op.get("ks").and_then(|k| k.as_u64()).map(|k| ks_name(n, k)).unwrap_or_default();
    let docs = |op: &Value| -> Vec<Document> {
        op["docs"].as_array().unwrap().iter().map(|d| {
            Document::new(m.ids[d["id"].as_u64().unwrap() as usize - 1], m.stamps[d["ts"].as_u64().unwrap() as usize - 1],
                          m.payloads[d["data"].as_u64().unwrap() as usize].clone())
        }).collect()
    };
    let metas = |op: &Value| -> Vec<DocumentMetadata> {
        op["docs"].as_array().unwrap().iter().map(|d| {
            DocumentMetadata::new(m.ids[d["id"].as_u64().unwrap() as usize - 1], m.stamps[d["ts"].as_u64().unwrap() as usize - 1])
        }).collect()
    };
    match kind {
        "put" => s.put(&name, docs(op).remove(0)).await.map_err(|e| e.to_string()),
        "multi_put" => s.multi_put(&name, docs(op).into_iter()).await.map_err(|e| e.to_string()),
        "mark_as_tombstone" => {
            let d = metas(op).remove(0);
            s.mark_as_tombstone(&name, d.id, d.last_updated).await.map_err(|e| e.to_string())
        },
        "mark_many_as_tombstone" => s.mark_many_as_tombstone(&name, metas(op).into_iter()).await.map_err(|e| e.to_string()),
        "remove_tombstones" => {
            let ids: Vec<u64> = op["ids"].as_array().unwrap().iter().map(|i| m.ids[i.as_u64().unwrap() as usize - 1]).collect();
            s.remove_tombstones(&name, ids.into_iter()).await.map_err(|e| e.to_string())
        },
        other => panic!("op {other}"),
    }
}

async fn run_backend<B: Backend>(edges: &[(Value, Value)], dir: &PathBuf, stride: u64, offset: u64, range: (u64, u64)) -> Summary {
    let mut sum = Summary::default();
    let mut db: Option<B> = None;
    let mut in_db = 0u64;
    let mut reopens = 0u64;
    let mut fresh_views = 0u64;
    let mut by_kind: BTreeMap<String, u64> = BTreeMap::new();
    for (n, (from, e)) in edges.iter().enumerate() {
        let n = n as u64;
        if n % stride != offset % stride || n < range.0 || n >= range.1 {
            continue;
        }
        let kind = e["op"]["kind"].as_str().unwrap();
        if kind == "reopen" && !B::PERSISTENT {
            continue;
        }
        if db.is_none() || in_db >= B::EDGES_PER_DB {
            if let Some(old) = db.take() {
                old.close().await;
            }
            db = Some(B::fresh(dir, n).await);
            in_db = 0;
        }
        in_db += 1;
        sum.evaluations += 1;
        *by_kind.entry(kind.to_string()).or_default() += 1;
        let m = mapping(n);
        let mut why: Vec<String> = vec![];
        if let Err(err) = build_state(db.as_ref().unwrap().storage(), &m, n, from).await {
            why.push(format!("building the source state failed: {err}"));
        } else if kind == "reopen" {
            reopens += 1;
            let cur = db.take().unwrap();
            db = Some(cur.reopen(reopens).await);
        } else if let Err(err) = apply_op(db.as_ref().unwrap().storage(), &m, n, &e["op"]).await {
            why.push(format!("{kind} returned an error: {err}"));
        }
        if why.is_empty() {
            let r = Reader { s: db.as_ref().unwrap().storage(), m: &m };
            why = r.compare(n, &e["to"], &e["must"], &e["may"]).await;
        }
        if why.is_empty() && kind == "reopen" {
            if let Some(w) = db.as_ref().unwrap().fresh_process_view(n, &e["to"], &e["must"], &e["may"]).await {
                fresh_views += 1;
                why = w;
            }
        }
        if !why.is_empty() {
            sum.violation(json!({"property": "C17", "backend": B::NAME, "why": why, "from": from, "op": e["op"], "to": e["to"],
                                 "ids": m.ids, "stamps": [m.stamps[0].to_string(), m.stamps[1].to_string()],
                                 "payload_lens": [m.payloads[0].len(), m.payloads[1].len()], "edge_index": n}));
        }
        if sum.evaluations % 20_000 == 1 {
            sum.sample(json!({"backend": B::NAME, "from": from["store"], "op": e["op"], "to": e["to"]["store"], "ids": m.ids}));
        }
    }
    if let Some(old) = db.take() {
        old.close().await;
    }
    sum.set("backend", B::NAME);
    sum.set("reopens", reopens);
    sum.set("fresh_process_views", fresh_views);
    sum.set("by_kind", json!(by_kind));
    sum
}

pub async fn replay() {
    let input = arg_or("--input", "-");
    let out = arg_or("--out", "-");
    let passthrough = vcommon::arg("--passthrough");
    let dir = PathBuf::from(arg_or("--dir", "/dev/shm/verif-storage"));
    let backends = arg_or("--backends", "memstore,sqlite-memory,sqlite-file,lmdb");
    // replay every `stride`-th edge on the slow persistent backends (1 = all)
    let stride: u64 = arg_or("--persistent-stride", "1").parse().unwrap();
    let offset: u64 = arg_or("--offset", "0").parse().unwrap();
    // a child of this command working on a slice of the edge indexes (LMDB: a process can hold about a thousand
    // environments - one thread-local key each - and none is ever closed in-process, see Lmdb::reopen)
    let range: Option<(u64, u64)> = vcommon::arg("--edge-range").map(|r| {
        let mut it = r.split(':').map(|x| x.parse::<u64>().unwrap());
        (it.next().unwrap(), it.next().unwrap())
    });
    let _ = std::fs::remove_dir_all(&dir);
    std::fs::create_dir_all(&dir).expect("scratch dir");

    let mut edges: Vec<(Value, Value)> = vec![];
    let mut cur = Value::Null;
    for_each_payload(open_input(&input), passthrough.as_deref(), |tag, v| {
        if tag == "FROM" {
            cur = v["from"].clone();
        } else if tag == "EDGE" {
            edges.push((cur.clone(), v));
        }
    });
    let edges = std::sync::Arc::new(edges);
    let all_edges = (0u64, edges.len() as u64);
    let whole = range.unwrap_or(all_edges);
    // edge indexes one LMDB process may cover: 600 environments of EDGES_PER_DB edges each
    let lmdb_span = 600 * Lmdb::EDGES_PER_DB * stride;
    let mut handles = vec![];
    for b in backends.split(',') {
        let edges = edges.clone();
        let dir = dir.clone();
        let b = b.to_string();
        let input = input.clone();
        handles.push(tokio::spawn(async move {
            match b.as_str() {
                "memstore" => run_backend::<Mem>(&edges, &dir, 1, 0, whole).await,
                "sqlite-memory" => run_backend::<SqlMem>(&edges, &dir, stride, offset, whole).await,
                "sqlite-file" => run_backend::<SqlFile>(&edges, &dir, stride, offset + 1, whole).await,
                "lmdb" if range.is_some() || whole.1 - whole.0 <= lmdb_span => {
                    run_backend::<Lmdb>(&edges, &dir, stride, offset + 2, whole).await
                },
                "lmdb" => {
                    // one child process per slice, one after the other; their summaries are added up
                    let exe = std::env::current_exe().expect("own path");
                    let mut total = Summary::default();
                    let (mut reopens, mut fresh) = (0u64, 0u64);
                    let mut by_kind: BTreeMap<String, u64> = BTreeMap::new();
                    let mut from = whole.0;
                    let mut part = 0;
                    while from < whole.1 {
                        let to = (from + lmdb_span).min(whole.1);
                        let out = dir.join(format!("lmdb-part-{part}.json"));
                        let status = tokio::process::Command::new(&exe)
                            .args(["replay-storage", "--input", &input, "--backends", "lmdb", "--persistent-stride", &stride.to_string(),
                                   "--offset", &offset.to_string(), "--edge-range", &format!("{from}:{to}"),
                                   "--dir", dir.join(format!("lmdb-part-{part}")).to_str().unwrap(), "--out", out.to_str().unwrap()])
                            .status()
                            .await
                            .expect("spawn lmdb slice");
                        if !status.success() {
                            // the child ran the code under test: pass its fate on (the caller reruns / reports it)
                            eprintln!("the LMDB slice {from}:{to} ended with {status:?}");
                            std::process::exit(status.code().unwrap_or(101));
                        }
                        let v: Value = serde_json::from_str(&std::fs::read_to_string(&out).expect("slice summary")).expect("slice json");
                        let b = &v["backends"][0];
                        total.evaluations += b["evaluations"].as_u64().unwrap();
                        total.violation_count += b["violation_count"].as_u64().unwrap();
                        for x in v["violations"].as_array().unwrap().iter().take(6) {
                            total.violations.push(x.clone());
                        }
                        for x in v["samples"].as_array().unwrap().iter().take(1) {
                            total.samples.push(x.clone());
                        }
                        reopens += b["reopens"].as_u64().unwrap();
                        fresh += b["fresh_process_views"].as_u64().unwrap_or(0);
                        for (k, n) in b["by_kind"].as_object().unwrap() {
                            *by_kind.entry(k.clone()).or_default() += n.as_u64().unwrap();
                        }
                        from = to;
                        part += 1;
                    }
                    total.set("backend", "lmdb");
                    total.set("reopens", reopens);
                    total.set("fresh_process_views", fresh);
                    total.set("by_kind", json!(by_kind));
                    total.set("processes", part as u64);
                    total
                },
                other => panic!("backend {other}"),
            }
        }));
    }
    let mut all = vec![];
    let mut total = Summary::default();
    for h in handles {
        let s = h.await.expect("backend task");
        total.evaluations += s.evaluations;
        total.violation_count += s.violation_count;
        for v in s.violations.iter().take(6) {
            total.violations.push(v.clone());
        }
        for v in s.samples.iter().take(2) {
            total.samples.push(v.clone());
        }
        all.push(s.to_json());
    }
    total.set("edges", edges.len() as u64);
    total.set("backends", json!(all.iter().map(|s| json!({"backend": s["backend"], "evaluations": s["evaluations"],
        "violation_count": s["violation_count"], "reopens": s["reopens"], "fresh_process_views": s["fresh_process_views"], "by_kind": s["by_kind"]})).collect::<Vec<_>>()));
    total.write(&out);
    let _ = std::fs::remove_dir_all(&dir);
}
