//! C17 (V): seeded random call sequences with arbitrary u64 ids, timestamps and payloads on every
//! bundled backend, recorded as NDJSON for Trace_Storage.tla (ids / stamps / payload digests are
//! rendered as strings).

use std::collections::{BTreeMap, BTreeSet};
use std::io::Write;
use std::path::PathBuf;
use std::time::Duration;

use datacake_crdt::HLCTimestamp;
use datacake_eventual_consistency::test_utils::MemStore;
use datacake_eventual_consistency::{Document, DocumentMetadata, Storage};
use datacake_lmdb::LmdbStorage;
use datacake_sqlite::SqliteStorage;
use rand::rngs::StdRng;
use rand::{Rng, SeedableRng};
use serde_json::{json, Value};
use vcommon::arg_or;

fn digest(data: &[u8]) -> String {
    let mut h: u64 = 0xcbf29ce484222325;
    for b in data {
        h ^= *b as u64;
        h = h.wrapping_mul(0x100000001b3);
    }
    format!("{}:{:016x}", data.len(), h)
}

struct Gen {
    rng: StdRng,
    ids: Vec<u64>,
}

impl Gen {
    fn id(&mut self) -> u64 {
        if self.rng.gen_bool(0.85) {
            let i = self.rng.gen_range(0..self.ids.len());
            self.ids[i]
        } else {
            self.rng.gen()
        }
    }
    fn ts(&mut self) -> HLCTimestamp {
        let secs = match self.rng.gen_range(0..4) {
            0 => self.rng.gen_range(0..10),
            1 => (1u64 << 32) - 1 - self.rng.gen_range(0..3),
            _ => self.rng.gen_range(0..1u64 << 32),
        };
        HLCTimestamp::new(Duration::from_secs(secs) + Duration::from_millis(self.rng.gen_range(0..250) * 4), self.rng.gen(), self.rng.gen())
    }
    fn payload(&mut self) -> Vec<u8> {
        let len = match self.rng.gen_range(0..10) {
            0 => 0,
            1 => self.rng.gen_range(10_000..40_000),
            _ => self.rng.gen_range(1..64),
        };
        (0..len).map(|_| self.rng.gen()).collect()
    }
}

/// One run of `len` calls on storage `s`; `tombs` / `live` mirror what the recorder itself needs to
/// stay inside the contract (remove_tombstones only on ids that are not live).
/// One bulk write that is larger than a small backend can take (the LMDB backend's map holds 10 MiB): 400 documents of
/// 32 KiB.  A backend may refuse it; then exactly the documents it reports as written are in place (the Storage
/// contract for a failed bulk call), which the trace specification checks through the reads that follow.
async fn oversized_put<S: Storage>(s: &S, g: &mut Gen, out: &mut Vec<Value>, live: &mut BTreeMap<String, BTreeSet<u64>>, touched: &mut BTreeSet<String>) {
    let ks = "beta".to_string();
    touched.insert(ks.clone());
    let base: u64 = g.rng.gen_range(1_000_000..2_000_000);
    let docs: Vec<Document> = (0..400u64).map(|i| {
        let body: Vec<u8> = (0..32 * 1024).map(|j| (i as usize * 7 + j) as u8).collect();
        Document::new(base + i, g.ts(), body)
    }).collect();
    let listed: Vec<Value> = docs.iter().map(|d| json!({"id": d.id().to_string(), "ts": d.last_updated().to_string(), "dig": digest(d.data())})).collect();
    let ids: Vec<u64> = docs.iter().map(|d| d.id()).collect();
    match s.multi_put(&ks, docs.into_iter()).await {
        Ok(()) => {
            out.push(json!({"ev": "put", "ks": ks, "docs": listed}));
            live.entry(ks.clone()).or_default().extend(ids);
        },
        Err(e) => {
            let done: Vec<u64> = e.successful_doc_ids().to_vec();
            out.push(json!({"ev": "put_failed", "ks": ks, "docs": listed, "done": done.iter().map(|i| i.to_string()).collect::<Vec<_>>()}));
            live.entry(ks.clone()).or_default().extend(done);
        },
    }
    let entries: Vec<(u64, HLCTimestamp, bool)> = s.iter_metadata(&ks).await.expect("iter_metadata").collect();
    out.push(json!({"ev": "meta", "ks": ks, "entries": entries.iter().map(|e| json!({"id": e.0.to_string(), "ts": e.1.to_string(), "tomb": e.2})).collect::<Vec<_>>()}));
}

async fn run_calls<S: Storage>(s: &S, g: &mut Gen, len: usize, out: &mut Vec<Value>, live: &mut BTreeMap<String, BTreeSet<u64>>, touched: &mut BTreeSet<String>) {
    // names are all a backend can tell keyspaces by, so they are related as strings: prefixes of one another, the
    // suffixes a backend may append itself, another case, characters that mean something to SQL / LIKE / paths
    let keyspaces = ["alpha", "alph", "alpha-kv", "alpha-meta", "Alpha", "alpha%", "al_ha", "alpha/../beta", "bêta ' \" ;--"];
    for _ in 0..len {
        let ks = keyspaces[g.rng.gen_range(0..keyspaces.len())].to_string();
        touched.insert(ks.clone());
        match g.rng.gen_range(0..12) {
            0 | 1 => {
                let d = Document::new(g.id(), g.ts(), g.payload());
                out.push(json!({"ev": "put", "ks": ks, "docs": [{"id": d.id().to_string(), "ts": d.last_updated().to_string(), "dig": digest(d.data())}]}));
                live.entry(ks.clone()).or_default().insert(d.id());
                s.put(&ks, d).await.expect("put");
            },
            2 => {
                let n = g.rng.gen_range(0..4);
                // the same id may occur more than once in one call: the last version stays
                let docs: Vec<Document> = (0..n).map(|_| Document::new(g.id(), g.ts(), g.payload())).collect();
                out.push(json!({"ev": "put", "ks": ks, "docs": docs.iter().map(|d| json!({"id": d.id().to_string(), "ts": d.last_updated().to_string(), "dig": digest(d.data())})).collect::<Vec<_>>()}));
                for d in &docs {
                    live.entry(ks.clone()).or_default().insert(d.id());
                }
                s.multi_put(&ks, docs.into_iter()).await.expect("multi_put");
            },
            3 => {
                let (id, ts) = (g.id(), g.ts());
                out.push(json!({"ev": "mark", "ks": ks, "docs": [{"id": id.to_string(), "ts": ts.to_string(), "dig": ""}]}));
                live.entry(ks.clone()).or_default().remove(&id);
                s.mark_as_tombstone(&ks, id, ts).await.expect("mark_as_tombstone");
            },
            4 => {
                let n = g.rng.gen_range(0..4);
                let docs: Vec<DocumentMetadata> = (0..n).map(|_| DocumentMetadata::new(g.id(), g.ts())).collect();
                out.push(json!({"ev": "mark", "ks": ks, "docs": docs.iter().map(|d| json!({"id": d.id.to_string(), "ts": d.last_updated.to_string(), "dig": ""})).collect::<Vec<_>>()}));
                for d in &docs {
                    live.entry(ks.clone()).or_default().remove(&d.id);
                }
                s.mark_many_as_tombstone(&ks, docs.into_iter()).await.expect("mark_many_as_tombstone");
            },
            5 => {
                let n = g.rng.gen_range(0..4);
                let lv = live.entry(ks.clone()).or_default().clone();
                let ids: BTreeSet<u64> = (0..n).map(|_| g.id()).filter(|i| !lv.contains(i)).collect();
                out.push(json!({"ev": "remove_tombstones", "ks": ks, "ids": ids.iter().map(|i| i.to_string()).collect::<Vec<_>>()}));
                s.remove_tombstones(&ks, ids.into_iter()).await.expect("remove_tombstones");
            },
            6 | 7 => {
                let id = g.id();
                let d = s.get(&ks, id).await.expect("get");
                out.push(match d {
                    Some(d) => json!({"ev": "get", "ks": ks, "id": id.to_string(), "found": true, "ts": d.last_updated().to_string(), "dig": digest(d.data()), "same_id": d.id() == id}),
                    None => json!({"ev": "get", "ks": ks, "id": id.to_string(), "found": false, "ts": "", "dig": "", "same_id": true}),
                });
            },
            8 => {
                let n = g.rng.gen_range(0..5);
                let ids: BTreeSet<u64> = (0..n).map(|_| g.id()).collect();
                let docs: Vec<Document> = s.multi_get(&ks, ids.clone().into_iter()).await.expect("multi_get").collect();
                out.push(json!({"ev": "multi_get", "ks": ks, "ids": ids.iter().map(|i| i.to_string()).collect::<Vec<_>>(),
                    "docs": docs.iter().map(|d| json!({"id": d.id().to_string(), "ts": d.last_updated().to_string(), "dig": digest(d.data())})).collect::<Vec<_>>()}));
            },
            9 | 10 => {
                let entries: Vec<(u64, HLCTimestamp, bool)> = s.iter_metadata(&ks).await.expect("iter_metadata").collect();
                out.push(json!({"ev": "meta", "ks": ks, "entries": entries.iter().map(|e| json!({"id": e.0.to_string(), "ts": e.1.to_string(), "tomb": e.2})).collect::<Vec<_>>()}));
            },
            _ => {
                let names = s.get_keyspace_list().await.expect("get_keyspace_list");
                out.push(json!({"ev": "list", "names": names, "touched": touched.iter().collect::<Vec<_>>()}));
            },
        }
    }
}

pub async fn record() {
    let seed: u64 = arg_or("--seed", "1").parse().unwrap();
    let runs: u64 = arg_or("--runs", "8").parse().unwrap();
    let len: usize = arg_or("--len", "300").parse().unwrap();
    let out_path = arg_or("--out", "trace.ndjson");
    let dir = PathBuf::from(arg_or("--dir", "/dev/shm/verif-storage-random"));
    let _ = std::fs::remove_dir_all(&dir);
    std::fs::create_dir_all(&dir).unwrap();
    let mut f = std::io::BufWriter::new(std::fs::File::create(&out_path).expect("create trace"));
    let mut events = 0u64;
    for run in 0..runs {
        for backend in ["memstore", "sqlite-memory", "sqlite-file", "lmdb"] {
            let mut g = Gen { rng: StdRng::seed_from_u64(seed.wrapping_mul(1000) + run), ids: vec![] };
            g.ids = vec![0, 1, u64::MAX, i64::MAX as u64, i64::MAX as u64 + 1, g.rng.gen(), g.rng.gen(), g.rng.gen(), 42, 1 << 32];
            let mut out: Vec<Value> = vec![json!({"ev": "reset", "backend": backend, "run": run})];
            let mut live = BTreeMap::new();
            let mut touched = BTreeSet::new();
            match backend {
                "memstore" => {
                    let s = MemStore::default();
                    run_calls(&s, &mut g, len / 2, &mut out, &mut live, &mut touched).await;
                    if run % 4 == 0 {
                        oversized_put(&s, &mut g, &mut out, &mut live, &mut touched).await;
                    }
                    run_calls(&s, &mut g, len / 2, &mut out, &mut live, &mut touched).await;
                },
                "sqlite-memory" => {
                    let s = SqliteStorage::open_in_memory().await.unwrap();
                    run_calls(&s, &mut g, len / 2, &mut out, &mut live, &mut touched).await;
                    if run % 4 == 0 {
                        oversized_put(&s, &mut g, &mut out, &mut live, &mut touched).await;
                    }
                    run_calls(&s, &mut g, len / 2, &mut out, &mut live, &mut touched).await;
                },
                "sqlite-file" => {
                    let p = dir.join(format!("r{run}.db"));
                    let mut s = SqliteStorage::open(&p).await.unwrap();
                    for _ in 0..3 {
                        run_calls(&s, &mut g, len / 3, &mut out, &mut live, &mut touched).await;
                        drop(s);
                        tokio::time::sleep(Duration::from_millis(5)).await;
                        out.push(json!({"ev": "reopen"}));
                        s = SqliteStorage::open(&p).await.unwrap();
                    }
                    run_calls(&s, &mut g, 20, &mut out, &mut live, &mut touched).await;
                },
                _ => {
                    let p = dir.join(format!("lmdb-r{run}"));
                    std::fs::create_dir_all(&p).unwrap();
                    let mut s = LmdbStorage::open(&p).await.unwrap();
                    for i in 0..3 {
                        run_calls(&s, &mut g, len / 3, &mut out, &mut live, &mut touched).await;
                        if i == 0 && run % 2 == 0 {
                            // before a reopen, so that what a refused call left behind would survive it
                            oversized_put(&s, &mut g, &mut out, &mut live, &mut touched).await;
                        }
                        let env = s.handle().env().clone();
                        drop(s);
                        if i % 2 == 0 {
                            let _ = tokio::task::spawn_blocking(move || env.prepare_for_closing().wait()).await;
                        } else {
                            drop(env);
                        }
                        out.push(json!({"ev": "reopen"}));
                        s = LmdbStorage::open(&p).await.unwrap();
                    }
                    run_calls(&s, &mut g, 20, &mut out, &mut live, &mut touched).await;
                    let env = s.handle().env().clone();
                    drop(s);
                    let _ = tokio::task::spawn_blocking(move || env.prepare_for_closing().wait()).await;
                },
            }
            for e in out {
                writeln!(f, "{}", e).unwrap();
                events += 1;
            }
        }
    }
    f.flush().unwrap();
    let _ = std::fs::remove_dir_all(&dir);
    println!("{}", json!({"events": events, "runs": runs * 4}));
}
