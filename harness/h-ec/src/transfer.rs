//! C19: keyspace states transferred through the real `ReplicationService` handler and the real
//! `ReplicationClient::get_state` over loopback.
//!   replay-transfer : every distinct set state of an MC_OrswotOps edge stream (rebuilt on real
//!                     sets edge by edge), plus inflated states (thousands of keys, many origins)
//!   transfer-garbage: a server answering GetState with undecodable set bytes; the client must
//!                     report an error (run in a process of its own: a crash is data)

use std::collections::HashMap;
use std::sync::Arc;
use std::time::Duration;

use datacake_crdt::{HLCTimestamp, OrSWotSet};
use datacake_eventual_consistency::test_utils::MemStore;
use datacake_eventual_consistency::verif::{
    GetState, KeyspaceGroup, KeyspaceOrSwotSet, ReplicationClient, ReplicationService,
};
use datacake_node::Clock;
use datacake_rpc::{Channel, Handler, Request, RpcService, Server, ServiceRegistry, Status};
use rand::rngs::StdRng;
use rand::{Rng, SeedableRng};
use serde_json::{json, Value};
use vcommon::{arg_list_u64, arg_or, for_each_payload, open_input, Summary};

use crate::model::*;

type Set2 = OrSWotSet<2>;

fn free_addr() -> std::net::SocketAddr {
    vcommon::free_addr()
}

/// A port seen free may be taken by another process a moment later.
async fn listen_free() -> (std::net::SocketAddr, Server) {
    let mut last = None;
    for _ in 0..200 {
        let addr = free_addr();
        match Server::listen(addr).await {
            Ok(s) => return (addr, s),
            Err(e) => last = Some(e),
        }
    }
    eprintln!("tool error: no port to listen on: {last:?}");
    std::process::exit(2);
}

fn apply_op(scale: Scale, set: &mut Set2, op: &Value) {
    match op["kind"].as_str().unwrap() {
        "insert" => {
            set.insert_with_source(op["src"].as_u64().unwrap() as usize, op["key"].as_u64().unwrap(), scale.ts(&op["ts"]).unwrap());
        },
        "delete" => {
            set.delete_with_source(op["src"].as_u64().unwrap() as usize, op["key"].as_u64().unwrap(), scale.ts(&op["ts"]).unwrap());
        },
        "purge" => {
            set.purge_old_deletes();
        },
        other => panic!("op {other}"),
    }
}

/// observable equality of two sets: lookups, listed tombstones, and the accept / refuse decision
/// (will_apply and both mutators through both sources) for every probe operation
fn compare(a: &Set2, b: &Set2, keys: &[u64], probes: &[HLCTimestamp]) -> Vec<String> {
    let mut why = vec![];
    let empty = Set2::default();
    let (mut ea, mut da) = empty.diff(a);
    let (mut eb, mut db) = empty.diff(b);
    ea.sort();
    eb.sort();
    da.sort();
    db.sort();
    if ea != eb {
        why.push(format!("live ids/timestamps differ: sender {} entries, receiver {}", ea.len(), eb.len()));
    }
    if da != db {
        why.push(format!("tombstones differ: sender {} , receiver {}", da.len(), db.len()));
    }
    for k in keys {
        if a.get(k) != b.get(k) {
            why.push(format!("get({k}) differs"));
        }
        for ts in probes {
            if a.will_apply(*k, *ts) != b.will_apply(*k, *ts) {
                why.push(format!("will_apply({k}, {ts}) differs"));
            }
            for s in 0..2 {
                let (mut ca, mut cb) = (a.clone(), b.clone());
                if ca.insert_with_source(s, *k, *ts) != cb.insert_with_source(s, *k, *ts) || ca.get(k) != cb.get(k) {
                    why.push(format!("insert({k}, {ts}) through source {s} is decided differently"));
                }
                let (mut ca, mut cb) = (a.clone(), b.clone());
                if ca.delete_with_source(s, *k, *ts) != cb.delete_with_source(s, *k, *ts) || ca.get(k) != cb.get(k) {
                    why.push(format!("delete({k}, {ts}) through source {s} is decided differently"));
                }
            }
        }
        if why.len() > 6 {
            break;
        }
    }
    why
}

struct Rig {
    group: KeyspaceGroup<MemStore>,
    client: ReplicationClient<MemStore>,
    _server: Server,
    n: u64,
}

impl Rig {
    async fn new() -> Self {
        let clock = Clock::new(1);
        let group = KeyspaceGroup::new(Arc::new(MemStore::default()), clock.clone()).await;
        let (addr, server) = listen_free().await;
        server.add_service(ReplicationService::new(group.clone()));
        let client = ReplicationClient::<MemStore>::new(Clock::new(2), Channel::connect(addr));
        Rig { group, client, _server: server, n: 0 }
    }

    async fn fetch(&mut self, name: &str) -> Result<Set2, String> {
        match tokio::time::timeout(Duration::from_secs(20), self.client.get_state(name.to_string())).await {
            Ok(Ok((_, s))) => Ok(s),
            Ok(Err(status)) => Err(format!("get_state failed: {status:?}")),
            Err(_) => Err("get_state timed out".into()),
        }
    }

    async fn transfer(&mut self, set: &Set2) -> Result<Set2, String> {
        self.n += 1;
        let name = format!("s{}", self.n);
        self.group.add_state(name.clone(), set.clone()).await;
        self.fetch(&name).await
    }

    /// The same keyspace is fetched again after the sender purged its tombstones (no write in between):
    /// the peer must be handed the state as it is NOW.
    async fn refetch_after_purge(&mut self) -> Result<(Set2, Set2), String> {
        let name = format!("s{}", self.n);
        let actor = self.group.get_or_create_keyspace(&name).await;
        let _ = actor.send(datacake_eventual_consistency::verif::PurgeDeletes(std::marker::PhantomData::<MemStore>)).await;
        let now = crate::keyspace::decode_set(&actor.send(datacake_eventual_consistency::verif::Serialize).await.map_err(|_| "serialize".to_string())?);
        let got = self.fetch(&name).await?;
        Ok((now, got))
    }
}

pub async fn replay() {
    let f: u64 = arg_or("--f", "2").parse().unwrap();
    let scale = Scale::from_f(f);
    let keys = arg_list_u64("--keys", "1,2");
    let nodes = arg_list_u64("--nodes", "1,2");
    let times = arg_list_u64("--times", "0,1,2");
    let seed: u64 = arg_or("--seed", "1").parse().unwrap();
    let inflated: u64 = arg_or("--inflated", "20").parse().unwrap();
    let out = arg_or("--out", "-");
    let reader = open_input(&arg_or("--input", "-"));
    let passthrough = vcommon::arg("--passthrough");
    let mut probes = vec![];
    for t in &times {
        for n in &nodes {
            probes.push(scale.ts(&json!([t, 0, n])).unwrap());
        }
    }

    // 1. rebuild every distinct model state on a real set (no async work: collect first)
    let mut states: HashMap<String, Set2> = HashMap::new();
    let mut order: Vec<String> = vec![];
    let mut cur: Option<Set2> = None;
    for_each_payload(reader, passthrough.as_deref(), |tag, e| {
        if tag == "FROM" {
            let key = e["from"]["st"].to_string();
            if states.is_empty() {
                states.insert(key.clone(), Set2::default());
                order.push(key.clone());
            }
            cur = states.get(&key).cloned();
            return;
        }
        if tag != "EDGE" {
            return;
        }
        if let Some(pre) = cur.as_ref() {
            let key = e["to"]["st"].to_string();
            if !states.contains_key(&key) {
                let mut post = pre.clone();
                apply_op(scale, &mut post, &e["op"]);
                states.insert(key.clone(), post);
                order.push(key);
            }
        }
    });

    let mut sum = Summary::default();
    let mut rig = Rig::new().await;
    let (mut empty_states, mut tomb_only, mut both_sources) = (0u64, 0u64, 0u64);
    let mut refetches = 0u64;
    for key in &order {
        let set = &states[key];
        sum.evaluations += 1;
        let p = set.verif_project();
        if p.entries.is_empty() && p.dead.is_empty() {
            empty_states += 1;
        }
        if p.entries.is_empty() && !p.dead.is_empty() {
            tomb_only += 1;
        }
        if p.max_stamps.iter().all(|m| !m.is_empty()) {
            both_sources += 1;
        }
        match rig.transfer(set).await {
            Err(e) => sum.violation(json!({"property": "C19", "why": [e], "state": project(scale, set)})),
            Ok(got) => {
                let mut why = compare(set, &got, &keys, &probes);
                if project(scale, set) != project(scale, &got) {
                    why.push("the received state's internal projection differs from the sender's".into());
                }
                if !why.is_empty() {
                    sum.violation(json!({"property": "C19", "why": why, "state": project(scale, set), "received": project(scale, &got)}));
                }
                if sum.evaluations % 5000 == 1 {
                    sum.sample(json!({"state": project(scale, set), "received_equal": true}));
                }
                // states with purgeable tombstones: purge at the sender, fetch the same keyspace again
                if !set.clone().purge_old_deletes().is_empty() {
                    refetches += 1;
                    match rig.refetch_after_purge().await {
                        Err(e) => sum.violation(json!({"property": "C19", "why": [e], "state": project(scale, set)})),
                        Ok((now, got2)) => {
                            let mut why = compare(&now, &got2, &keys, &probes);
                            if project(scale, &now) != project(scale, &got2) {
                                why.push("after the sender purged its tombstones, a second fetch of the same keyspace is not the sender's current state".into());
                            }
                            if !why.is_empty() {
                                sum.violation(json!({"property": "C19", "why": why, "state_before_purge": project(scale, set),
                                                     "sender_now": project(scale, &now), "received": project(scale, &got2)}));
                            }
                        },
                    }
                }
            },
        }
    }

    // 2. inflated states: thousands of keys, many origins, both sources populated, purged tombstones
    let mut rng = StdRng::seed_from_u64(seed);
    let mut inflated_entries = 0u64;
    for i in 0..inflated {
        let n_keys: u64 = [0, 1, 10, 500, 5000, 20000][(i % 6) as usize];
        let n_nodes: u8 = [1, 2, 50, 200][(i % 4) as usize];
        let mut set = Set2::default();
        let mut t = 0u64;
        for k in 0..n_keys {
            t += rng.gen_range(1..3);
            let ts = HLCTimestamp::new(Duration::from_millis(t * 4), rng.gen_range(0..3), rng.gen_range(0..n_nodes));
            let src = rng.gen_range(0..2);
            let key = if rng.gen_bool(0.1) { rng.gen_range(0..n_keys.max(1)) } else { k.wrapping_mul(0x9E3779B97F4A7C15) };
            if rng.gen_bool(0.25) {
                set.delete_with_source(src, key, ts);
            } else {
                set.insert_with_source(src, key, ts);
            }
        }
        if i % 3 == 0 {
            set.purge_old_deletes();
        }
        let p = set.verif_project();
        inflated_entries += (p.entries.len() + p.dead.len()) as u64;
        sum.evaluations += 1;
        let probe_keys: Vec<u64> = p.entries.iter().take(3).map(|e| e.0).chain(p.dead.iter().take(3).map(|e| e.0)).chain([7u64]).collect();
        let probe_ts: Vec<HLCTimestamp> = vec![
            HLCTimestamp::new(Duration::from_millis(0), 0, 0),
            HLCTimestamp::new(Duration::from_millis(t * 2), 0, 1),
            HLCTimestamp::new(Duration::from_millis(t * 4 + 4), 1, 0),
        ];
        match rig.transfer(&set).await {
            Err(e) => sum.violation(json!({"property": "C19", "why": [e], "inflated": {"keys": n_keys, "nodes": n_nodes}})),
            Ok(got) => {
                let q = got.verif_project();
                let mut why = compare(&set, &got, &probe_keys, &probe_ts);
                if p.entries != q.entries || p.dead != q.dead || p.max_stamps != q.max_stamps || p.safe_stamps != q.safe_stamps {
                    why.push("the received state's internal projection differs from the sender's".into());
                }
                if !why.is_empty() {
                    sum.violation(json!({"property": "C19", "why": why, "inflated": {"keys": n_keys, "nodes": n_nodes}}));
                }
                sum.sample(json!({"inflated": {"keys": n_keys, "origins": n_nodes, "entries": p.entries.len(), "tombstones": p.dead.len()}, "received_equal": true}));
            },
        }
    }
    sum.set("model_states", order.len() as u64);
    sum.set("refetches_after_purge", refetches);
    sum.set("inflated_states", inflated);
    sum.set("inflated_entries", inflated_entries);
    sum.set("empty_states", empty_states);
    sum.set("tombstone_only_states", tomb_only);
    sum.set("both_sources_populated", both_sources);
    sum.write(&out);
}

// ------------------------------------------------------------------ undecodable states

/// Answers GetState under the real service's name with a valid outer frame whose nested
/// set bytes are garbage.
pub struct FakeReplication {
    bytes: Vec<u8>,
}

impl RpcService for FakeReplication {
    fn service_name() -> &'static str {
        <ReplicationService<MemStore> as RpcService>::service_name()
    }

    fn register_handlers(registry: &mut ServiceRegistry<Self>) {
        registry.add_handler::<GetState>();
    }
}

#[datacake_rpc::async_trait]
impl Handler<GetState> for FakeReplication {
    type Reply = KeyspaceOrSwotSet;

    async fn on_message(&self, _msg: Request<GetState>) -> Result<Self::Reply, Status> {
        let ts = HLCTimestamp::new(Duration::from_secs(1), 0, 7);
        Ok(KeyspaceOrSwotSet { timestamp: ts, last_updated: ts, set: self.bytes.clone() })
    }
}

/// One garbage case per process invocation: prints {"case":..,"outcome":"error"|"used"|...}
pub async fn garbage() {
    let case: u64 = arg_or("--case", "0").parse().unwrap();
    let seed: u64 = arg_or("--seed", "1").parse().unwrap();
    let mut rng = StdRng::seed_from_u64(seed.wrapping_mul(1000).wrapping_add(case));
    // a genuine serialised set to damage
    let mut set = Set2::default();
    for k in 0..40u64 {
        let ts = HLCTimestamp::new(Duration::from_secs(10 + k), 0, (k % 3) as u8);
        if k % 4 == 0 {
            set.delete_with_source((k % 2) as usize, k, ts);
        } else {
            set.insert_with_source((k % 2) as usize, k, ts);
        }
    }
    let good = rkyv::to_bytes::<_, 4096>(&set).unwrap().into_vec();
    let (name, bytes): (&str, Vec<u8>) = match case % 6 {
        0 => ("empty", vec![]),
        1 => ("truncated", good[..rng.gen_range(1..good.len())].to_vec()),
        2 => ("random", (0..rng.gen_range(1..600)).map(|_| rng.gen()).collect()),
        3 => {
            let mut b = good.clone();
            for _ in 0..rng.gen_range(1..8) {
                let i = rng.gen_range(0..b.len());
                b[i] ^= 1 << rng.gen_range(0..8);
            }
            ("bit-flips", b)
        },
        4 => {
            let mut b = good.clone();
            let n = b.len();
            for x in b[n - 64..].iter_mut() {
                *x = 0xFF;
            }
            ("root-overwritten", b)
        },
        _ => ("zeros", vec![0u8; rng.gen_range(1..300)]),
    };
    let (addr, server) = listen_free().await;
    server.add_service(FakeReplication { bytes: bytes.clone() });
    let mut client = ReplicationClient::<MemStore>::new(Clock::new(2), Channel::connect(addr));
    println!("{}", json!({"case": case, "kind": name, "len": bytes.len(), "stage": "calling"}));
    let r = tokio::time::timeout(Duration::from_secs(20), client.get_state("ks")).await;
    let outcome = match r {
        Err(_) => "timeout".to_string(),
        Ok(Err(s)) => format!("error:{:?}", s.code),
        Ok(Ok((_, got))) => {
            // it was handed to the caller as a usable state: is it at least the sender's state?
            let same = bytes == good;
            let p = std::panic::catch_unwind(std::panic::AssertUnwindSafe(|| got.verif_project().entries.len()));
            format!("used(same_as_sender={},entries={:?})", same, p.ok())
        },
    };
    println!("{}", json!({"case": case, "kind": name, "len": bytes.len(), "outcome": outcome}));
}
