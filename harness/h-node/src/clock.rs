//! C11 (V): the real node `Clock` hammered by several tasks; caller-side start/end events and the
//! actor-side hook events share one process-wide sequence number. Many short runs, separated by
//! reset events, so the trace specification's bookkeeping stays small.

use std::io::Write;
use std::sync::atomic::{AtomicU64, Ordering};
use std::sync::Arc;
use std::time::Duration;

use datacake_crdt::{verif, HLCTimestamp};
use datacake_node::Clock;
use rand::rngs::StdRng;
use rand::{Rng, SeedableRng};
use serde_json::{json, Value};
use vcommon::arg_or;

const DRIFT: u64 = 4100 * 250;
const NODE: u8 = 1;

fn ts_json(ts: HLCTimestamp) -> Value {
    json!([ts.seconds() * 250 + ts.fractional() as u64, ts.counter(), ts.node()])
}

async fn one_run(run: u64, seed: u64, tasks: u64, calls: u64) {
    let base: u64 = 1000 + (run % 7) * 100;
    verif::set_node_wall(NODE, Some(Duration::from_millis(base * 4)));
    let clock = Clock::new(NODE);
    let uniq = Arc::new(AtomicU64::new(0));
    let ids = Arc::new(AtomicU64::new(0));
    let wall = Arc::new(AtomicU64::new(base));
    let mut handles = vec![];
    for t in 0..tasks {
        let clock = clock.clone();
        let uniq = uniq.clone();
        let ids = ids.clone();
        let wall = wall.clone();
        handles.push(tokio::spawn(async move {
            let mut rng = StdRng::seed_from_u64(seed.wrapping_mul(7919).wrapping_add(run * 131 + t));
            for _ in 0..calls {
                let id = ids.fetch_add(1, Ordering::SeqCst);
                if rng.gen_bool(0.6) {
                    verif::emit(|seq| json!({"ev": "start", "seq": seq, "task": t, "id": id, "call": "get", "ts": []}).to_string());
                    let out = clock.get_time().await;
                    verif::emit(|seq| json!({"ev": "end", "seq": seq, "task": t, "id": id, "call": "get", "out": ts_json(out), "ts": []}).to_string());
                } else {
                    // unique remote stamps: the counter field carries a run-wide serial number
                    let serial = uniq.fetch_add(1, Ordering::SeqCst) as u16;
                    let time = match rng.gen_range(0..6) {
                        0 => base.saturating_sub(rng.gen_range(0..50)),
                        1 => base + rng.gen_range(0..50),
                        // always acceptable / never acceptable whatever the (creeping) wall clock reads:
                        // the wall clock stays within [base, base + 20]
                        2 => base + DRIFT - rng.gen_range(0..3),
                        3 => base + DRIFT + 21 + rng.gen_range(0..10),
                        4 => base + rng.gen_range(0..DRIFT),
                        _ => base,
                    };
                    let node = if rng.gen_bool(0.1) { NODE } else { 2 + rng.gen_range(0..3) };
                    let remote = HLCTimestamp::new(Duration::from_millis(time * 4), serial, node);
                    verif::emit(|seq| json!({"ev": "start", "seq": seq, "task": t, "id": id, "call": "reg", "ts": ts_json(remote)}).to_string());
                    clock.register_ts(remote).await;
                    verif::emit(|seq| json!({"ev": "end", "seq": seq, "task": t, "id": id, "call": "reg", "out": [], "ts": ts_json(remote)}).to_string());
                }
                if rng.gen_bool(0.3) {
                    tokio::task::yield_now().await;
                }
                if rng.gen_bool(0.05) {
                    // the wall clock stalls or creeps forward (a wall clock stepping BACK right after a remote
                    // stamp at the drift boundary was accepted makes `clock.send()` fail, and run_clock
                    // `expect`s success: the actor dies. That is outside C11 and recorded in DESIGN.md.)
                    let w = wall.fetch_add(rng.gen_range(0..2), Ordering::SeqCst).min(base + 20);
                    verif::set_node_wall(NODE, Some(Duration::from_millis(w * 4)));
                }
            }
        }));
    }
    for h in handles {
        h.await.expect("task");
    }
    // let the actor drain the fire-and-forget registrations
    let _ = clock.get_time().await;
}

/// More callers than the clock's channel holds (1000). The getters are polled once each by this task without
/// yielding, so their requests sit in the channel (the actor has not run yet) and the channel is full when the
/// registration is made. The registration must still take effect before anything requested after it returned.
async fn flood_run(getters: u64) {
    use std::future::Future;
    use std::pin::Pin;
    use std::task::Poll;
    let base: u64 = 5000;
    verif::set_node_wall(NODE, Some(Duration::from_millis(base * 4)));
    let clock = Clock::new(NODE);
    let mut futs: Vec<Pin<Box<dyn Future<Output = ()>>>> = vec![];
    for t in 1..=getters {
        let clock = clock.clone();
        futs.push(Box::pin(async move {
            verif::emit(|seq| json!({"ev": "start", "seq": seq, "task": t, "id": t, "call": "get", "ts": []}).to_string());
            let out = clock.get_time().await;
            verif::emit(|seq| json!({"ev": "end", "seq": seq, "task": t, "id": t, "call": "get", "out": ts_json(out), "ts": []}).to_string());
        }));
    }
    std::future::poll_fn(|cx| {
        for f in futs.iter_mut() {
            let _ = f.as_mut().poll(cx);
        }
        Poll::Ready(())
    })
    .await;
    let remote = HLCTimestamp::new(Duration::from_millis((base + 1000) * 4), 7, 2);
    let id = getters + 1;
    verif::emit(|seq| json!({"ev": "start", "seq": seq, "task": 0, "id": id, "call": "reg", "ts": ts_json(remote)}).to_string());
    clock.register_ts(remote).await;
    verif::emit(|seq| json!({"ev": "end", "seq": seq, "task": 0, "id": id, "call": "reg", "out": [], "ts": ts_json(remote)}).to_string());
    let id = getters + 2;
    verif::emit(|seq| json!({"ev": "start", "seq": seq, "task": 0, "id": id, "call": "get", "ts": []}).to_string());
    let out = clock.get_time().await;
    verif::emit(|seq| json!({"ev": "end", "seq": seq, "task": 0, "id": id, "call": "get", "out": ts_json(out), "ts": []}).to_string());
    for f in futs {
        f.await;
    }
}

/// The clock is ahead of the wall clock (a remote stamp was registered) and its counter is next to the actor's
/// back-pressure limit (u16::MAX - 10): the stamps handed out across the limit must keep increasing and stay above
/// the registered stamp.  `gets` is kept small enough for the counter not to run out.
async fn limit_run(remote_counter: u16, gets: u64) {
    let base: u64 = 7000;
    verif::set_node_wall(NODE, Some(Duration::from_millis(base * 4)));
    let clock = Clock::new(NODE);
    let remote = HLCTimestamp::new(Duration::from_millis((base + 50) * 4), remote_counter, 2);
    verif::emit(|seq| json!({"ev": "start", "seq": seq, "task": 0, "id": 0, "call": "reg", "ts": ts_json(remote)}).to_string());
    clock.register_ts(remote).await;
    verif::emit(|seq| json!({"ev": "end", "seq": seq, "task": 0, "id": 0, "call": "reg", "out": [], "ts": ts_json(remote)}).to_string());
    for id in 1..=gets {
        verif::emit(|seq| json!({"ev": "start", "seq": seq, "task": 0, "id": id, "call": "get", "ts": []}).to_string());
        let out = clock.get_time().await;
        verif::emit(|seq| json!({"ev": "end", "seq": seq, "task": 0, "id": id, "call": "get", "out": ts_json(out), "ts": []}).to_string());
    }
}

pub fn record() {
    let seed: u64 = arg_or("--seed", "1").parse().unwrap();
    let runs: u64 = arg_or("--runs", "40").parse().unwrap();
    let out = arg_or("--out", "trace.ndjson");
    let mut f = std::io::BufWriter::new(std::fs::File::create(&out).expect("create trace"));
    let mut events = 0u64;
    for run in 0..runs {
        let tasks = 2 + run % 7;
        let calls = 20 + (run % 3) * 20;
        let multi = run % 2 == 1;
        let rt = if multi {
            tokio::runtime::Builder::new_multi_thread().worker_threads(8).enable_all().build().unwrap()
        } else {
            tokio::runtime::Builder::new_current_thread().enable_all().build().unwrap()
        };
        verif::start_recording();
        rt.block_on(one_run(run, seed, tasks, calls));
        let evs = verif::take_events();
        rt.shutdown_background();
        writeln!(f, "{}", json!({"ev": "reset", "run": run, "node": NODE, "tasks": tasks, "runtime": if multi { "multi-thread" } else { "current-thread" }})).unwrap();
        for e in evs {
            writeln!(f, "{}", e).unwrap();
            events += 1;
        }
    }
    for getters in [1100u64, 1500] {
        let rt = tokio::runtime::Builder::new_current_thread().enable_all().build().unwrap();
        verif::start_recording();
        rt.block_on(flood_run(getters));
        let evs = verif::take_events();
        rt.shutdown_background();
        writeln!(f, "{}", json!({"ev": "reset", "run": format!("flood-{getters}"), "node": NODE, "tasks": getters + 1, "runtime": "current-thread"})).unwrap();
        for e in evs {
            writeln!(f, "{}", e).unwrap();
            events += 1;
        }
    }
    for (remote_counter, gets) in [(65_520u16, 8u64), (65_530, 3), (65_523, 6)] {
        let rt = tokio::runtime::Builder::new_current_thread().enable_all().build().unwrap();
        verif::start_recording();
        rt.block_on(limit_run(remote_counter, gets));
        let evs = verif::take_events();
        rt.shutdown_background();
        writeln!(f, "{}", json!({"ev": "reset", "run": format!("limit-{remote_counter}"), "node": NODE, "tasks": 1, "runtime": "current-thread"})).unwrap();
        for e in evs {
            writeln!(f, "{}", e).unwrap();
            events += 1;
        }
    }
    f.flush().unwrap();
    verif::set_node_wall(NODE, None);
    println!("{}", json!({"runs": runs, "events": events}));
}
