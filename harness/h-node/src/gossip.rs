//! Gossip transport (V): real gossip endpoints - the real `ChitchatService` on a real RPC server and the real
//! `ChitchatTransport` socket, three nodes on loopback plus an address nobody listens on - are driven by one task that
//! issues sends and receives one after the other; every call and its result is recorded for Trace_Gossip.tla.

use std::io::Write;
use std::net::SocketAddr;
use std::time::Duration;

use datacake_node::verif::{gossip_endpoint, GossipEndpoint};
use datacake_node::{Clock, RpcNetwork};
use datacake_rpc::Server;
use rand::rngs::StdRng;
use rand::{Rng, SeedableRng};
use serde_json::json;
use vcommon::arg_or;

async fn listen_free() -> (SocketAddr, Server) {
    for _ in 0..200 {
        let addr = vcommon::free_addr();
        if let Ok(s) = Server::listen(addr).await {
            return (addr, s);
        }
    }
    eprintln!("tool error: no port to listen on");
    std::process::exit(2);
}

struct Node {
    addr: SocketAddr,
    end: GossipEndpoint,
    _server: Server,
}

pub async fn record() {
    let out = arg_or("--out", "gossip.ndjson");
    let seed: u64 = arg_or("--seed", "1").parse().unwrap();
    let runs: u64 = arg_or("--runs", "20").parse().unwrap();
    let len: usize = arg_or("--len", "120").parse().unwrap();
    let mut f = std::io::BufWriter::new(std::fs::File::create(&out).expect("create trace"));
    let (mut sends, mut recvs, mut empties, mut refused) = (0u64, 0u64, 0u64, 0u64);
    for run in 0..runs {
        let mut rng = StdRng::seed_from_u64(seed * 7919 + run);
        let cap = [1usize, 2, 3, 5][(run % 4) as usize];
        let mut nodes: Vec<Node> = vec![];
        for id in 1..=3u8 {
            let (addr, server) = listen_free().await;
            let end = gossip_endpoint(addr, Clock::new(id), RpcNetwork::default(), &server, cap).await;
            nodes.push(Node { addr, end, _server: server });
        }
        // an address nobody listens on (node number 9 in the trace)
        let ghost = vcommon::free_addr();
        let number_of = |a: SocketAddr, nodes: &Vec<Node>| -> u64 { nodes.iter().position(|n| n.addr == a).map(|i| i as u64 + 1).unwrap_or(9) };
        writeln!(f, "{}", json!({"ev": "reset", "cap": cap, "run": run})).unwrap();
        let mut in_flight_estimate = [0usize; 3];
        for step in 0..len {
            let a = rng.gen_range(0..3usize);
            if rng.gen_bool(0.6) {
                // send to another node, now and then to the address nobody listens on or an empty (BadCluster) message
                let to_ghost = rng.gen_range(0..12) == 0;
                let b = (a + 1 + rng.gen_range(0..2usize)) % 3;
                let to = if to_ghost { ghost } else { nodes[b].addr };
                let tag = if rng.gen_range(0..15) == 0 { String::new() } else { format!("r{run}s{step}") };
                let res = nodes[a].end.send(to, &tag).await;
                sends += 1;
                if res.is_err() {
                    refused += 1;
                } else if !to_ghost {
                    in_flight_estimate[b] += 1;
                }
                writeln!(f, "{}", json!({"ev": "send", "from": a as u64 + 1, "to": if to_ghost { 9 } else { b as u64 + 1 }, "tag": tag, "ok": res.is_ok()})).unwrap();
            } else {
                // the socket's recv waits for a message; 300 ms without one is recorded as an empty inbox (every send
                // has returned before, so whatever was accepted is already there)
                match tokio::time::timeout(Duration::from_millis(if in_flight_estimate[a] == 0 { 40 } else { 300 }), nodes[a].end.recv()).await {
                    Ok(Ok((src, tag))) => {
                        recvs += 1;
                        in_flight_estimate[a] = in_flight_estimate[a].saturating_sub(1);
                        let srcn = number_of(src, &nodes);
                        writeln!(f, "{}", json!({"ev": "recv", "node": a as u64 + 1, "src": srcn, "tag": tag})).unwrap();
                    },
                    Ok(Err(e)) => {
                        eprintln!("tool error: recv failed: {e}");
                        std::process::exit(2);
                    },
                    Err(_) => {
                        empties += 1;
                        in_flight_estimate[a] = 0;
                        writeln!(f, "{}", json!({"ev": "empty", "node": a as u64 + 1})).unwrap();
                    },
                }
            }
        }
    }
    f.flush().unwrap();
    println!("{}", json!({"runs": runs, "sends": sends, "recvs": recvs, "empties": empties, "refused_sends": refused}));
}
