mod selector;

fn main() {
    let cmd = std::env::args().nth(1).unwrap_or_default();
    let rt = tokio::runtime::Builder::new_multi_thread().worker_threads(8).enable_all().build().unwrap();
    match cmd.as_str() {
        "replay-selector" => rt.block_on(selector::replay()),
        other => {
            eprintln!("unknown command {other:?}");
            std::process::exit(2);
        },
    }
}
