mod clock;
mod gossip;
mod source;
mod membership;
mod selector;

fn main() {
    let cmd = std::env::args().nth(1).unwrap_or_default();
    if cmd == "record-clock" {
        return clock::record();
    }
    let rt = tokio::runtime::Builder::new_multi_thread().worker_threads(8).enable_all().build().unwrap();
    match cmd.as_str() {
        "replay-selector" => rt.block_on(selector::replay()),
        "record-gossip" => rt.block_on(gossip::record()),
        "record-source" => rt.block_on(source::record()),
        // paused clock on one thread: a timeout fires only when every task is idle, so "the watcher did not
        // publish" is a deterministic observation and not a matter of load
        "replay-membership" => tokio::runtime::Builder::new_current_thread()
            .enable_all()
            .start_paused(true)
            .build()
            .unwrap()
            .block_on(membership::replay()),
        other => {
            eprintln!("unknown command {other:?}");
            std::process::exit(2);
        },
    }
}

/// A TLA+ function as (domain element, value) pairs. Sequences are 1-based.
pub fn model_fn_items(v: &serde_json::Value) -> Vec<(u64, &serde_json::Value)> {
    match v {
        serde_json::Value::Array(a) => a.iter().enumerate().map(|(i, x)| (i as u64 + 1, x)).collect(),
        serde_json::Value::Object(m) => {
            let mut out: Vec<(u64, &serde_json::Value)> = m.iter().map(|(k, x)| (k.parse().expect("numeric domain"), x)).collect();
            out.sort_by_key(|p| p.0);
            out
        },
        _ => panic!("not a function: {v}"),
    }
}
