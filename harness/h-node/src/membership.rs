//! C16 (G): every behaviour emitted by Membership.tla (publishes of membership snapshots, the
//! moment of subscription, the placement of the subscriber's reads) is replayed on the real
//! `watch_membership_changes` task and a real `WatchStream` subscriber that applies each delta
//! the way the distributor / poller do (remove `left`, insert `joined`).

use std::borrow::Cow;
use std::collections::{BTreeMap, BTreeSet};
use std::net::{IpAddr, Ipv4Addr, SocketAddr};
use std::time::Duration;

use datacake_node::verif::{spawn_membership_watcher, start_node_selector, NodeMembership};
use datacake_node::{ClusterMember, DCAwareSelector, MembershipChange};
use futures::StreamExt;
use serde_json::{json, Value};
use tokio::sync::watch;
use tokio_stream::wrappers::WatchStream;
use vcommon::{arg_or, for_each_payload, open_input, Summary};

use crate::model_fn_items as fn_items;

const SELF_ID: u8 = 0;

/// The model's addresses are shared between node ids (a snapshot may show two ids behind one address, one after the
/// other or at the same time - a host that came back under a new id), and so are the real ones: the address does not
/// depend on the id.
fn addr(id: u64, a: u64) -> SocketAddr {
    let _ = id;
    SocketAddr::new(IpAddr::V4(Ipv4Addr::new(10, 1, 0, a as u8)), 7000)
}

fn pair_of(m: &ClusterMember) -> (u64, u64) {
    match m.public_addr.ip() {
        IpAddr::V4(v4) => (m.node_id as u64, v4.octets()[3] as u64),
        _ => (m.node_id as u64, 0),
    }
}

fn snapshot(snap: &Value) -> NodeMembership {
    let mut m = NodeMembership::new();
    m.insert(SELF_ID, ClusterMember::new(SELF_ID, addr(0, 9), "dc1".to_string()));
    for (id, a) in fn_items(snap) {
        let a = a.as_u64().unwrap();
        if a != 0 {
            m.insert(id as u8, ClusterMember::new(id as u8, addr(id, a), "dc1".to_string()));
        }
    }
    m
}

fn pairs(v: &Value) -> BTreeSet<(u64, u64)> {
    v.as_array().unwrap().iter().map(|p| (p[0].as_u64().unwrap(), p[1].as_u64().unwrap())).collect()
}

struct Outcome {
    violation: Option<Value>,
    known: Option<Value>,
    tool_error: Option<String>,
    reads: u64,
    pubs: u64,
    sample: Value,
}

async fn run_history(h: Value) -> Outcome {
    let mut out = Outcome { violation: None, known: None, tool_error: None, reads: 0, pubs: 0, sample: Value::Null };
    let selector = start_node_selector(addr(0, 9), Cow::Borrowed("dc1"), DCAwareSelector::default()).await;
    let (snap_tx, snap_rx) = watch::channel(snapshot(&json!([])));
    let (changes_rx, _network, _stats) = spawn_membership_watcher(SELF_ID, selector, snap_rx);
    let mut observer = changes_rx.clone();
    // the watcher publishes once for the initial snapshot (self only): wait for it
    if tokio::time::timeout(Duration::from_secs(5), observer.changed()).await.is_err() {
        out.tool_error = Some("watcher did not publish the initial snapshot".into());
        return out;
    }
    let mut stream: Option<WatchStream<MembershipChange>> = None;
    let mut map: BTreeMap<u64, u64> = BTreeMap::new();
    let mut observed = vec![];
    for (i, step) in h["hist"].as_array().unwrap().iter().enumerate() {
        match step["op"].as_str().unwrap() {
            "pub" => {
                out.pubs += 1;
                snap_tx.send(snapshot(&step["snap"])).expect("watcher alive");
                if tokio::time::timeout(Duration::from_secs(5), observer.changed()).await.is_err() {
                    // the clock is paused: the watcher is idle and has published nothing for a snapshot that differs
                    // from the previous one
                    out.violation = Some(json!({"property": "C16", "step": i + 1, "history": h["hist"],
                        "why": [format!("the membership changed (left {:?}, joined {:?}) and no change was published",
                                        pairs(&step["left"]), pairs(&step["joined"]))]}));
                    return out;
                }
                let delta = observer.borrow_and_update().clone();
                let left: BTreeSet<(u64, u64)> = delta.left.iter().map(pair_of).collect();
                let joined: BTreeSet<(u64, u64)> = delta.joined.iter().map(pair_of).collect();
                observed.push(json!({"pub": {"left": left, "joined": joined}}));
                if (left != pairs(&step["left"]) || joined != pairs(&step["joined"])) && out.violation.is_none() {
                    out.violation = Some(json!({"property": "C16", "step": i + 1, "history": h["hist"],
                        "why": [format!("the published change reports left {:?} / joined {:?}; what disappeared (with the address it had) is {:?}, what appeared is {:?}",
                                        left, joined, pairs(&step["left"]), pairs(&step["joined"]))]}));
                }
            },
            "sub" => {
                // exactly what DatacakeNode::membership_changes() does
                stream = Some(WatchStream::new(changes_rx.clone()));
            },
            "read" => {
                out.reads += 1;
                let s = stream.as_mut().expect("read before sub");
                let delta = match tokio::time::timeout(Duration::from_secs(5), s.next()).await {
                    Ok(Some(d)) => d,
                    _ => {
                        out.tool_error = Some(format!("step {}: the model says a change is readable but the stream yields nothing", i + 1));
                        return out;
                    },
                };
                for m in delta.left.iter() {
                    map.remove(&(m.node_id as u64));
                }
                for m in delta.joined.iter() {
                    map.insert(m.node_id as u64, pair_of(m).1);
                }
                let expect: BTreeMap<u64, u64> = fn_items(&step["expect"])
                    .into_iter()
                    .map(|(id, a)| (id, a.as_u64().unwrap()))
                    .filter(|(_, a)| *a != 0)
                    .collect();
                observed.push(json!({"read": map}));
                if map != expect {
                    let late = step["late"].as_bool().unwrap();
                    let skipped = step["skipped"].as_bool().unwrap();
                    let v = json!({"property": "C16", "step": i + 1, "history": h["hist"], "late": late, "skipped": skipped,
                        "why": [format!("after reading everything available the subscriber holds {:?} but the live membership is {:?}", map, expect)]});
                    if late || skipped {
                        if out.known.is_none() {
                            out.known = Some(v);
                        }
                    } else if out.violation.is_none() {
                        out.violation = Some(v);
                    }
                }
            },
            other => panic!("step {other}"),
        }
    }
    out.sample = json!({"history": h["hist"], "observed": observed});
    out
}

pub async fn replay() {
    let input = arg_or("--input", "-");
    let out_path = arg_or("--out", "-");
    let passthrough = vcommon::arg("--passthrough");
    let conc: usize = arg_or("--concurrency", "128").parse().unwrap();
    let mut hists: Vec<Value> = vec![];
    for_each_payload(open_input(&input), passthrough.as_deref(), |tag, v| {
        if tag == "HIST" {
            hists.push(v);
        }
    });
    let mut sum = Summary::default();
    let mut known_late = 0u64;
    let mut known_skipped = 0u64;
    let mut known_samples: Vec<Value> = vec![];
    let (mut reads, mut pubs) = (0u64, 0u64);
    let mut set = tokio::task::JoinSet::new();
    let mut it = hists.into_iter();
    loop {
        while set.len() < conc {
            match it.next() {
                Some(h) => {
                    set.spawn(run_history(h));
                },
                None => break,
            }
        }
        match set.join_next().await {
            None => break,
            Some(r) => {
                let o = r.expect("history task");
                sum.evaluations += 1;
                reads += o.reads;
                pubs += o.pubs;
                if let Some(e) = o.tool_error {
                    eprintln!("tool error: {e}");
                    std::process::exit(2);
                }
                if let Some(v) = o.violation {
                    sum.violation(v);
                }
                if let Some(k) = o.known {
                    if k["late"] == true {
                        known_late += 1;
                    }
                    if k["skipped"] == true {
                        known_skipped += 1;
                    }
                    if known_samples.len() < 4 {
                        known_samples.push(k);
                    }
                }
                if sum.evaluations % 2000 == 1 {
                    sum.sample(o.sample);
                }
            },
        }
    }
    sum.set("reads", reads);
    sum.set("publishes", pubs);
    sum.set("known_late", known_late);
    sum.set("known_skipped", known_skipped);
    sum.set("known_samples", json!(known_samples));
    sum.write(&out_path);
}
