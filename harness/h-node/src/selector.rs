//! C15: every history of membership updates / selections emitted by MC_Selector is replayed on
//! the real selector actor (`start_node_selector` + `DCAwareSelector`); each selection's outcome
//! is logged (de-duplicated) for validation by Trace_Selector.tla against `Allowed`.

use std::borrow::Cow;
use std::collections::BTreeMap;
use std::io::Write;
use std::net::{IpAddr, Ipv4Addr, SocketAddr};
use std::time::Duration;

use datacake_node::verif::{set_nodes, start_node_selector};
use datacake_node::{Consistency, ConsistencyError, DCAwareSelector, Nodes};
use serde_json::{json, Value};
use vcommon::{arg_or, for_each_payload, open_input};

fn addr(dc: u64, idx: u64) -> SocketAddr {
    SocketAddr::new(IpAddr::V4(Ipv4Addr::new(10, 0, dc as u8, idx as u8)), 7000)
}

fn node_of(a: &SocketAddr) -> Value {
    match a.ip() {
        IpAddr::V4(v4) => json!([v4.octets()[2], v4.octets()[3]]),
        _ => json!(null),
    }
}

fn level(s: &str) -> Consistency {
    match s {
        "None" => Consistency::None,
        "One" => Consistency::One,
        "Two" => Consistency::Two,
        "Three" => Consistency::Three,
        "Quorum" => Consistency::Quorum,
        "LocalQuorum" => Consistency::LocalQuorum,
        "All" => Consistency::All,
        "EachQuorum" => Consistency::EachQuorum,
        other => panic!("level {other}"),
    }
}

/// Where the local node sits: the member lists are rotated left by `rot` (so the local node, index 1 of data centre 1,
/// is not the first entry of its list), and with `local_last` the local data centre's name sorts after all others.
/// The specification's postcondition does not depend on either; the code's cursors do.
#[derive(Clone, Copy)]
struct Variant {
    rot: usize,
    local_last: bool,
}

fn dc_name(d: usize, v: Variant) -> String {
    if d == 0 && v.local_last {
        "dcz".to_string()
    } else {
        format!("dc{}", d + 1)
    }
}

fn layout_map(layout: &Value, v: Variant) -> BTreeMap<Cow<'static, str>, Nodes> {
    // layout: per data centre the list of member indexes (empty = data centre absent)
    let mut m = BTreeMap::new();
    for (d, members) in layout.as_array().unwrap().iter().enumerate() {
        let members = members.as_array().unwrap();
        if members.is_empty() {
            continue;
        }
        let mut list: Vec<u64> = members.iter().map(|i| i.as_u64().unwrap()).collect();
        let r = v.rot % list.len();
        list.rotate_left(r);
        let mut nodes = Nodes::new();
        for i in list {
            nodes.push(addr(d as u64 + 1, i));
        }
        m.insert(Cow::Owned(dc_name(d, v)), nodes);
    }
    m
}

/// Runs one history on a fresh actor; returns (event key, event, history index) per selection.
async fn run_history(h: Value, v: Variant) -> Vec<(String, Value)> {
    let handle = start_node_selector(addr(1, 1), Cow::Owned(dc_name(0, v)), DCAwareSelector::default()).await;
    let mut layout = Value::Null;
    let mut out = vec![];
    for step in h["hist"].as_array().unwrap() {
        match step["op"].as_str().unwrap() {
            "set" => {
                layout = step["layout"].clone();
                set_nodes(&handle, layout_map(&layout, v)).await;
            },
            "wait" => tokio::time::sleep(Duration::from_millis(2100)).await,
            "select" => {
                let lv = step["level"].as_str().unwrap();
                let ev = match handle.get_nodes(level(lv)).await {
                    Ok(nodes) => json!({"layout": layout, "level": lv, "ok": true, "variant": [v.rot, v.local_last],
                                        "result": nodes.iter().map(node_of).collect::<Vec<_>>()}),
                    Err(ConsistencyError::NotEnoughNodes { live, required }) => {
                        json!({"layout": layout, "level": lv, "ok": false, "result": [], "live": live, "required": required})
                    },
                    Err(e) => json!({"layout": layout, "level": lv, "ok": false, "result": [], "error": e.to_string()}),
                };
                out.push((ev.to_string(), ev));
            },
            other => panic!("step {other}"),
        }
    }
    out
}

pub async fn replay() {
    let input = arg_or("--input", "-");
    let out = arg_or("--out", "trace.ndjson");
    let passthrough = vcommon::arg("--passthrough");
    let conc: usize = arg_or("--concurrency", "256").parse().unwrap();
    let mut hists: Vec<Value> = vec![];
    for_each_payload(open_input(&input), passthrough.as_deref(), |tag, v| {
        if tag == "HIST" {
            hists.push(v);
        }
    });
    let total = hists.len();
    let mut events: BTreeMap<String, (Value, u64, Value)> = BTreeMap::new();
    let mut selections = 0u64;
    let mut set = tokio::task::JoinSet::new();
    // every history with the local node in four different positions
    let variants = [Variant { rot: 0, local_last: false }, Variant { rot: 1, local_last: true },
                    Variant { rot: 2, local_last: false }, Variant { rot: 3, local_last: true }];
    let with_wait = |h: &Value| h["hist"].as_array().unwrap().iter().any(|s| s["op"] == "wait");
    let jobs: Vec<(Value, Variant)> = hists
        .into_iter()
        .flat_map(|h| {
            let n = if with_wait(&h) { 1 } else { variants.len() };
            variants[..n].iter().map(move |v| (h.clone(), *v)).collect::<Vec<_>>()
        })
        .collect();
    let mut it = jobs.into_iter();
    loop {
        while set.len() < conc {
            match it.next() {
                Some((h, v)) => {
                    let hc = h.clone();
                    set.spawn(async move { (hc, run_history(h, v).await) });
                },
                None => break,
            }
        }
        match set.join_next().await {
            None => break,
            Some(r) => {
                let (h, evs) = r.expect("history task");
                for (k, ev) in evs {
                    selections += 1;
                    let e = events.entry(k).or_insert((ev, 0, h["hist"].clone()));
                    e.1 += 1;
                }
            },
        }
    }
    let mut f = std::io::BufWriter::new(std::fs::File::create(&out).expect("create trace"));
    for (_, (mut ev, count, hist)) in events.iter().map(|(k, v)| (k, v.clone())) {
        ev["count"] = json!(count);
        ev["first_history"] = hist;
        writeln!(f, "{}", ev).unwrap();
    }
    f.flush().unwrap();
    println!("{}", json!({"histories": total, "selections": selections, "distinct_events": events.len()}));
}
