//! C16, the source of the membership snapshots (V): real `ChitchatNode`s over chitchat's in-process channel transport
//! (no sockets) run through scripts of joins, departures and rejoins - also under another address and at an address
//! another node used before; whenever the harness has changed the set of running nodes it waits for the observer's
//! snapshot to settle and records (who is running where, the observer's snapshot) for Trace_MembershipSource.tla.
//! Scripts run concurrently, each in a cluster of its own.

use std::collections::BTreeMap;
use std::io::Write;
use std::net::SocketAddr;
use std::time::{Duration, Instant};

use chitchat::transport::ChannelTransport;
use chitchat::FailureDetectorConfig;
use datacake_node::{ChitchatNode, ClusterMember, ClusterStatistics};
use serde_json::{json, Value};
use vcommon::arg_or;

fn failure_detector() -> FailureDetectorConfig {
    FailureDetectorConfig { phi_threshold: 5.0, initial_interval: Duration::from_secs(1), ..Default::default() }
}

fn addr(cluster: u16, slot: u16) -> SocketAddr {
    ([127, 0, 0, 1], 21_000 + cluster * 16 + slot).into()
}

async fn start(cluster: u16, id: u8, slot: u16, seeds: Vec<String>, transport: &ChannelTransport) -> ChitchatNode {
    start_with(cluster, id, slot, seeds, transport, ClusterStatistics::default()).await
}

async fn start_with(cluster: u16, id: u8, slot: u16, seeds: Vec<String>, transport: &ChannelTransport, statistics: ClusterStatistics) -> ChitchatNode {
    let a = addr(cluster, slot);
    ChitchatNode::connect(ClusterMember::new(id, a, "dc".to_string()), a, format!("source-{cluster}"), seeds, failure_detector(), transport, statistics)
        .await
        .expect("a chitchat node over the channel transport starts")
}

/// (step, node id, address slot): "up" starts node `id` at slot, "down" stops it.
type Script = Vec<(&'static str, u8, u16)>;

fn scripts() -> Vec<Script> {
    vec![
        // leaves and comes back under another address
        vec![("up", 2, 2), ("down", 2, 2), ("up", 2, 3)],
        // comes back under the same address; a third node joins meanwhile
        vec![("up", 2, 2), ("up", 3, 3), ("down", 2, 2), ("up", 2, 2)],
        // two nodes leave, each comes back at the address the other one had
        vec![("up", 2, 2), ("up", 3, 3), ("down", 2, 2), ("down", 3, 3), ("up", 2, 3), ("up", 3, 2)],
        // comes back under another address while a node that never left looks on
        vec![("up", 2, 2), ("up", 3, 3), ("down", 3, 3), ("up", 3, 4), ("down", 2, 2), ("up", 2, 5)],
    ]
}

async fn run_script(cluster: u16, script: Script) -> Vec<Value> {
    let transport = ChannelTransport::default();
    let statistics = ClusterStatistics::default();
    let observer = start_with(cluster, 1, 1, vec![], &transport, statistics.clone()).await;
    let members = observer.members_watcher();
    let seed = addr(cluster, 1).to_string();
    let mut running: BTreeMap<u8, (u16, ChitchatNode)> = BTreeMap::new();
    let mut out = vec![json!({"ev": "reset", "cluster": cluster})];
    for (step, id, slot) in script {
        // wait_for_members (what DatacakeNode::wait_for_nodes is made of) is called on the observer BEFORE the step is taken and
        // runs while it is taken: for a join it waits until the snapshot names every node that will then be running, for a
        // departure until the node is gone; a third call waits 1.5 s for a node that never comes (WaitFor.tla).
        let ids_at_call: Vec<u8> = members.borrow().keys().copied().collect();
        let mut want: Vec<u8> = running.keys().copied().chain([1u8, id]).collect();
        want.sort();
        want.dedup();
        let up = step == "up";
        let t0 = Instant::now();
        let wait_step = async {
            let want = want.clone();
            let r = observer
                .wait_for_members(move |m| if up { want.iter().all(|i| m.contains_key(i)) } else { !m.contains_key(&id) }, Duration::from_secs(150))
                .await;
            (r.is_ok(), t0.elapsed(), members.borrow().keys().copied().collect::<Vec<u8>>())
        };
        let wait_never = async {
            let r = observer.wait_for_members(|m| m.contains_key(&99) && m.contains_key(&1), Duration::from_millis(1500)).await;
            (r.is_ok(), t0.elapsed(), members.borrow().keys().copied().collect::<Vec<u8>>())
        };
        let take_step = async {
            // let the two calls get going first
            tokio::time::sleep(Duration::from_millis(50)).await;
            match step {
                "up" => {
                    running.insert(id, (slot, start(cluster, id, slot, vec![seed.clone()], &transport).await));
                },
                _ => {
                    if let Some((_, node)) = running.remove(&id) {
                        node.shutdown().await;
                    }
                },
            }
        };
        let (w1, w2, ()) = tokio::join!(wait_step, wait_never, take_step);
        out.push(json!({"ev": "wait", "cluster": cluster, "kind": if up { "all_present" } else { "absent" }, "want": if up { want.clone() } else { vec![id] },
                        "timeout_ms": 150_000, "result": if w1.0 { "ok" } else { "timeout" }, "elapsed_ms": w1.1.as_millis() as u64,
                        "snap_at_call": ids_at_call, "snap_at_return": w1.2}));
        out.push(json!({"ev": "wait", "cluster": cluster, "kind": "all_present", "want": [1, 99],
                        "timeout_ms": 1500, "result": if w2.0 { "ok" } else { "timeout" }, "elapsed_ms": w2.1.as_millis() as u64,
                        "snap_at_call": ids_at_call, "snap_at_return": w2.2}));
        // what is really running now (the observer itself is part of its own snapshot)
        let mut truth: BTreeMap<u8, String> = running.iter().map(|(i, (s, _))| (*i, addr(cluster, *s).to_string())).collect();
        truth.insert(1, addr(cluster, 1).to_string());
        // the snapshot settles: polled until it equals what is running, for at most three minutes; then it has to stay so
        // for three more seconds (what is recorded is the last look)
        let start_wait = Instant::now();
        let view = |m: &tokio::sync::watch::Receiver<datacake_node::verif::NodeMembership>| -> BTreeMap<u8, String> {
            m.borrow().iter().map(|(i, member)| (*i, member.public_addr.to_string())).collect()
        };
        while view(&members) != truth && start_wait.elapsed() < Duration::from_secs(180) {
            tokio::time::sleep(Duration::from_millis(100)).await;
        }
        tokio::time::sleep(Duration::from_secs(3)).await;
        out.push(json!({"ev": "settled", "cluster": cluster, "after": [step, id, slot],
                        "running": truth.iter().map(|(i, a)| json!([i, a])).collect::<Vec<_>>(),
                        "snapshot": view(&members).iter().map(|(i, a)| json!([i, a])).collect::<Vec<_>>(),
                        "live_counter": statistics.num_live_members(),
                        "waited_ms": start_wait.elapsed().as_millis() as u64}));
    }
    for (_, (_, node)) in running {
        node.shutdown().await;
    }
    observer.shutdown().await;
    out
}

pub async fn record() {
    let out = arg_or("--out", "source.ndjson");
    let mut f = std::io::BufWriter::new(std::fs::File::create(&out).expect("create trace"));
    let tasks: Vec<_> = scripts().into_iter().enumerate().map(|(i, s)| tokio::spawn(run_script(i as u16 + 1, s))).collect();
    let (mut settled, mut max_wait, mut waits, mut waits_ok) = (0u64, 0u64, 0u64, 0u64);
    for t in tasks {
        for e in t.await.expect("script task") {
            if e["ev"] == "settled" {
                settled += 1;
                max_wait = max_wait.max(e["waited_ms"].as_u64().unwrap());
            }
            if e["ev"] == "wait" {
                waits += 1;
                waits_ok += (e["result"] == "ok") as u64;
            }
            writeln!(f, "{}", e).unwrap();
        }
    }
    f.flush().unwrap();
    println!("{}", json!({"scripts": scripts().len(), "settled_points": settled, "longest_wait_ms": max_wait, "wait_calls": waits, "wait_calls_answered_ok": waits_ok}));
}
