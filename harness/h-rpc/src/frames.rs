//! C12 (V): real frames from `to_view_bytes`, every single-bit flip / truncation / small
//! extension of them through the real `DataView::using`, corrupted frames posted to a real
//! server, and value round trips through a real client/server pair.  One NDJSON event per
//! (de-duplicated) case for Trace_RpcFrame.tla.

use std::collections::BTreeMap;
use std::io::Write;
use std::sync::atomic::{AtomicU64, Ordering};
use std::sync::Arc;

use datacake_rpc::{to_view_bytes, Channel, DataView, ErrorCode, Handler, Request, RpcClient, RpcService, ServiceRegistry, Status};
use rand::rngs::StdRng;
use rand::{Rng, SeedableRng};
use rkyv::{AlignedVec, Archive, Deserialize, Serialize};
use serde_json::{json, Value};
use vcommon::arg_or;

/// Bitwise CRC-32 (IEEE, reflected), independent of the crate the implementation uses.
fn crc32(data: &[u8]) -> u32 {
    let mut crc = 0xFFFF_FFFFu32;
    for b in data {
        crc ^= *b as u32;
        for _ in 0..8 {
            crc = if crc & 1 == 1 { (crc >> 1) ^ 0xEDB8_8320 } else { crc >> 1 };
        }
    }
    !crc
}

fn crc_ok(frame: &[u8]) -> bool {
    if frame.len() < 4 {
        return false;
    }
    let (body, tail) = frame.split_at(frame.len() - 4);
    crc32(body) == u32::from_le_bytes(tail.try_into().unwrap())
}

#[repr(C)]
#[derive(Serialize, Deserialize, Archive, Debug, PartialEq, Clone)]
#[archive(check_bytes)]
pub struct Fixed {
    a: u32,
    b: u64,
    c: [u8; 12],
}

#[repr(C)]
#[derive(Serialize, Deserialize, Archive, Debug, PartialEq, Clone)]
#[archive(check_bytes)]
pub struct WithVec {
    id: u64,
    data: Vec<u8>,
}

#[repr(C)]
#[derive(Serialize, Deserialize, Archive, Debug, PartialEq, Clone)]
#[archive(check_bytes)]
pub struct Inner {
    k: u64,
    v: String,
}

#[repr(C)]
#[derive(Serialize, Deserialize, Archive, Debug, PartialEq, Clone)]
#[archive(check_bytes)]
pub struct Nested {
    name: String,
    items: Vec<Inner>,
    opt: Option<u32>,
}

#[repr(C)]
#[derive(Serialize, Deserialize, Archive, Debug, PartialEq, Clone)]
#[archive(check_bytes)]
pub struct Unit;

// messages whose archived form has alignment 1 or 2 and a size that is not a multiple of four
#[repr(C)]
#[derive(Serialize, Deserialize, Archive, Debug, PartialEq, Clone)]
#[archive(check_bytes)]
pub struct Tiny {
    a: u8,
    b: u8,
    c: u8,
}

#[repr(C)]
#[derive(Serialize, Deserialize, Archive, Debug, PartialEq, Clone)]
#[archive(check_bytes)]
pub struct Flag(bool);

#[repr(C)]
#[derive(Serialize, Deserialize, Archive, Debug, PartialEq, Clone)]
#[archive(check_bytes)]
pub struct Short(u16);

#[repr(C)]
#[derive(Serialize, Deserialize, Archive, Debug, PartialEq, Clone)]
#[archive(check_bytes)]
pub struct Arr5([u8; 5]);

/// A message whose frame can have any size that is a multiple of four (data, padding to 4, an 8-byte root, the checksum).
#[repr(C)]
#[derive(Serialize, Deserialize, Archive, PartialEq, Debug, Clone)]
#[archive(check_bytes)]
pub struct Blob {
    data: Vec<u8>,
}

/// A message of alignment 1 whose frame has exactly N + 4 bytes.
#[repr(C)]
#[derive(Serialize, Deserialize, Archive, PartialEq, Debug, Clone)]
#[archive(check_bytes)]
pub struct ArrN<const N: usize>([u8; N]);

fn verdict<T>(buf: &[u8]) -> &'static str
where
    T: Archive,
    T::Archived: 'static,
{
    let mut v = AlignedVec::with_capacity(buf.len());
    v.extend_from_slice(buf);
    match std::panic::catch_unwind(move || DataView::<T>::using(v).is_ok()) {
        Ok(true) => "ok",
        Ok(false) => "invalid",
        Err(_) => "panic",
    }
}

type Counts = BTreeMap<(String, String, usize, usize, bool, &'static str), u64>;

fn note(counts: &mut Counts, ty: &str, mutation: &str, len: usize, min_len: usize, ok: bool, verdict: &'static str) {
    *counts.entry((ty.to_string(), mutation.to_string(), len, min_len, ok, verdict)).or_default() += 1;
}

/// all flips / truncations / extensions of one frame through the real `using`
fn mutate_all<T>(counts: &mut Counts, ty: &str, frame: &[u8], rng: &mut StdRng, max_exhaustive: usize)
where
    T: Archive,
    T::Archived: 'static,
{
    let min_len = std::mem::size_of::<T::Archived>();
    note(counts, ty, "intact", frame.len(), min_len, crc_ok(frame), verdict::<T>(frame));
    let positions: Vec<usize> = if frame.len() <= max_exhaustive {
        (0..frame.len() * 8).collect()
    } else {
        (0..4000).map(|_| rng.gen_range(0..frame.len() * 8)).collect()
    };
    let mut buf = frame.to_vec();
    for p in positions {
        buf[p / 8] ^= 1 << (p % 8);
        note(counts, ty, "flip", buf.len(), min_len, crc_ok(&buf), verdict::<T>(&buf));
        buf[p / 8] ^= 1 << (p % 8);
    }
    let cuts: Vec<usize> = if frame.len() <= max_exhaustive {
        (0..frame.len()).collect()
    } else {
        (0..min_len + 64).chain((0..500).map(|_| rng.gen_range(0..frame.len()))).collect()
    };
    for n in cuts {
        let t = &frame[..n.min(frame.len())];
        note(counts, ty, "truncate", t.len(), min_len, crc_ok(t), verdict::<T>(t));
    }
    for extra in 1..=8usize {
        let mut e = frame.to_vec();
        e.extend(std::iter::repeat(0u8).take(extra));
        note(counts, ty, "extend", e.len(), min_len, crc_ok(&e), verdict::<T>(&e));
        let mut e = frame.to_vec();
        e.extend((0..extra).map(|_| rng.gen::<u8>()));
        note(counts, ty, "extend", e.len(), min_len, crc_ok(&e), verdict::<T>(&e));
    }
    // frames that are nothing but a valid trailer over a short / empty body
    for n in 0..min_len.min(24) {
        let mut s = vec![0u8; n];
        let c = crc32(&s);
        s.extend_from_slice(&c.to_le_bytes());
        note(counts, ty, "short-valid-crc", s.len(), min_len, crc_ok(&s), verdict::<T>(&s));
    }
}

// ---------------------------------------------------------------- wire level

pub struct Echo {
    runs: Arc<AtomicU64>,
}

impl RpcService for Echo {
    fn register_handlers(registry: &mut ServiceRegistry<Self>) {
        registry.add_handler::<Fixed>();
        registry.add_handler::<WithVec>();
        registry.add_handler::<Nested>();
        registry.add_handler::<Tiny>();
        registry.add_handler::<Flag>();
        registry.add_handler::<Short>();
        registry.add_handler::<Arr5>();
        registry.add_handler::<Blob>();
        registry.add_handler::<ArrN<16381>>();
        registry.add_handler::<ArrN<16382>>();
        registry.add_handler::<ArrN<16383>>();
        registry.add_handler::<ArrN<32765>>();
        registry.add_handler::<ArrN<65532>>();
        registry.add_handler::<ArrN<65533>>();
        registry.add_handler::<ArrN<65534>>();
        registry.add_handler::<ArrN<65535>>();
    }
}

macro_rules! echo_handler {
    ($t:ty) => {
        #[datacake_rpc::async_trait]
        impl Handler<$t> for Echo {
            type Reply = $t;
            async fn on_message(&self, msg: Request<$t>) -> Result<Self::Reply, Status> {
                self.runs.fetch_add(1, Ordering::SeqCst);
                let v: $t = msg.deserialize_view().map_err(|_| Status::internal("deserialize"))?;
                Ok(v)
            }
        }
    };
}
echo_handler!(Fixed);
echo_handler!(Nested);
echo_handler!(Tiny);
echo_handler!(Flag);
echo_handler!(Short);
echo_handler!(Arr5);
echo_handler!(Blob);

#[datacake_rpc::async_trait]
impl<const N: usize> Handler<ArrN<N>> for Echo {
    type Reply = ArrN<N>;
    async fn on_message(&self, msg: Request<ArrN<N>>) -> Result<Self::Reply, Status> {
        self.runs.fetch_add(1, Ordering::SeqCst);
        let v: ArrN<N> = msg.deserialize_view().map_err(|_| Status::internal("deserialize"))?;
        Ok(v)
    }
}

#[datacake_rpc::async_trait]
impl Handler<WithVec> for Echo {
    type Reply = WithVec;
    async fn on_message(&self, msg: Request<WithVec>) -> Result<Self::Reply, Status> {
        self.runs.fetch_add(1, Ordering::SeqCst);
        let v: WithVec = msg.deserialize_view().map_err(|_| Status::internal("deserialize"))?;
        // ids >= 2^63 ask for a handler error carrying a code and a message derived from the request
        if v.id >= 1 << 63 {
            return Err(Status { code: code_for(v.id), message: error_message(v.id, v.data.len()) });
        }
        Ok(v)
    }
}

/// The message of a requested handler error: a prefix derived from the request followed by `len` more characters
/// (every seventh one outside ASCII), so that messages of any size can be asked for.
fn error_message(id: u64, len: usize) -> String {
    let mut m = format!("refused-{}-{}:", id, len);
    m.extend((0..len).map(|i| if i % 7 == 3 { 'é' } else { (b'a' + (i % 23) as u8) as char }));
    m
}

/// Long messages are logged as length and digest.
fn brief(m: &str) -> String {
    if m.len() <= 120 {
        return m.to_string();
    }
    let h = m.bytes().fold(0xcbf29ce484222325u64, |h, b| (h ^ b as u64).wrapping_mul(0x100000001b3));
    format!("{}...[{} bytes, {:016x}]", m.chars().take(36).collect::<String>(), m.len(), h)
}

/// A service whose reply is a raw body (not a framed message): the bytes of the request's data, as they are.
pub struct RawEcho;
impl RpcService for RawEcho {
    fn register_handlers(registry: &mut ServiceRegistry<Self>) {
        registry.add_handler::<WithVec>();
    }
}
#[datacake_rpc::async_trait]
impl Handler<WithVec> for RawEcho {
    type Reply = datacake_rpc::Body;
    async fn on_message(&self, msg: Request<WithVec>) -> Result<Self::Reply, Status> {
        let v: WithVec = msg.deserialize_view().map_err(|_| Status::internal("deserialize"))?;
        Ok(datacake_rpc::Body::from(v.data))
    }
}

fn code_for(id: u64) -> ErrorCode {
    match id % 5 {
        0 => ErrorCode::ServiceUnavailable,
        1 => ErrorCode::InternalError,
        2 => ErrorCode::InvalidPayload,
        3 => ErrorCode::ConnectionError,
        _ => ErrorCode::Timeout,
    }
}

fn sanitise(s: &str) -> String {
    s.replace(['<', '>'], "-")
}

fn uri_for<S: RpcService, M>(addr: std::net::SocketAddr) -> String {
    format!("http://{}/{}/{}", addr, sanitise(S::service_name()), sanitise(std::any::type_name::<M>()))
}

/// posts raw bytes to the handler's URI -> (http status, status code name if any)
async fn post_raw(client: &hyper::Client<hyper::client::HttpConnector>, uri: &str, bytes: Vec<u8>) -> (u16, String) {
    let req = http::Request::builder().method(http::Method::POST).uri(uri).body(hyper::Body::from(bytes)).unwrap();
    match client.request(req).await {
        Err(e) => (0, format!("ConnectionError({e})")),
        Ok(resp) => {
            let code = resp.status().as_u16();
            let body = hyper::body::to_bytes(resp.into_body()).await.unwrap_or_default();
            if code == 200 {
                return (code, String::new());
            }
            let mut v = AlignedVec::with_capacity(body.len());
            v.extend_from_slice(&body);
            match DataView::<Status>::using(v) {
                Ok(view) => match view.deserialize_view() {
                    Ok(st) => (code, format!("{:?}", st.code)),
                    Err(_) => (code, "undecodable-status".into()),
                },
                Err(_) => (code, "undecodable-status".into()),
            }
        },
    }
}

fn digest(bytes: &[u8]) -> String {
    format!("{}:{:08x}", bytes.len(), crc32(bytes))
}

pub async fn record() {
    std::panic::set_hook(Box::new(|_| {}));
    let seed: u64 = arg_or("--seed", "1").parse().unwrap();
    let out = arg_or("--out", "trace.ndjson");
    let thorough = arg_or("--tier", "quick") == "thorough";
    let max_exhaustive = if thorough { 4096 } else { 2048 };
    let mut rng = StdRng::seed_from_u64(seed);
    let mut f = std::io::BufWriter::new(std::fs::File::create(&out).expect("create trace"));
    let mut counts = Counts::new();

    // ---- value generators: empty / small / large / nested
    let fixed: Vec<Fixed> = vec![
        Fixed { a: 0, b: 0, c: [0; 12] },
        Fixed { a: u32::MAX, b: u64::MAX, c: [0xFF; 12] },
        Fixed { a: rng.gen(), b: rng.gen(), c: rng.gen() },
    ];
    let vecs: Vec<WithVec> = vec![
        WithVec { id: 0, data: vec![] },
        WithVec { id: 7, data: vec![0; 1] },
        WithVec { id: rng.gen::<u64>() >> 1, data: (0..rng.gen_range(2..200)).map(|_| rng.gen()).collect() },
        WithVec { id: 9, data: (0..1900).map(|_| rng.gen()).collect() },
    ];
    let nested: Vec<Nested> = vec![
        Nested { name: String::new(), items: vec![], opt: None },
        Nested { name: "n".into(), items: vec![Inner { k: 1, v: String::new() }], opt: Some(0) },
        Nested {
            name: "a-longer-name-that-does-not-fit-inline".into(),
            items: (0..rng.gen_range(2..6)).map(|i| Inner { k: i, v: "x".repeat(rng.gen_range(0..40)) }).collect(),
            opt: Some(rng.gen()),
        },
    ];
    let mut frames = 0u64;
    for v in &fixed {
        let fr = to_view_bytes(v).unwrap();
        frames += 1;
        mutate_all::<Fixed>(&mut counts, "Fixed", &fr, &mut rng, max_exhaustive);
        let view = DataView::<Fixed>::using(fr).expect("intact frame");
        let back: Fixed = view.deserialize_view().expect("deserialize");
        writeln!(f, "{}", json!({"ev": "view", "type": "Fixed", "equal": back == *v})).unwrap();
    }
    for v in &vecs {
        let fr = to_view_bytes(v).unwrap();
        frames += 1;
        mutate_all::<WithVec>(&mut counts, "WithVec", &fr, &mut rng, max_exhaustive);
        let view = DataView::<WithVec>::using(fr).expect("intact frame");
        let back: WithVec = view.deserialize_view().expect("deserialize");
        writeln!(f, "{}", json!({"ev": "view", "type": "WithVec", "equal": back == *v})).unwrap();
    }
    for v in &nested {
        let fr = to_view_bytes(v).unwrap();
        frames += 1;
        mutate_all::<Nested>(&mut counts, "Nested", &fr, &mut rng, max_exhaustive);
        let view = DataView::<Nested>::using(fr).expect("intact frame");
        let back: Nested = view.deserialize_view().expect("deserialize");
        writeln!(f, "{}", json!({"ev": "view", "type": "Nested", "equal": back == *v})).unwrap();
    }
    {
        let fr = to_view_bytes(&Unit).unwrap();
        frames += 1;
        mutate_all::<Unit>(&mut counts, "Unit", &fr, &mut rng, max_exhaustive);
        let fr = to_view_bytes(&42u64).unwrap();
        frames += 1;
        mutate_all::<u64>(&mut counts, "u64", &fr, &mut rng, max_exhaustive);
        let st = Status { code: ErrorCode::InternalError, message: "some message".into() };
        let fr = to_view_bytes(&st).unwrap();
        frames += 1;
        mutate_all::<Status>(&mut counts, "Status", &fr, &mut rng, max_exhaustive);
    }
    macro_rules! small {
        ($t:ty, $name:expr, $vals:expr) => {
            for v in $vals.iter() {
                let fr = to_view_bytes(v).unwrap();
                frames += 1;
                mutate_all::<$t>(&mut counts, $name, &fr, &mut rng, max_exhaustive);
                let view = DataView::<$t>::using(fr).expect("intact frame");
                let back: $t = view.deserialize_view().expect("deserialize");
                writeln!(f, "{}", json!({"ev": "view", "type": $name, "equal": back == *v})).unwrap();
            }
        };
    }
    let tinies = vec![Tiny { a: 9, b: 1, c: 200 }, Tiny { a: 0, b: 0, c: 0 }, Tiny { a: 255, b: 254, c: 253 }];
    let flags = vec![Flag(true), Flag(false)];
    let shorts = vec![Short(0x1F90), Short(1), Short(u16::MAX)];
    let arrs = vec![Arr5([1, 2, 3, 4, 5]), Arr5([255; 5])];
    small!(Tiny, "Tiny", tinies);
    small!(Flag, "Flag", flags);
    small!(Short, "Short", shorts);
    small!(Arr5, "Arr5", arrs);
    let mut frame_events = 0u64;
    for ((ty, mutation, len, min_len, ok, verdict), n) in &counts {
        frame_events += n;
        writeln!(f, "{}", json!({"ev": "frame", "type": ty, "mutation": mutation, "len": len, "minLen": min_len,
                                 "crcOk": ok, "verdict": verdict, "count": n})).unwrap();
    }

    // ---- wire level: real server, raw posts of damaged frames, counting handler executions
    let runs = Arc::new(AtomicU64::new(0));
    let (server, addr) = crate::registry::listen_somewhere().await;
    server.add_service(Echo { runs: runs.clone() });
    server.add_service(RawEcho);
    let raw = hyper::Client::builder().http2_only(true).build_http::<hyper::Body>();
    let mut wire_events = 0u64;
    let sample = WithVec { id: 5, data: vec![1, 2, 3, 4, 5, 6, 7, 8, 9] };
    let fr = to_view_bytes(&sample).unwrap().to_vec();
    let min_len = std::mem::size_of::<ArchivedWithVec>();
    let uri = uri_for::<Echo, WithVec>(addr);
    let mut cases: Vec<(String, Vec<u8>)> = vec![("intact".into(), fr.clone())];
    for n in 0..fr.len() {
        cases.push(("truncate".into(), fr[..n].to_vec()));
    }
    for p in 0..fr.len() * 8 {
        if p % 3 == 0 || thorough {
            let mut b = fr.clone();
            b[p / 8] ^= 1 << (p % 8);
            cases.push(("flip".into(), b));
        }
    }
    for n in 0..min_len.min(20) {
        let mut s = vec![0u8; n];
        let c = crc32(&s);
        s.extend_from_slice(&c.to_le_bytes());
        cases.push(("short-valid-crc".into(), s));
    }
    for (mutation, bytes) in cases {
        let before = runs.load(Ordering::SeqCst);
        let (http_status, code) = post_raw(&raw, &uri, bytes.clone()).await;
        let after = runs.load(Ordering::SeqCst);
        wire_events += 1;
        writeln!(f, "{}", json!({"ev": "wire", "mutation": mutation, "len": bytes.len(), "minLen": min_len, "crcOk": crc_ok(&bytes),
                                 "http": http_status, "code": code, "handlerRuns": after - before})).unwrap();
    }

    // ---- round trips through the real client
    let chan = Channel::connect(addr);
    // three clients take turns: a plain one, one with a request timeout (far longer than any exchange here), and a clone of that one
    let plain = RpcClient::<Echo>::new(chan.clone());
    let mut timed = RpcClient::<Echo>::new(chan);
    timed.set_timeout(std::time::Duration::from_secs(120));
    let clients = [plain, timed.clone(), timed];
    let turn = std::cell::Cell::new(0usize);
    let next_client = || {
        turn.set(turn.get() + 1);
        &clients[turn.get() % 3]
    };
    let mut rt = 0u64;
    let big = if thorough { 4 << 20 } else { 256 << 10 };
    let mut rts: Vec<WithVec> = vecs.clone();
    rts.push(WithVec { id: 11, data: (0..big).map(|i| (i % 251) as u8).collect() });
    for _ in 0..(if thorough { 200 } else { 40 }) {
        rts.push(WithVec { id: rng.gen::<u64>() >> 1, data: (0..rng.gen_range(0..5000)).map(|_| rng.gen()).collect() });
    }
    for v in &rts {
        let before = runs.load(Ordering::SeqCst);
        let r = next_client().send(v).await;
        let after = runs.load(Ordering::SeqCst);
        let (ok, same) = match &r {
            Ok(view) => (true, view.deserialize_view().map(|b: WithVec| b == *v).unwrap_or(false)),
            Err(_) => (false, false),
        };
        rt += 1;
        writeln!(f, "{}", json!({"ev": "roundtrip", "type": "WithVec", "sent": digest(&v.data), "ok": ok, "replyEqualsSent": same,
                                 "handlerRuns": after - before})).unwrap();
    }
    for v in nested.iter() {
        let r = next_client().send(v).await;
        let same = matches!(&r, Ok(view) if view.deserialize_view().map(|b: Nested| b == *v).unwrap_or(false));
        rt += 1;
        writeln!(f, "{}", json!({"ev": "roundtrip", "type": "Nested", "sent": digest(v.name.as_bytes()), "ok": r.is_ok(),
                                 "replyEqualsSent": same, "handlerRuns": 1})).unwrap();
    }
    // messages that carry one large collection of elements which themselves own memory (strings): the serializer's working
    // memory grows with the number of elements, not with the bytes; counts around the powers of two and around thirds of them.
    // Each exchange runs in a task of its own so that a panic inside the client is a failed round trip, not the harness's end.
    {
        let mut counts: Vec<usize> = vec![6, 100, 341, 342, 682, 683, 1365, 1366, 2730, 2731, 20_000];
        for b in [256usize, 512, 1024, 2048, 4096, 8192, 16_384] {
            counts.extend([b - 1, b, b + 1]);
        }
        for (i, n) in counts.into_iter().enumerate() {
            let v = Nested {
                name: format!("collection-of-{n}"),
                items: (0..n as u64).map(|k| Inner { k, v: if (k + i as u64) % 3 == 0 { String::new() } else { format!("item-{k}") } }).collect(),
                opt: Some(n as u32),
            };
            let client = next_client().clone();
            let before = runs.load(Ordering::SeqCst);
            let sent = v.clone();
            let r = tokio::spawn(async move { client.send(&sent).await.map(|view| view.deserialize_view().map(|b: Nested| b == sent).unwrap_or(false)) }).await;
            let after = runs.load(Ordering::SeqCst);
            let (ok, same) = match r {
                Ok(Ok(same)) => (true, same),
                _ => (false, false),
            };
            rt += 1;
            writeln!(f, "{}", json!({"ev": "roundtrip", "type": "Nested", "sent": format!("collection of {n} elements"), "ok": ok,
                                     "replyEqualsSent": same, "handlerRuns": after - before})).unwrap();
        }
    }
    for v in fixed.iter() {
        let r = next_client().send(v).await;
        let same = matches!(&r, Ok(view) if view.deserialize_view().map(|b: Fixed| b == *v).unwrap_or(false));
        rt += 1;
        writeln!(f, "{}", json!({"ev": "roundtrip", "type": "Fixed", "sent": digest(&v.c), "ok": r.is_ok(),
                                 "replyEqualsSent": same, "handlerRuns": 1})).unwrap();
    }
    macro_rules! small_rt {
        ($t:ty, $name:expr, $vals:expr) => {
            for v in $vals.iter() {
                let before = runs.load(Ordering::SeqCst);
                let r = next_client().send(v).await;
                let after = runs.load(Ordering::SeqCst);
                let same = matches!(&r, Ok(view) if view.deserialize_view().map(|b: $t| b == *v).unwrap_or(false));
                rt += 1;
                writeln!(f, "{}", json!({"ev": "roundtrip", "type": $name, "sent": format!("{:?}", v), "ok": r.is_ok(),
                                         "replyEqualsSent": same, "handlerRuns": after - before})).unwrap();
            }
        };
    }
    small_rt!(Tiny, "Tiny", tinies);
    small_rt!(Flag, "Flag", flags);
    small_rt!(Short, "Short", shorts);
    small_rt!(Arr5, "Arr5", arrs);
    // frames whose size sits on the boundaries of the transport underneath (HTTP/2 DATA frames of 16 384 bytes, the initial
    // flow-control window of 65 535 bytes, their multiples): every multiple of four around them, and sizes that leave one to
    // three bytes behind a boundary; request and reply have the same size; once on a connection of its own, once on the shared one
    {
        let mut lens: Vec<usize> = vec![];
        for b in [16_384usize, 32_768, 49_152, 65_536, 131_072, 1 << 20] {
            for f in (b - 20..=b + 20).filter(|f| f % 4 == 0) {
                lens.push(f - 12);
            }
        }
        for (i, len) in lens.iter().enumerate() {
            let v = Blob { data: (0..*len).map(|j| ((j * 13 + i) % 251) as u8).collect() };
            for fresh in [true, false] {
                let own = RpcClient::<Echo>::new(Channel::connect(addr));
                let before = runs.load(Ordering::SeqCst);
                let r = if fresh { own.send(&v).await } else { next_client().send(&v).await };
                let after = runs.load(Ordering::SeqCst);
                let same = matches!(&r, Ok(view) if view.deserialize_view().map(|b: Blob| b == v).unwrap_or(false));
                rt += 1;
                writeln!(f, "{}", json!({"ev": "roundtrip", "type": "Blob", "sent": format!("frame of {} bytes, {}", len + 12, if fresh { "own connection" } else { "shared connection" }),
                                         "ok": r.is_ok(), "replyEqualsSent": same, "handlerRuns": after - before})).unwrap();
            }
        }
        macro_rules! arr_rt {
            ($n:expr) => {
                let mut a = [0u8; $n];
                for (j, x) in a.iter_mut().enumerate() {
                    *x = (j % 249) as u8;
                }
                let v = ArrN::<$n>(a);
                for fresh in [true, false] {
                    let own = RpcClient::<Echo>::new(Channel::connect(addr));
                    let before = runs.load(Ordering::SeqCst);
                    let r = if fresh { own.send(&v).await } else { next_client().send(&v).await };
                    let after = runs.load(Ordering::SeqCst);
                    let same = matches!(&r, Ok(view) if view.deserialize_view().map(|b: ArrN<$n>| b == v).unwrap_or(false));
                    rt += 1;
                    writeln!(f, "{}", json!({"ev": "roundtrip", "type": "ArrN", "sent": format!("frame of {} bytes, {}", $n + 4, if fresh { "own connection" } else { "shared connection" }),
                                             "ok": r.is_ok(), "replyEqualsSent": same, "handlerRuns": after - before})).unwrap();
                }
            };
        }
        arr_rt!(16381);
        arr_rt!(16382);
        arr_rt!(16383);
        arr_rt!(32765);
        arr_rt!(65532);
        arr_rt!(65533);
        arr_rt!(65534);
        arr_rt!(65535);
    }
    // a burst: several hundred requests in flight at once on ONE shared connection (more than an HTTP/2 connection carries
    // concurrently by default) and as many on connections of their own, every payload different: each caller must get the reply
    // to ITS request, and the handler must have run once per request
    {
        let n_burst: u64 = if thorough { 1200 } else { 320 };
        for shared in [true, false] {
            let before = runs.load(Ordering::SeqCst);
            let mut tasks = vec![];
            for i in 0..n_burst {
                let client = if shared { next_client().clone() } else { RpcClient::<Echo>::new(Channel::connect(addr)) };
                let v = WithVec { id: 1_000_000 + i, data: (0..(i % 700) as usize).map(|j| ((j as u64 * 31 + i) % 251) as u8).collect() };
                tasks.push(tokio::spawn(async move {
                    let r = client.send(&v).await;
                    match r {
                        Ok(view) => (true, view.deserialize_view().map(|b: WithVec| b == v).unwrap_or(false)),
                        Err(_) => (false, false),
                    }
                }));
            }
            let mut outcomes = vec![];
            for t in tasks {
                outcomes.push(t.await.unwrap_or((false, false)));
            }
            let ran = runs.load(Ordering::SeqCst) - before;
            for (i, (ok, same)) in outcomes.into_iter().enumerate() {
                rt += 1;
                writeln!(f, "{}", json!({"ev": "roundtrip", "type": "WithVec", "sent": format!("burst of {n_burst}, request {i}, {}", if shared { "shared connection" } else { "own connection" }),
                                         "ok": ok, "replyEqualsSent": same, "handlerRuns": if ran == n_burst { 1 } else { ran }})).unwrap();
            }
        }
    }
    // replies that are raw bodies (streamed, not framed): the client reads exactly the bytes the handler produced
    {
        let raw_client = RpcClient::<RawEcho>::new(Channel::connect(addr));
        for size in [0usize, 1, 3, 4, 5, 1023, 32 << 10, (1 << 20) + 1, if thorough { 9 << 20 } else { 3 << 20 }] {
            let v = WithVec { id: size as u64, data: (0..size).map(|i| (i * 7 % 253) as u8).collect() };
            let r = raw_client.send(&v).await;
            let (ok, same) = match r {
                Ok(body) => match hyper::body::to_bytes(body.into_inner()).await {
                    Ok(bytes) => (true, bytes.as_ref() == v.data.as_slice()),
                    Err(_) => (false, false),
                },
                Err(_) => (false, false),
            };
            rt += 1;
            writeln!(f, "{}", json!({"ev": "roundtrip", "type": "RawBody", "sent": digest(&v.data), "ok": ok, "replyEqualsSent": same, "handlerRuns": 1})).unwrap();
        }
    }
    // handler errors: code and message must reach the client unchanged
    let mut errs = 0u64;
    // message sizes: small ones, every size around the usual small-buffer limits, and large ones
    let mut sizes: Vec<usize> = vec![0, 1, 2, 3, 9, 27, 100, 200, 255, 256, 257, 1000, 1023, 1024, 1025, 4095, 4096, 4097, 65_535, 65_536, 70_000, 1 << 20];
    sizes.extend(440..=530);
    for (i, size) in sizes.into_iter().enumerate() {
        let i = i as u64;
        let id = (1u64 << 63) + i + (rng.gen::<u32>() as u64) * 5;
        let v = WithVec { id, data: vec![0; size] };
        let r = next_client().send(&v).await;
        let (got_code, got_msg) = match r {
            Err(s) => (format!("{:?}", s.code), s.message),
            Ok(_) => ("none".into(), String::new()),
        };
        errs += 1;
        writeln!(f, "{}", json!({"ev": "status", "sentCode": format!("{:?}", code_for(id)), "sentMessage": brief(&error_message(id, v.data.len())),
                                 "gotCode": got_code, "gotMessage": brief(&got_msg)})).unwrap();
    }
    server.shutdown();
    f.flush().unwrap();
    println!("{}", json!({"frames": frames, "frame_cases": frame_events, "frame_events": counts.len(), "wire_events": wire_events,
                          "roundtrips": rt, "status_events": errs}));
    let _ = Value::Null;
}
