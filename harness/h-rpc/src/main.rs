mod frames;
mod netfaults;
mod registry;

fn main() {
    let cmd = std::env::args().nth(1).unwrap_or_default();
    let rt = tokio::runtime::Builder::new_multi_thread().worker_threads(4).enable_all().build().unwrap();
    match cmd.as_str() {
        "replay-registry" => rt.block_on(registry::replay()),
        "record-frames" => rt.block_on(frames::record()),
        "netfaults" => rt.block_on(netfaults::run()),
        other => {
            eprintln!("unknown command {other:?}");
            std::process::exit(2);
        },
    }
}

/// A free loopback port (bind to port 0, read it back, release it).
pub fn free_addr() -> std::net::SocketAddr {
    vcommon::free_addr()
}
