//! C14 on real sockets: schedules of fault events, sends and waits (from RpcNet.tla, or random) executed against the
//! real datacake-rpc client (hyper over TCP, `net/client.rs`) and server. The network between them is a TCP relay
//! of this harness on 127.0.0.1 whose link is up / held (bytes are kept back in both directions and delivered on
//! release) / down (connections are cut, new ones are cut at once). In addition to the model's fault events a link
//! can be armed to go on hold after N more bytes from the server, so that a reply is stopped half-way.
//! One NDJSON event per request for Trace_RpcNet.tla - the same judgement as in the turmoil simulation.

use std::collections::BTreeMap;
use std::io::Write;
use std::net::SocketAddr;
use std::sync::atomic::{AtomicI64, Ordering};
use std::sync::{Arc, Mutex};
use std::time::{Duration, Instant};

use datacake_rpc::{Channel, ErrorCode, Handler, Request, RpcClient, RpcService, Server, ServiceRegistry, Status};
use rand::rngs::StdRng;
use rand::{Rng, SeedableRng};
use rkyv::{Archive, Deserialize, Serialize};
use serde_json::{json, Value};
use tokio::io::{AsyncReadExt, AsyncWriteExt};
use tokio::net::{TcpListener, TcpStream};
use tokio::sync::watch;
use vcommon::{arg_or, for_each_payload, open_input};

const TICK_MS: u64 = 100;
/// Real time on a loaded machine: a timed request may be this late and still count as "within its bound".
const SLACK_MS: u64 = 2000;
const FINAL_WAIT_MS: u64 = 2800;

#[repr(C)]
#[derive(Serialize, Deserialize, Archive, Debug, Clone)]
#[archive(check_bytes)]
pub struct Ping {
    id: u64,
    reply_len: u32,
    /// the handler takes this long over this request
    work_ms: u32,
    payload: Vec<u8>,
}

#[repr(C)]
#[derive(Serialize, Deserialize, Archive, Debug, Clone)]
#[archive(check_bytes)]
pub struct Pong {
    id: u64,
    payload: Vec<u8>,
}

pub struct Echo {
    runs: Arc<Mutex<BTreeMap<u64, u64>>>,
    slow_ms: u64,
}

impl RpcService for Echo {
    fn register_handlers(registry: &mut ServiceRegistry<Self>) {
        registry.add_handler::<Ping>();
    }
}

#[datacake_rpc::async_trait]
impl Handler<Ping> for Echo {
    type Reply = Pong;

    async fn on_message(&self, msg: Request<Ping>) -> Result<Self::Reply, Status> {
        let ping: Ping = msg.deserialize_view().map_err(Status::internal)?;
        *self.runs.lock().unwrap().entry(ping.id).or_default() += 1;
        if self.slow_ms + ping.work_ms as u64 > 0 {
            tokio::time::sleep(Duration::from_millis(self.slow_ms + ping.work_ms as u64)).await;
        }
        // a request that arrives is the request that was sent, whole
        let head_len = (8 + ping.id % 5) as usize;
        if ping.payload != request_payload(ping.id, ping.payload.len()) || ping.payload.len() < head_len {
            return Err(Status::internal("the handler was given a request that nobody sent"));
        }
        Ok(Pong { id: ping.id, payload: reply_for(ping.id, &ping.payload[..head_len], ping.reply_len as usize) })
    }
}

fn payload_for(id: u64) -> Vec<u8> {
    (0..(8 + id % 5)).map(|i| (id * 31 + i) as u8).collect()
}

/// A request payload of a given size (0: the short one).
fn request_payload(id: u64, len: usize) -> Vec<u8> {
    let mut p = payload_for(id);
    let mut i = 0u64;
    while p.len() < len {
        p.push((id.wrapping_mul(17).wrapping_add(i.wrapping_mul(3))) as u8);
        i += 1;
    }
    p
}

/// The reply is a function of this very request: its payload reversed, then a pattern of the id up to the length asked for.
fn reply_for(id: u64, payload: &[u8], len: usize) -> Vec<u8> {
    let mut out: Vec<u8> = payload.iter().rev().cloned().collect();
    let mut i = 0u64;
    while out.len() < len {
        out.push((id.wrapping_mul(131).wrapping_add(i.wrapping_mul(7))) as u8);
        i += 1;
    }
    out
}

#[derive(Clone, Copy, PartialEq, Debug)]
enum Mode {
    Up,
    Held,
    Down,
}

struct Link {
    tx: watch::Sender<Mode>,
    /// bytes the server may still send before the link goes on hold by itself (negative: not armed)
    s2c_budget: AtomicI64,
    /// the same for bytes from the client (a request stopped half-way)
    c2s_budget: AtomicI64,
}

async fn wait_up(rx: &mut watch::Receiver<Mode>) -> bool {
    loop {
        let m = *rx.borrow();
        match m {
            Mode::Up => return true,
            Mode::Down => return false,
            Mode::Held => {
                if rx.changed().await.is_err() {
                    return false;
                }
            },
        }
    }
}

async fn pump(mut r: tokio::net::tcp::OwnedReadHalf, mut w: tokio::net::tcp::OwnedWriteHalf, link: Arc<Link>, s2c: bool) {
    let mut rx = link.tx.subscribe();
    let mut buf = vec![0u8; 16 * 1024];
    'outer: loop {
        if !wait_up(&mut rx).await {
            break;
        }
        let n = tokio::select! {
            res = r.read(&mut buf) => match res { Ok(0) | Err(_) => break, Ok(n) => n },
            ch = rx.changed() => { if ch.is_err() { break; } continue; },
        };
        let mut off = 0usize;
        while off < n {
            if !wait_up(&mut rx).await {
                break 'outer;
            }
            let mut upto = n;
            let mut hold_after = false;
            {
                let budget = if s2c { &link.s2c_budget } else { &link.c2s_budget };
                let b = budget.load(Ordering::SeqCst);
                if b >= 0 {
                    let remaining = n - off;
                    if b as usize <= remaining {
                        // the budget is used up inside this piece: deliver that much, then hold
                        upto = off + b as usize;
                        hold_after = true;
                        budget.store(-1, Ordering::SeqCst);
                    } else {
                        budget.store(b - remaining as i64, Ordering::SeqCst);
                    }
                }
            }
            if upto > off && w.write_all(&buf[off..upto]).await.is_err() {
                break 'outer;
            }
            if hold_after {
                let _ = link.tx.send(Mode::Held);
            }
            off = upto;
        }
    }
    let _ = w.shutdown().await;
}

async fn relay(listener: TcpListener, server: SocketAddr, link: Arc<Link>) {
    loop {
        let (inbound, _) = match listener.accept().await {
            Ok(x) => x,
            Err(_) => continue,
        };
        if *link.tx.borrow() == Mode::Down {
            drop(inbound);
            continue;
        }
        let link = link.clone();
        tokio::spawn(async move {
            let outbound = match TcpStream::connect(server).await {
                Ok(s) => s,
                Err(_) => return,
            };
            let _ = inbound.set_nodelay(true);
            let _ = outbound.set_nodelay(true);
            let (ir, iw) = inbound.into_split();
            let (or, ow) = outbound.into_split();
            let a = tokio::spawn(pump(ir, ow, link.clone(), false));
            let b = tokio::spawn(pump(or, iw, link, true));
            let _ = a.await;
            let _ = b.await;
        });
    }
}

#[derive(Clone, Debug)]
struct Observed {
    id: u64,
    timeout_ms: u64,
    outcome: String,
    reply_id: u64,
    payload_ok: bool,
    elapsed_ms: u64,
}

async fn listen_retry() -> (TcpListener, SocketAddr) {
    let start = Instant::now();
    loop {
        match TcpListener::bind("127.0.0.1:0").await {
            Ok(l) => {
                let a = l.local_addr().unwrap();
                return (l, a);
            },
            Err(e) => {
                if start.elapsed() > Duration::from_secs(120) {
                    eprintln!("tool error: no loopback port available: {e}");
                    std::process::exit(2);
                }
                tokio::time::sleep(Duration::from_millis(200)).await;
            },
        }
    }
}

async fn start_server(runs: Arc<Mutex<BTreeMap<u64, u64>>>, slow_ms: u64) -> (Server, SocketAddr) {
    let start = Instant::now();
    loop {
        let addr = vcommon::free_addr();
        match Server::listen(addr).await {
            Ok(s) => {
                s.add_service(Echo { runs: runs.clone(), slow_ms });
                return (s, addr);
            },
            Err(e) => {
                if start.elapsed() > Duration::from_secs(120) {
                    eprintln!("tool error: cannot start a server: {e}");
                    std::process::exit(2);
                }
                tokio::time::sleep(Duration::from_millis(50)).await;
            },
        }
    }
}

/// Executes one schedule in real time; one observation per request plus the handler run counts.
async fn run_schedule(sched: Vec<Value>, slow_ms: u64) -> (Vec<Observed>, BTreeMap<u64, u64>) {
    let runs = Arc::new(Mutex::new(BTreeMap::new()));
    let observed: Arc<Mutex<Vec<Observed>>> = Arc::new(Mutex::new(vec![]));
    let (server, server_addr) = start_server(runs.clone(), slow_ms).await;
    let (listener, relay_addr) = listen_retry().await;
    let (tx, _rx) = watch::channel(Mode::Up);
    let link = Arc::new(Link { tx, s2c_budget: AtomicI64::new(-1), c2s_budget: AtomicI64::new(-1) });
    let relay_task = tokio::spawn(relay(listener, server_addr, link.clone()));

    let channel = Channel::connect(relay_addr);
    // another client of the same server, with a connection (and a relay) of its own: what happens to it is none of the
    // first client's business
    let (listener_b, relay_b_addr) = listen_retry().await;
    let (tx_b, _rx_b) = watch::channel(Mode::Up);
    let link_b = Arc::new(Link { tx: tx_b, s2c_budget: AtomicI64::new(-1), c2s_budget: AtomicI64::new(-1) });
    let relay_b_task = tokio::spawn(relay(listener_b, server_addr, link_b.clone()));
    let channel_b = Channel::connect(relay_b_addr);
    let mut tasks = vec![];
    let mut sent: Vec<(u64, u64)> = vec![];
    for s in &sched {
        match s["e"].as_str().unwrap() {
            "partition" => { let _ = link.tx.send(Mode::Down); },
            "hold" => { let _ = link.tx.send(Mode::Held); },
            "repair" | "release" => { let _ = link.tx.send(Mode::Up); },
            "hold_reply" => link.s2c_budget.store(s["bytes"].as_i64().unwrap(), Ordering::SeqCst),
            "hold_request" => link.c2s_budget.store(s["bytes"].as_i64().unwrap(), Ordering::SeqCst),
            "other_cut" => { let _ = link_b.tx.send(Mode::Down); },
            "other_mend" => { let _ = link_b.tx.send(Mode::Up); },
            "tick" => tokio::time::sleep(Duration::from_millis(TICK_MS)).await,
            "send" => {
                let id = s["r"].as_u64().unwrap();
                let timeout_ms = s["timeout"].as_u64().unwrap() * TICK_MS;
                let reply_len = s["reply_len"].as_u64().unwrap_or(0) as u32;
                let req_len = s["req_len"].as_u64().unwrap_or(0) as usize;
                let work_ms = s["work_ms"].as_u64().unwrap_or(0) as u32;
                let other = s["other"].as_bool().unwrap_or(false);
                let mut client = RpcClient::<Echo>::new(if other { channel_b.clone() } else { channel.clone() });
                if timeout_ms > 0 {
                    client.set_timeout(Duration::from_millis(timeout_ms));
                }
                let client = if id % 2 == 1 { client.clone() } else { client };
                sent.push((id, timeout_ms));
                let obs = observed.clone();
                tasks.push(tokio::spawn(async move {
                    let start = Instant::now();
                    let msg = Ping { id, reply_len, work_ms, payload: request_payload(id, req_len) };
                    let res = client.send(&msg).await;
                    let elapsed_ms = start.elapsed().as_millis() as u64;
                    let o = match res {
                        Ok(view) => {
                            // (the reply echoes the head of the request only, so that its size is the one asked for)
                            let want = reply_for(id, &payload_for(id), reply_len as usize);
                            match view.deserialize_view() {
                                Ok(pong) => {
                                    let pong: Pong = pong;
                                    Observed { id, timeout_ms, outcome: "reply".into(), reply_id: pong.id,
                                               payload_ok: pong.payload == want, elapsed_ms }
                                },
                                Err(_) => Observed { id, timeout_ms, outcome: "other:undecodable reply".into(), reply_id: 0,
                                                     payload_ok: false, elapsed_ms },
                            }
                        },
                        Err(st) => Observed { id, timeout_ms,
                                              outcome: match st.code {
                                                  ErrorCode::ConnectionError => "ConnectionError".into(),
                                                  ErrorCode::Timeout => "Timeout".into(),
                                                  other => format!("other:{other:?}"),
                                              }, reply_id: 0, payload_ok: false, elapsed_ms },
                    };
                    obs.lock().unwrap().push(o);
                }));
                // let the request get on its way before the next schedule step
                tokio::time::sleep(Duration::from_millis(3)).await;
            },
            other => panic!("schedule step {other}"),
        }
    }
    // everything that can still finish gets the time to do so
    tokio::time::sleep(Duration::from_millis(FINAL_WAIT_MS)).await;
    let done: Vec<u64> = observed.lock().unwrap().iter().map(|o| o.id).collect();
    for (id, t) in sent {
        if !done.contains(&id) {
            observed.lock().unwrap().push(Observed { id, timeout_ms: t, outcome: "pending".into(), reply_id: 0, payload_ok: false, elapsed_ms: 0 });
        }
    }
    for t in tasks {
        t.abort();
    }
    relay_task.abort();
    relay_b_task.abort();
    let _ = link.tx.send(Mode::Down);
    let _ = link_b.tx.send(Mode::Down);
    server.shutdown();
    let o = observed.lock().unwrap().clone();
    let r = runs.lock().unwrap().clone();
    (o, r)
}

fn random_schedule(rng: &mut StdRng) -> Vec<Value> {
    let mut out = vec![];
    let n = rng.gen_range(4..14);
    let mut next_id = 1;
    let mut link_up = true;
    let big = rng.gen_bool(0.5);
    // every other schedule has a second client with a connection of its own, which is cut and mended now and then
    let two = rng.gen_bool(0.5);
    for _ in 0..n {
        match rng.gen_range(0..if two { 14 } else { 11 }) {
            0 => { out.push(json!({"e": "partition"})); link_up = false; },
            1 => { out.push(json!({"e": "hold"})); link_up = false; },
            2 if !link_up => { out.push(json!({"e": "repair"})); link_up = true; },
            3 if !link_up => { out.push(json!({"e": "release"})); link_up = true; },
            4 | 5 | 6 => {
                let tmos = [0u64, 0, 1, 2, 4, 4, 6];
                let t = tmos[rng.gen_range(0..7)];
                let sizes = [0u64, 70_000, 300_000, 1_200_000];
                let reply_len = if big { sizes[rng.gen_range(0..4)] } else { 0 };
                let req_len = if big && rng.gen_bool(0.4) { sizes[rng.gen_range(1..4)] } else { 0 };
                let works = [0u64, 0, 120, 300, 300];
                let work_ms = if two { works[rng.gen_range(0..5)] } else { 0 };
                out.push(json!({"e": "send", "r": next_id, "timeout": t, "reply_len": reply_len, "req_len": req_len, "work_ms": work_ms}));
                next_id += 1;
            },
            11 => {
                out.push(json!({"e": "send", "r": next_id, "timeout": 0, "reply_len": 0, "req_len": 0, "work_ms": 0, "other": true}));
                next_id += 1;
            },
            12 => out.push(json!({"e": "other_cut"})),
            13 => out.push(json!({"e": "other_mend"})),
            // ... or after some more bytes from the client: a request stopped half-way
            8 if big && link_up => {
                let bytes = [0i64, 9, 40, 200, 20_000, 100_000][rng.gen_range(0..6)];
                out.push(json!({"e": "hold_request", "bytes": bytes}));
            },
            // the link goes on hold after some more bytes from the server: inside the reply's head, or half-way through its body
            7 if big && link_up => {
                let bytes = [0i64, 9, 40, 200, 20_000, 100_000][rng.gen_range(0..6)];
                out.push(json!({"e": "hold_reply", "bytes": bytes}));
            },
            _ => out.push(json!({"e": "tick"})),
        }
    }
    if next_id == 1 {
        out.push(json!({"e": "send", "r": 1, "timeout": 4, "reply_len": 0}));
    }
    out
}

pub async fn run() {
    let sub = std::env::args().nth(2).unwrap_or_default();
    let out = arg_or("--out", "trace.ndjson");
    let seed: u64 = arg_or("--seed", "1").parse().unwrap();
    let par: usize = arg_or("--parallel", "24").parse().unwrap();
    let mut scheds: Vec<Vec<Value>> = vec![];
    match sub.as_str() {
        "replay-schedules" => {
            let mut seen = std::collections::HashSet::new();
            let stride: usize = arg_or("--stride", "1").parse().unwrap();
            let mut n = 0usize;
            for_each_payload(open_input(&arg_or("--input", "-")), None, |tag, v| {
                if tag == "SCHED" && seen.insert(v["sched"].to_string()) {
                    n += 1;
                    if n % stride == seed as usize % stride {
                        scheds.push(v["sched"].as_array().unwrap().clone());
                    }
                }
            });
        },
        "random-schedules" => {
            let n: u64 = arg_or("--n", "300").parse().unwrap();
            let mut rng = StdRng::seed_from_u64(seed);
            for _ in 0..n {
                scheds.push(random_schedule(&mut rng));
            }
        },
        other => {
            eprintln!("unknown netfaults command {other:?}");
            std::process::exit(2);
        },
    }
    let sem = Arc::new(tokio::sync::Semaphore::new(par));
    let mut handles = vec![];
    for (i, sched) in scheds.iter().enumerate() {
        for slow_ms in [0u64, 150] {
            if slow_ms > 0 && i % 4 != 0 {
                continue;
            }
            let permit = sem.clone().acquire_owned().await.unwrap();
            let sched = sched.clone();
            handles.push((i, slow_ms, tokio::spawn(async move {
                let r = run_schedule(sched, slow_ms).await;
                drop(permit);
                r
            })));
        }
    }
    let mut f = std::io::BufWriter::new(std::fs::File::create(&out).expect("create trace"));
    let mut requests = 0u64;
    let mut outcomes: BTreeMap<String, u64> = BTreeMap::new();
    let mut held_replies = 0u64;
    for (i, slow_ms, h) in handles {
        let sched = &scheds[i];
        // (faults of the first client's link, a handler that takes its time, and - for the second client's own requests - the
        // cuts of its link; a cut of the second client's link is no fault for the first client)
        let faults = sched.iter().filter(|s| ["partition", "hold", "repair", "release", "hold_reply", "hold_request"].contains(&s["e"].as_str().unwrap())).count()
            + sched.iter().filter(|s| s["work_ms"].as_u64().unwrap_or(0) > 0).count();
        let other_ids: Vec<u64> = sched.iter().filter(|s| s["other"].as_bool().unwrap_or(false)).map(|s| s["r"].as_u64().unwrap()).collect();
        let other_cuts = sched.iter().filter(|s| s["e"] == "other_cut").count();
        held_replies += sched.iter().filter(|s| s["e"] == "hold_reply" || s["e"] == "hold_request").count() as u64;
        let (obs, runs) = match h.await {
            Ok(x) => x,
            Err(e) => {
                // a panic of the code under test inside the schedule's task
                writeln!(f, "{}", json!({"sched": i, "slow_ms": slow_ms, "id": 0, "timeout_ms": 0, "outcome": format!("other:panic {e}"),
                    "reply_id": 0, "payload_ok": false, "elapsed_ms": 0, "handler_runs": 0, "faults": faults, "slack_ms": SLACK_MS,
                    "transport": "tcp", "schedule": Value::Array(sched.clone())})).unwrap();
                continue;
            },
        };
        for o in obs {
            requests += 1;
            *outcomes.entry(o.outcome.clone()).or_default() += 1;
            let odd = o.outcome.starts_with("other") || (faults == 0 && slow_ms == 0 && o.outcome != "reply") || (o.timeout_ms > 0 && (o.outcome == "pending" || o.elapsed_ms > o.timeout_ms + SLACK_MS))
                || runs.get(&o.id).cloned().unwrap_or(0) > 1 || (o.outcome == "reply" && (!o.payload_ok || o.reply_id != o.id));
            writeln!(f, "{}", json!({"sched": i, "slow_ms": slow_ms, "id": o.id, "timeout_ms": o.timeout_ms, "outcome": o.outcome,
                "reply_id": o.reply_id, "payload_ok": o.payload_ok, "elapsed_ms": o.elapsed_ms,
                "handler_runs": runs.get(&o.id).cloned().unwrap_or(0),
                "faults": faults + if slow_ms > 0 { 1 } else { 0 } + if other_ids.contains(&o.id) { other_cuts } else { 0 },
                "slack_ms": SLACK_MS, "transport": "tcp",
                // the schedule goes with every event that looks odd (for the replay file) and with a sample of the others
                "schedule": if odd || requests % 400 == 1 { Value::Array(sched.clone()) } else { json!([]) }})).unwrap();
        }
    }
    f.flush().unwrap();
    println!("{}", json!({"schedules": scheds.len(), "requests": requests, "outcomes": outcomes, "held_replies": held_replies}));
}
