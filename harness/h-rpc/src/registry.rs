//! C13 (G): every add/remove history emitted by MC_RpcRegistry is replayed on a fresh real
//! `Server` listening on loopback; after every step every (service, message) pair is probed
//! with a real client and compared with the specification's expectation.

use std::collections::BTreeSet;

use datacake_rpc::{Channel, ErrorCode, Handler, Request, RpcClient, RpcService, Server, ServiceRegistry, Status};
use rkyv::{Archive, Deserialize, Serialize};
use serde_json::{json, Value};
use vcommon::{arg_or, for_each_payload, open_input, Summary};

#[repr(C)]
#[derive(Serialize, Deserialize, Archive, Debug)]
#[archive(check_bytes)]
pub struct Ping {
    value: u64,
}

#[repr(C)]
#[derive(Serialize, Deserialize, Archive, Debug)]
#[archive(check_bytes)]
/// (the second message type; its name - and with it its path - starts with the first one's: paths are all a server can
/// tell message types by)
pub struct PingPong {
    value: u64,
}

/// requests with a value at or above HOLD stay inside their handler until the gate opens
const HOLD: u64 = 500_000;

#[derive(Clone, Default)]
pub struct Gate {
    entered: std::sync::Arc<std::sync::atomic::AtomicU64>,
    open: std::sync::Arc<tokio::sync::watch::Sender<bool>>,
}

impl Gate {
    fn new() -> Self {
        let (tx, _) = tokio::sync::watch::channel(false);
        Gate { entered: Default::default(), open: std::sync::Arc::new(tx) }
    }
    async fn pass(&self, value: u64) {
        if value >= HOLD {
            self.entered.fetch_add(1, std::sync::atomic::Ordering::SeqCst);
            let mut rx = self.open.subscribe();
            while !*rx.borrow() {
                if rx.changed().await.is_err() {
                    break;
                }
            }
        }
    }
}

/// The names the three services register under are related as strings, because names are all a registry can tell
/// services by: A keeps the default (its type name), B's name is a strict prefix of A's, C's name is A's name with a
/// suffix.  To the specification they are three different names, so what happens to one must not touch another.
fn related_name(kind: u8) -> &'static str {
    static NAMES: std::sync::Mutex<std::collections::BTreeMap<u8, &'static str>> = std::sync::Mutex::new(std::collections::BTreeMap::new());
    let base = std::any::type_name::<SvcA>();
    let mut names = NAMES.lock().unwrap();
    *names.entry(kind).or_insert_with(|| match kind {
        2 => Box::leak(base[..base.len() - 1].to_string().into_boxed_str()),
        3 => Box::leak(format!("{base}Audit").into_boxed_str()),
        _ => base,
    })
}

macro_rules! service {
    ($name:ident, $tag:expr, [$($reg:ty),*]) => {
        pub struct $name(pub Gate);
        impl RpcService for $name {
            fn service_name() -> &'static str {
                related_name($tag)
            }
            fn register_handlers(registry: &mut ServiceRegistry<Self>) {
                $(registry.add_handler::<$reg>();)*
            }
        }
        #[datacake_rpc::async_trait]
        impl Handler<Ping> for $name {
            type Reply = u64;
            async fn on_message(&self, msg: Request<Ping>) -> Result<Self::Reply, Status> {
                self.0.pass(msg.value).await;
                Ok($tag * 1_000_000 + 100_000 + msg.value % HOLD)
            }
        }
        #[datacake_rpc::async_trait]
        impl Handler<PingPong> for $name {
            type Reply = u64;
            async fn on_message(&self, msg: Request<PingPong>) -> Result<Self::Reply, Status> {
                Ok($tag * 1_000_000 + 200_000 + msg.value % HOLD)
            }
        }
    };
}

service!(SvcA, 1, [Ping]);
service!(SvcB, 2, [Ping]);
service!(SvcC, 3, [Ping, PingPong]);

/// A second service type that registers under SvcA's name (`service_name` overridden) and handles the other message.
pub struct SvcA2(pub Gate);
impl RpcService for SvcA2 {
    fn service_name() -> &'static str {
        SvcA::service_name()
    }
    fn register_handlers(registry: &mut ServiceRegistry<Self>) {
        registry.add_handler::<PingPong>();
    }
}
#[datacake_rpc::async_trait]
impl Handler<PingPong> for SvcA2 {
    type Reply = u64;
    async fn on_message(&self, msg: Request<PingPong>) -> Result<Self::Reply, Status> {
        Ok(4 * 1_000_000 + 200_000 + msg.value % HOLD)
    }
}

/// Services nobody touches after registration. A server that holds them has a handler table of some size, so that two
/// registry changes made at the same moment really overlap.
pub struct Bystander<const N: u8>;
impl<const N: u8> RpcService for Bystander<N> {
    fn service_name() -> &'static str {
        static NAMES: std::sync::Mutex<std::collections::BTreeMap<u8, &'static str>> = std::sync::Mutex::new(std::collections::BTreeMap::new());
        let mut names = NAMES.lock().unwrap();
        *names.entry(N).or_insert_with(|| Box::leak(format!("bystander-{N}").into_boxed_str()))
    }
    fn register_handlers(registry: &mut ServiceRegistry<Self>) {
        registry.add_handler::<Ping>();
        registry.add_handler::<PingPong>();
    }
}
#[datacake_rpc::async_trait]
impl<const N: u8> Handler<Ping> for Bystander<N> {
    type Reply = u64;
    async fn on_message(&self, msg: Request<Ping>) -> Result<Self::Reply, Status> {
        Ok(9_000_000 + N as u64 * 1000 + msg.value % 1000)
    }
}
#[datacake_rpc::async_trait]
impl<const N: u8> Handler<PingPong> for Bystander<N> {
    type Reply = u64;
    async fn on_message(&self, msg: Request<PingPong>) -> Result<Self::Reply, Status> {
        Ok(9_500_000 + N as u64 * 1000 + msg.value % 1000)
    }
}
macro_rules! add_bystanders {
    ($server:expr, $($n:literal)*) => { $( $server.add_service(Bystander::<$n>); )* };
}
fn add_all_bystanders(server: &Server) {
    add_bystanders!(server, 0 1 2 3 4 5 6 7 8 9 10 11 12 13 14 15 16 17 18 19 20 21 22 23 24 25 26 27 28 29 30 31
        32 33 34 35 36 37 38 39 40 41 42 43 44 45 46 47 48 49 50 51 52 53 54 55 56 57 58 59 60 61 62 63);
}

/// One registry change, as a closure that can run on a thread of its own.
fn registry_change<'a>(server: &'a Server, gate: &Gate, op: &Value) -> Box<dyn FnOnce() + Send + 'a> {
    let (kind, svc) = (op[0].as_str().unwrap().to_string(), op[1].as_str().unwrap().to_string());
    let gate = gate.clone();
    Box::new(move || match (kind.as_str(), svc.as_str()) {
        ("add", "A") => server.add_service(SvcA(gate)),
        ("add", "B") => server.add_service(SvcB(gate)),
        ("add", "C") => server.add_service(SvcC(gate)),
        ("add", "A2") => server.add_service(SvcA2(gate)),
        ("remove", s) => server.remove_service(service_name(s)),
        other => panic!("bad registry change {other:?}"),
    })
}

#[derive(Debug, PartialEq)]
enum Probe {
    Served,
    Unknown,
    Wrong(String),
}

async fn probe<S, M>(chan: &Channel, msg: M, expect_reply: u64) -> Probe
where
    S: RpcService + Handler<M, Reply = u64>,
    M: datacake_rpc::RequestContents + datacake_rpc::TryAsBody,
{
    let client = RpcClient::<S>::new(chan.clone());
    // a connection that cannot be opened (the machine is out of ephemeral ports, ...) says nothing about the registry:
    // a few more attempts, then it is a tool error
    for attempt in 0..20 {
        match client.send(&msg).await {
            Ok(v) if v == expect_reply => return Probe::Served,
            Ok(v) => return Probe::Wrong(format!("served by the wrong handler: reply {v:?}, expected {expect_reply}")),
            Err(s) if s.code == ErrorCode::ServiceUnavailable => return Probe::Unknown,
            Err(s) if s.code == ErrorCode::ConnectionError => {
                if attempt == 19 {
                    eprintln!("tool error: no connection to the test server: {s:?}");
                    std::process::exit(2);
                }
                tokio::time::sleep(std::time::Duration::from_millis(500)).await;
            },
            Err(s) => return Probe::Wrong(format!("unexpected error {s:?}")),
        }
    }
    unreachable!()
}

/// All six (service, message) pairs -> set of served pairs (or an error description).
async fn probe_all(chan: &Channel, nonce: u64) -> Result<BTreeSet<(String, String)>, String> {
    let mut served = BTreeSet::new();
    let results = vec![
        ("A", "Ping", probe::<SvcA, Ping>(chan, Ping { value: nonce }, 1_100_000 + nonce).await),
        // Pong under the name "A" is registered by SvcA2 only (SvcA implements it but never registers it)
        ("A", "Pong", probe::<SvcA2, PingPong>(chan, PingPong { value: nonce }, 4_200_000 + nonce).await),
        ("B", "Ping", probe::<SvcB, Ping>(chan, Ping { value: nonce }, 2_100_000 + nonce).await),
        ("B", "Pong", probe::<SvcB, PingPong>(chan, PingPong { value: nonce }, 2_200_000 + nonce).await),
        ("C", "Ping", probe::<SvcC, Ping>(chan, Ping { value: nonce }, 3_100_000 + nonce).await),
        ("C", "Pong", probe::<SvcC, PingPong>(chan, PingPong { value: nonce }, 3_200_000 + nonce).await),
    ];
    for (s, m, r) in results {
        match r {
            Probe::Served => {
                served.insert((s.to_string(), m.to_string()));
            },
            Probe::Unknown => {},
            Probe::Wrong(w) => return Err(format!("{s}/{m}: {w}")),
        }
    }
    Ok(served)
}

fn service_name(s: &str) -> &'static str {
    match s {
        "A" => SvcA::service_name(),
        "B" => SvcB::service_name(),
        "C" => SvcC::service_name(),
        other => panic!("unknown service {other}"),
    }
}

pub async fn replay() {
    let input = arg_or("--input", "-");
    let out = arg_or("--out", "-");
    let passthrough = vcommon::arg("--passthrough");
    let mut hists: Vec<Value> = vec![];
    for_each_payload(open_input(&input), passthrough.as_deref(), |tag, v| {
        if tag == "HIST" {
            hists.push(v);
        }
    });
    let mut sum = Summary::default();
    let mut probes = 0u64;
    let mut served_seen = 0u64;
    let mut unknown_seen = 0u64;
    let conc: usize = arg_or("--concurrency", "12").parse().unwrap();
    let mut set = tokio::task::JoinSet::new();
    let mut next = 0usize;
    let total = hists.len();
    let hists = std::sync::Arc::new(hists);
    let started = std::time::Instant::now();
    while next < total || !set.is_empty() {
        while next < total && set.len() < conc {
            // every history opens a connection of its own; closed connections keep their port for a minute, so the
            // rate is kept well below (ephemeral ports / 60 s)
            let due = std::time::Duration::from_micros(next as u64 * 6000);
            if started.elapsed() < due {
                tokio::time::sleep(due.saturating_sub(started.elapsed())).await;
            }
            let hs = hists.clone();
            let hi = next;
            set.spawn(async move { (hi, run_history(hi, &hs[hi]).await) });
            next += 1;
        }
        if let Some(r) = set.join_next().await {
            let (hi, res) = r.expect("history task");
            sum.evaluations += 1;
            probes += res.probes;
            served_seen += res.served;
            unknown_seen += res.unknown;
            if let Some(v) = res.violation {
                sum.violation(v);
            }
            if hi % 500 == 0 {
                sum.sample(res.sample);
            }
        }
    }
    sum.set("probes", probes);
    sum.set("served_probes", served_seen);
    sum.set("refused_probes", unknown_seen);
    sum.write(&out);
}

struct HistResult {
    probes: u64,
    served: u64,
    unknown: u64,
    violation: Option<Value>,
    sample: Value,
}

pub async fn listen_somewhere() -> (Server, std::net::SocketAddr) {
    for _ in 0..200 {
        let addr = crate::free_addr();
        if let Ok(s) = Server::listen(addr).await {
            return (s, addr);
        }
    }
    eprintln!("could not bind a loopback port");
    std::process::exit(2);
}

async fn run_history(hi: usize, h: &Value) -> HistResult {
    let mut res = HistResult { probes: 0, served: 0, unknown: 0, violation: None, sample: Value::Null };
    let (server, addr) = listen_somewhere().await;
    let chan = Channel::connect(addr);
    let gate = Gate::new();
    let mut held: Vec<tokio::task::JoinHandle<bool>> = vec![];
    let steps = h["hist"].as_array().unwrap();
    let exps = h["exps"].as_array().unwrap();
    let mut observed_steps = vec![];
    if steps.iter().any(|st| st[0] == "par") {
        add_all_bystanders(&server);
    }
    for (i, st) in steps.iter().enumerate() {
        let (kind, svc) = (st[0].as_str().unwrap(), st[1].as_str().unwrap_or(""));
        match (kind, svc) {
            ("add", "A") => server.add_service(SvcA(gate.clone())),
            ("add", "B") => server.add_service(SvcB(gate.clone())),
            ("add", "C") => server.add_service(SvcC(gate.clone())),
            ("add", "A2") => server.add_service(SvcA2(gate.clone())),
            ("remove", s) => server.remove_service(service_name(s)),
            ("par", _) => {
                // the two changes are made by two threads that leave a spin barrier together
                let (c1, c2) = (registry_change(&server, &gate, &st[1]), registry_change(&server, &gate, &st[2]));
                let ready = std::sync::atomic::AtomicUsize::new(0);
                std::thread::scope(|sc| {
                    for c in [c1, c2] {
                        let ready = &ready;
                        sc.spawn(move || {
                            ready.fetch_add(1, std::sync::atomic::Ordering::SeqCst);
                            while ready.load(std::sync::atomic::Ordering::SeqCst) < 2 {
                                std::hint::spin_loop();
                            }
                            c();
                        });
                    }
                });
                // and the bystanders are still served
                res.probes += 1;
                let n = (hi % 64) as u64;
                let ok = match n % 4 {
                    0 => probe::<Bystander<0>, Ping>(&chan, Ping { value: 5 }, 9_000_005).await,
                    1 => probe::<Bystander<21>, PingPong>(&chan, PingPong { value: 5 }, 9_521_005).await,
                    2 => probe::<Bystander<42>, Ping>(&chan, Ping { value: 5 }, 9_042_005).await,
                    _ => probe::<Bystander<63>, PingPong>(&chan, PingPong { value: 5 }, 9_563_005).await,
                };
                if ok != Probe::Served {
                    res.violation = Some(json!({"property": "C13", "hist": h["hist"], "step": i + 1,
                        "why": [format!("two registry changes made at the same time disabled a service that neither of them names: {ok:?}")]}));
                    break;
                }
                res.served += 1;
            },
            ("hold", s) => {
                // a request on the SAME connection that stays inside its handler (if it is dispatched at all)
                let before = gate.entered.load(std::sync::atomic::Ordering::SeqCst);
                let chan2 = chan.clone();
                let s2 = s.to_string();
                let task = tokio::spawn(async move {
                    let v = HOLD + 7;
                    match s2.as_str() {
                        "A" => RpcClient::<SvcA>::new(chan2).send(&Ping { value: v }).await.is_ok(),
                        "B" => RpcClient::<SvcB>::new(chan2).send(&Ping { value: v }).await.is_ok(),
                        _ => RpcClient::<SvcC>::new(chan2).send(&Ping { value: v }).await.is_ok(),
                    }
                });
                // wait until the handler was entered or the request came back (refused)
                let mut entered = false;
                for _ in 0..2000 {
                    if gate.entered.load(std::sync::atomic::Ordering::SeqCst) > before {
                        entered = true;
                        break;
                    }
                    if task.is_finished() {
                        break;
                    }
                    tokio::time::sleep(std::time::Duration::from_micros(200)).await;
                }
                let expected_dispatch = i > 0 && exps[i - 1].as_array().unwrap().iter().any(|p| p[0] == s && p[1] == "Ping");
                let expected_dispatch = if i == 0 { false } else { expected_dispatch };
                if entered != expected_dispatch {
                    res.violation = Some(json!({"property": "C13", "hist": h["hist"], "step": i + 1,
                        "why": [format!("a request for service {s} arriving at step {} was {} although the service was {}",
                                        i + 1, if entered { "dispatched" } else { "refused" }, if expected_dispatch { "registered" } else { "not registered" })]}));
                }
                held.push(task);
            },
            ("release", _) => {
                let _ = gate.open.send(true);
                for t in held.drain(..) {
                    let _ = t.await;
                }
                let _ = gate.open.send(false);
            },
            other => panic!("bad step {other:?}"),
        }
        let expected: BTreeSet<(String, String)> = exps[i]
            .as_array()
            .unwrap()
            .iter()
            .map(|p| (p[0].as_str().unwrap().to_string(), p[1].as_str().unwrap().to_string()))
            .collect();
        res.probes += 6;
        match probe_all(&chan, (hi as u64 * 10 + i as u64) % 90_000).await {
            Ok(served) => {
                res.served += served.len() as u64;
                res.unknown += 6 - served.len() as u64;
                observed_steps.push(json!(served));
                if served != expected {
                    let extra: Vec<_> = served.difference(&expected).collect();
                    let missing: Vec<_> = expected.difference(&served).collect();
                    res.violation = Some(json!({"property": "C13", "hist": h["hist"], "step": i + 1,
                        "why": [format!("after step {} served-but-not-registered: {:?}; registered-but-refused: {:?}", i + 1, extra, missing)],
                        "expected": exps[i], "observed": served}));
                    break;
                }
            },
            Err(w) => {
                res.violation = Some(json!({"property": "C13", "hist": h["hist"], "step": i + 1, "why": [w]}));
                break;
            },
        }
    }
    res.sample = json!({"hist": h["hist"], "expected_served_after_each_step": h["exps"], "observed": observed_steps});
    let _ = gate.open.send(true);
    for t in held.drain(..) {
        t.abort();
    }
    server.shutdown();
    res
}
