//! C14: schedules of fault events, sends and waits (from RpcNet.tla, or random) executed against the
//! real datacake-rpc client and server inside a turmoil simulation. A conductor task on the client
//! host performs the schedule in simulated time; every request runs in a task of its own. One NDJSON
//! event per request for Trace_RpcNet.tla.

use std::collections::BTreeMap;
use std::io::Write;
use std::net::{IpAddr, Ipv4Addr, SocketAddr};
use std::sync::{Arc, Mutex};
use std::time::Duration;

use datacake_rpc::{Channel, ErrorCode, Handler, Request, RpcClient, RpcService, Server, ServiceRegistry, Status};
use rand::rngs::StdRng;
use rand::{Rng, SeedableRng};
use rkyv::{Archive, Deserialize, Serialize};
use serde_json::{json, Value};
use turmoil::Builder;
use vcommon::{arg_or, for_each_payload, open_input};

const PORT: u16 = 9999;
const TICK_MS: u64 = 500;

#[repr(C)]
#[derive(Serialize, Deserialize, Archive, Debug, Clone)]
#[archive(check_bytes)]
pub struct Ping {
    id: u64,
    payload: Vec<u8>,
}

#[repr(C)]
#[derive(Serialize, Deserialize, Archive, Debug, Clone)]
#[archive(check_bytes)]
pub struct Pong {
    id: u64,
    payload: Vec<u8>,
}

pub struct Echo {
    runs: Arc<Mutex<BTreeMap<u64, u64>>>,
    slow_ms: u64,
}

impl RpcService for Echo {
    fn register_handlers(registry: &mut ServiceRegistry<Self>) {
        registry.add_handler::<Ping>();
    }
}

#[datacake_rpc::async_trait]
impl Handler<Ping> for Echo {
    type Reply = Pong;

    async fn on_message(&self, msg: Request<Ping>) -> Result<Self::Reply, Status> {
        let ping: Ping = msg.deserialize_view().map_err(Status::internal)?;
        *self.runs.lock().unwrap().entry(ping.id).or_default() += 1;
        if self.slow_ms > 0 {
            tokio::time::sleep(Duration::from_millis(self.slow_ms)).await;
        }
        // the reply is a function of this very request
        Ok(Pong { id: ping.id, payload: ping.payload.iter().rev().cloned().collect() })
    }
}

fn payload_for(id: u64) -> Vec<u8> {
    (0..(8 + id % 5)).map(|i| (id * 31 + i) as u8).collect()
}

#[derive(Clone, Debug)]
struct Observed {
    id: u64,
    timeout_ms: u64,
    outcome: String,
    reply_id: u64,
    payload_ok: bool,
    elapsed_ms: u64,
}

/// Executes one schedule; returns one observation per request plus the handler run counts.
fn run_schedule(sched: &[Value], slow_ms: u64, seed: u64) -> Result<(Vec<Observed>, BTreeMap<u64, u64>), String> {
    let runs = Arc::new(Mutex::new(BTreeMap::new()));
    let observed: Arc<Mutex<Vec<Observed>>> = Arc::new(Mutex::new(vec![]));
    let mut sim = Builder::new()
        .simulation_duration(Duration::from_secs(120))
        .build_with_rng(Box::new(StdRng::seed_from_u64(seed)));
    let runs_srv = runs.clone();
    sim.host("server", move || {
        let runs = runs_srv.clone();
        async move {
            let server = Server::listen(SocketAddr::new(IpAddr::from(Ipv4Addr::UNSPECIFIED), PORT)).await?;
            server.add_service(Echo { runs, slow_ms });
            std::future::pending::<()>().await;
            Ok(())
        }
    });
    let steps: Vec<Value> = sched.to_vec();
    let obs = observed.clone();
    sim.client("client", async move {
        let channel = Channel::connect(SocketAddr::new(turmoil::lookup("server"), PORT));
        let mut tasks = vec![];
        let mut sent: Vec<(u64, u64)> = vec![];
        for s in &steps {
            match s["e"].as_str().unwrap() {
                "partition" => turmoil::partition("client", "server"),
                "repair" => turmoil::repair("client", "server"),
                "hold" => turmoil::hold("client", "server"),
                "release" => turmoil::release("client", "server"),
                "tick" => tokio::time::sleep(Duration::from_millis(TICK_MS)).await,
                "send" => {
                    let id = s["r"].as_u64().unwrap();
                    // the timeout of this request: a number of ticks (0 = none)
                    let timeout_ms = s["timeout"].as_u64().unwrap() * TICK_MS;
                    let with_timeout = timeout_ms > 0;
                    let mut client = RpcClient::<Echo>::new(channel.clone());
                    if with_timeout {
                        client.set_timeout(Duration::from_millis(timeout_ms));
                    }
                    // every other request goes through a clone of the configured client, the usual way of sharing one
                    // client between tasks: a clone answers to the same configuration
                    let client = if id % 2 == 1 { client.clone() } else { client };
                    sent.push((id, timeout_ms));
                    let obs = obs.clone();
                    tasks.push(tokio::spawn(async move {
                        let start = tokio::time::Instant::now();
                        let msg = Ping { id, payload: payload_for(id) };
                        let res = client.send(&msg).await;
                        let elapsed_ms = start.elapsed().as_millis() as u64;
                        let o = match res {
                            Ok(view) => {
                                let want: Vec<u8> = payload_for(id).iter().rev().cloned().collect();
                                let pong: Pong = view.deserialize_view().expect("deserialize reply");
                                Observed { id, timeout_ms, outcome: "reply".into(),
                                           reply_id: pong.id, payload_ok: pong.payload == want, elapsed_ms }
                            },
                            Err(st) => Observed { id, timeout_ms,
                                                  outcome: match st.code {
                                                      ErrorCode::ConnectionError => "ConnectionError".into(),
                                                      ErrorCode::Timeout => "Timeout".into(),
                                                      other => format!("other:{other:?}"),
                                                  }, reply_id: 0, payload_ok: false, elapsed_ms },
                        };
                        obs.lock().unwrap().push(o);
                    }));
                    // let the request task start before the next schedule step
                    tokio::task::yield_now().await;
                },
                other => panic!("schedule step {other}"),
            }
        }
        // give everything that can still finish the time to do so, then stop
        tokio::time::sleep(Duration::from_millis(8 * TICK_MS)).await;
        let done: Vec<u64> = obs.lock().unwrap().iter().map(|o| o.id).collect();
        for (id, t) in sent {
            if !done.contains(&id) {
                obs.lock().unwrap().push(Observed { id, timeout_ms: t, outcome: "pending".into(), reply_id: 0, payload_ok: false, elapsed_ms: 0 });
            }
        }
        for t in tasks {
            t.abort();
        }
        Ok(())
    });
    sim.run().map_err(|e| e.to_string())?;
    let o = observed.lock().unwrap().clone();
    let r = runs.lock().unwrap().clone();
    Ok((o, r))
}

fn random_schedule(rng: &mut StdRng) -> Vec<Value> {
    let mut out = vec![];
    let n = rng.gen_range(4..14);
    let mut next_id = 1;
    let mut link_up = true;
    for _ in 0..n {
        match rng.gen_range(0..10) {
            0 => { out.push(json!({"e": "partition"})); link_up = false; },
            1 => { out.push(json!({"e": "hold"})); link_up = false; },
            2 if !link_up => { out.push(json!({"e": "repair"})); link_up = true; },
            3 if !link_up => { out.push(json!({"e": "release"})); link_up = true; },
            4 | 5 | 6 => { let t = [0u64, 0, 1, 2, 4, 4, 6][rng.gen_range(0..7)]; out.push(json!({"e": "send", "r": next_id, "timeout": t})); next_id += 1; },
            _ => out.push(json!({"e": "tick"})),
        }
    }
    if next_id == 1 {
        out.push(json!({"e": "send", "r": 1, "timeout": 4}));
    }
    out
}

fn main() {
    let cmd = std::env::args().nth(1).unwrap_or_default();
    let out = arg_or("--out", "trace.ndjson");
    let seed: u64 = arg_or("--seed", "1").parse().unwrap();
    let mut scheds: Vec<Vec<Value>> = vec![];
    match cmd.as_str() {
        "replay-schedules" => {
            let mut seen = std::collections::HashSet::new();
            let max: usize = arg_or("--max", "100000000").parse().unwrap();
            let stride: usize = arg_or("--stride", "1").parse().unwrap();
            let mut n = 0usize;
            for_each_payload(open_input(&arg_or("--input", "-")), vcommon::arg("--passthrough").as_deref(), |tag, v| {
                if tag == "SCHED" && seen.insert(v["sched"].to_string()) {
                    n += 1;
                    if n % stride == seed as usize % stride && scheds.len() < max {
                        scheds.push(v["sched"].as_array().unwrap().clone());
                    }
                }
            });
        },
        "random-schedules" => {
            let n: u64 = arg_or("--n", "500").parse().unwrap();
            let mut rng = StdRng::seed_from_u64(seed);
            for _ in 0..n {
                scheds.push(random_schedule(&mut rng));
            }
        },
        other => {
            eprintln!("unknown command {other:?}");
            std::process::exit(2);
        },
    }
    let mut f = std::io::BufWriter::new(std::fs::File::create(&out).expect("create trace"));
    let mut requests = 0u64;
    let mut outcomes: BTreeMap<String, u64> = BTreeMap::new();
    for (i, sched) in scheds.iter().enumerate() {
        let faults = sched.iter().filter(|s| ["partition", "hold", "repair", "release"].contains(&s["e"].as_str().unwrap())).count();
        for slow_ms in [0u64, 700] {
            if slow_ms > 0 && i % 4 != 0 {
                continue;
            }
            match run_schedule(sched, slow_ms, seed.wrapping_add(i as u64)) {
                Err(e) => {
                    eprintln!("simulation failed on schedule {i}: {e}");
                    std::process::exit(2);
                },
                Ok((obs, runs)) => {
                    for o in obs {
                        requests += 1;
                        *outcomes.entry(o.outcome.clone()).or_default() += 1;
                        writeln!(f, "{}", json!({"sched": i, "slow_ms": slow_ms, "id": o.id, "timeout_ms": o.timeout_ms, "outcome": o.outcome,
                            "reply_id": o.reply_id, "payload_ok": o.payload_ok, "elapsed_ms": o.elapsed_ms,
                            "handler_runs": runs.get(&o.id).cloned().unwrap_or(0),
                            // a slow handler is a fault in the sense of C14's "slow servers": the no-fault clause applies to fast handlers only
                            "faults": faults + if slow_ms > 0 { 1 } else { 0 },
                            "schedule": if requests % 400 == 1 { Value::Array(sched.clone()) } else { json!([]) }})).unwrap();
                    }
                },
            }
        }
    }
    f.flush().unwrap();
    println!("{}", json!({"schedules": scheds.len(), "requests": requests, "outcomes": outcomes}));
}
