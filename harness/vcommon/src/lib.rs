//! Shared helpers of the conformance harnesses: reading TLC-generated
//! behaviours, writing verdict summaries.

use std::io::BufRead;

use serde_json::Value;

/// Extracts tag and JSON payload of a line `<<"TAG", "....">>` printed by
/// TLC's `PrintT(<<"TAG", ToJson(..)>>)`.  Returns `None` for other lines.
pub fn tlc_payload(line: &str) -> Option<(String, Value)> {
    let line = line.trim_end();
    if !line.starts_with("<<\"") || !line.ends_with(">>") {
        return None;
    }
    let rest = &line[3..];
    let end = rest.find('"')?;
    let tag = &rest[..end];
    let rest = rest[end + 1..].strip_prefix(", ")?;
    let inner = &rest[..rest.len() - 2];
    // The inner part is a TLA+ string literal whose escapes are JSON compatible.
    let s: String = serde_json::from_str(inner).ok()?;
    let v = serde_json::from_str(&s).ok()?;
    Some((tag.to_string(), v))
}

/// Iterates over the tagged payloads of a TLC output stream. Every other
/// line (TLC's own progress and result messages) is appended to
/// `passthrough` if given.
pub fn for_each_payload<R: BufRead>(
    reader: R,
    passthrough: Option<&str>,
    mut f: impl FnMut(&str, Value),
) {
    use std::io::Write;
    let mut side = passthrough.map(|p| std::fs::File::create(p).expect("create passthrough"));
    for line in reader.lines() {
        let line = match line {
            Ok(l) => l,
            Err(_) => break,
        };
        match tlc_payload(&line) {
            Some((tag, v)) => f(&tag, v),
            None => {
                if let Some(w) = side.as_mut() {
                    let _ = writeln!(w, "{}", line);
                }
            },
        }
    }
}

/// Opens `--input` (a file, or `-` for stdin).
pub fn open_input(path: &str) -> Box<dyn BufRead> {
    if path == "-" {
        Box::new(std::io::BufReader::with_capacity(1 << 20, std::io::stdin()))
    } else {
        Box::new(std::io::BufReader::with_capacity(
            1 << 20,
            std::fs::File::open(path).expect("open input"),
        ))
    }
}

/// Accumulates the outcome of one harness run; printed as one JSON object.
#[derive(Default)]
pub struct Summary {
    pub evaluations: u64,
    pub violations: Vec<Value>,
    pub violation_count: u64,
    pub drift: u64,
    pub drift_samples: Vec<Value>,
    pub samples: Vec<Value>,
    pub extra: serde_json::Map<String, Value>,
}

impl Summary {
    pub fn violation(&mut self, v: Value) {
        self.violation_count += 1;
        if self.violations.len() < 20 {
            self.violations.push(v);
        }
    }

    pub fn drift(&mut self, v: Value) {
        self.drift += 1;
        if self.drift_samples.len() < 5 {
            self.drift_samples.push(v);
        }
    }

    pub fn sample(&mut self, v: Value) {
        if self.samples.len() < 5 {
            self.samples.push(v);
        }
    }

    pub fn set(&mut self, k: &str, v: impl Into<Value>) {
        self.extra.insert(k.to_string(), v.into());
    }

    pub fn to_json(&self) -> Value {
        let mut m = self.extra.clone();
        m.insert("evaluations".into(), self.evaluations.into());
        m.insert("violation_count".into(), self.violation_count.into());
        m.insert("violations".into(), self.violations.clone().into());
        m.insert("drift".into(), self.drift.into());
        m.insert("drift_samples".into(), self.drift_samples.clone().into());
        m.insert("samples".into(), self.samples.clone().into());
        Value::Object(m)
    }

    /// Writes the summary to `path` (or stdout when `-`).
    pub fn write(&self, path: &str) {
        let s = serde_json::to_string_pretty(&self.to_json()).unwrap();
        if path == "-" {
            println!("{}", s);
        } else {
            std::fs::write(path, s).expect("write summary");
        }
    }
}

/// Minimal `--key value` argument lookup.
pub fn arg(name: &str) -> Option<String> {
    let args: Vec<String> = std::env::args().collect();
    args.iter()
        .position(|a| a == name)
        .and_then(|i| args.get(i + 1).cloned())
}

pub fn arg_or(name: &str, default: &str) -> String {
    arg(name).unwrap_or_else(|| default.to_string())
}

pub fn arg_list_u64(name: &str, default: &str) -> Vec<u64> {
    arg_or(name, default)
        .split(',')
        .filter(|s| !s.is_empty())
        .map(|s| s.trim().parse().expect("int list"))
        .collect()
}

/// A loopback address with a port that was free a moment ago. When the machine is out of ephemeral ports (many
/// short-lived connections in TIME_WAIT, other processes) this waits and tries again; after two minutes it gives up
/// as a tool error - never as a crash, which a check would have to take for a failure of the code under test.
pub fn free_addr() -> std::net::SocketAddr {
    let start = std::time::Instant::now();
    loop {
        match std::net::TcpListener::bind("127.0.0.1:0").and_then(|l| l.local_addr()) {
            Ok(a) => return a,
            Err(e) => {
                if start.elapsed() > std::time::Duration::from_secs(120) {
                    eprintln!("tool error: no loopback port available: {e}");
                    std::process::exit(2);
                }
                std::thread::sleep(std::time::Duration::from_millis(200));
            },
        }
    }
}
