"""Recorded keyspace-actor events (hooks in keyspace/actor.rs, file sink DATACAKE_VERIF_TRACE_DIR)
-> the NDJSON Trace_KeyspaceActor.tla reads.

Lines are grouped by (file, actor) into sections that start with a `spawn` line; keys, origin node
ids and times are replaced by their ranks (the set only ever compares them), and the header carries
the table rank(t) -> rank(max(t - F, 0)) that stands in for MinusF."""
import glob
import json
import os


def _stamps_of(ev):
    for field in ("req", "applied", "changed", "removed"):
        for k, ts in ev.get(field) or []:
            yield k, ts
    for post in (ev.get("post"), ev.get("other")):
        if not post:
            continue
        for k, ts in post["ent"]:
            yield k, ts
        for k, ts in post["dead"]:
            yield k, ts
        for m in post["mx"]:
            for n, ts in m:
                yield None, ts
                yield None, [0, 0, n]
        for n, ts in post["safe"]:
            yield None, ts
            yield None, [0, 0, n]


def load_sections(files):
    """-> (sections, skipped) where a section is a list of raw events of one actor, spawn first."""
    sections, skipped = [], 0
    for path in files:
        per_actor = {}
        order = []
        with open(path) as f:
            for line in f:
                line = line.strip()
                if not line or '"ks_' not in line:
                    continue
                ev = json.loads(line)
                if ev.get("ev") not in ("ks_spawn", "ks_op", "ks_diff"):
                    continue
                a = ev["actor"]
                if a not in per_actor:
                    per_actor[a] = []
                    order.append(a)
                per_actor[a].append(ev)
        for a in order:
            evs = sorted(per_actor[a], key=lambda e: e["seq"])
            if any(e.get("post") is None for e in evs):
                skipped += 1        # a state too large to log
                continue
            evs = [e for e in evs if not (e["ev"] == "ks_diff" and e.get("other") is None)]
            if not any(e["ev"] in ("ks_op", "ks_diff") for e in evs):
                continue
            if evs[0]["ev"] != "ks_spawn":
                # actors built by hand in unit tests start empty
                evs.insert(0, {"ev": "ks_spawn", "seq": -1, "actor": a, "name": "?", "f": evs[0]["f"],
                               "post": {"ent": [], "dead": [], "mx": [[], []], "safe": []}})
            sections.append((os.path.basename(path), evs))
    return sections, skipped


def normalise(files, out_path, max_events=None):
    sections, skipped = load_sections(files)
    dropped = 0
    if max_events is not None:
        kept, n = [], 0
        for sec in sections:
            if n + len(sec[1]) > max_events and kept:
                dropped += 1
                continue
            kept.append(sec)
            n += len(sec[1])
        sections = kept
    keys, nodes, times = set(), set(), {0}
    fs = set()
    for _name, evs in sections:
        for ev in evs:
            fs.add(ev["f"])
            for k, ts in _stamps_of(ev):
                if k is not None:
                    keys.add(k)
                times.add(ts[0])
                nodes.add(ts[2])
    if len(fs) > 1:
        raise ValueError("several forgiveness periods in one trace: %r" % fs)
    f = fs.pop() if fs else 0
    for t in list(times):
        times.add(max(t - f, 0))
    krank = {k: i + 1 for i, k in enumerate(sorted(keys))}
    nrank = {n: i + 1 for i, n in enumerate(sorted(nodes))}
    tsorted = sorted(times)
    trank = {t: i for i, t in enumerate(tsorted)}
    # only stamps that occur in the trace are ever shifted; the shifted values themselves get a dummy entry
    mf = [trank.get(max(t - f, 0), 0) for t in tsorted]

    def ts_(ts):
        return [trank[ts[0]], ts[1], nrank[ts[2]]]

    def items(a):
        return [[krank[k], ts_(ts)] for k, ts in a]

    def keyed(pairs):
        out = [[] for _ in krank]
        for k, ts in pairs:
            out[krank[k] - 1] = ts_(ts)
        return out

    def noded(pairs):
        out = [[] for _ in nrank]
        for n, ts in pairs:
            out[nrank[n] - 1] = ts_(ts)
        return out

    def post_(p):
        mx = [noded(m) for m in p["mx"]]
        while len(mx) < 2:
            mx.append(noded([]))
        return {"ent": keyed(p["ent"]), "dead": keyed(p["dead"]), "mx": mx, "safe": noded(p["safe"])}

    counts = {"spawn": 0, "set": 0, "del": 0, "mset": 0, "mdel": 0, "purge": 0, "skip": 0, "err": 0,
              "purged_tombstones": 0, "src1": 0, "diff": 0, "diff_nonempty": 0}
    lines = [{"ev": "header", "keys": len(krank), "nodes": len(nrank), "mf": mf, "f": f}]
    for name, evs in sections:
        for ev in evs:
            if ev["ev"] == "ks_spawn":
                lines.append({"ev": "spawn", "file": name, "actor": ev["actor"], "name": ev.get("name", "?"),
                              "seq": ev["seq"], "post": post_(ev["post"])})
                counts["spawn"] += 1
            elif ev["ev"] == "ks_diff":
                counts["diff"] += 1
                if ev["changed"] or ev["removed"]:
                    counts["diff_nonempty"] += 1
                lines.append({"ev": "diff", "file": name, "actor": ev["actor"], "seq": ev["seq"], "other": post_(ev["other"]),
                              "changed": items(ev["changed"]), "removed": items(ev["removed"]), "post": post_(ev["post"])})
            else:
                counts[ev["kind"]] += 1
                if ev["stored"] in ("skip", "err"):
                    counts[ev["stored"]] += 1
                if ev["kind"] == "purge":
                    counts["purged_tombstones"] += len(ev["req"])
                if ev["src"] == 1:
                    counts["src1"] += 1
                lines.append({"ev": "op", "file": name, "actor": ev["actor"], "seq": ev["seq"], "kind": ev["kind"],
                              "src": ev["src"], "req": items(ev["req"]), "applied": items(ev["applied"]),
                              "stored": ev["stored"], "post": post_(ev["post"])})
    with open(out_path, "w") as out:
        for ln in lines:
            out.write(json.dumps(ln, separators=(",", ":")) + "\n")
    return {"sections": len(sections), "actors_too_large": skipped, "actors_over_budget": dropped, "events": len(lines) - 1, "keys": len(krank),
            "nodes": len(nrank), "times": len(tsorted), "f_units": f, "counts": counts}


def files_in(trace_dir):
    return sorted(glob.glob(os.path.join(trace_dir, "*.ndjson")))
