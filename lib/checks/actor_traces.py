"""(V) Keyspace-actor traces recorded from the real code, validated against Trace_KeyspaceActor.tla.

Sources of traces:
  * the repository's own test suites (eventual-consistency, sqlite, lmdb), built from /repo's working tree with the
    guarded hooks on and run unchanged; every keyspace actor the tests create writes its events through the file sink;
  * any harness run of this framework that is given DATACAKE_VERIF_TRACE_DIR (cluster replays).

Verdicts are the property-level oracles of the trace specification (C04 / C08); a difference from the faithful layer
is reported as drift in the evidence, not as a violation."""
import json
import os
import shutil
import subprocess
import time

import actor_trace
import dist_trace
import vlib

RUSTFLAGS = "--cfg datacake_verif --check-cfg cfg(datacake_verif)"
PACKAGES = {
    "datacake-eventual-consistency": ["--features", "test-utils"],
    "datacake-sqlite": [],
    "datacake-lmdb": [],
}
SUBST = {"Keys": "TraceKeys", "Nodes": "TraceNodes", "MinusF": "TraceMinusF"}
CONSTS = dict(Sources={0, 1}, F=0, FixD6=True)


def repo_dir():
    return os.path.abspath(os.environ.get("VERIF_REPO") or "/repo")


def record_repo_tests(ctx, packages):
    """Runs the packages' own tests with the hooks on; returns (trace dir, per-package summaries)."""
    trace_dir = ctx.path("repo-tests-trace")
    shutil.rmtree(trace_dir, ignore_errors=True)
    os.makedirs(trace_dir)
    env = dict(os.environ, RUSTFLAGS=RUSTFLAGS, CARGO_TARGET_DIR=os.path.join(vlib.WORK, "rt-target"),
               CARGO_NET_OFFLINE="true", DATACAKE_VERIF_TRACE_DIR=trace_dir)
    env.pop("CARGO_ENCODED_RUSTFLAGS", None)
    out = []
    for pkg in packages:
        t0 = time.time()
        cmd = ["cargo", "test", "--offline", "-p", pkg] + PACKAGES[pkg]
        build = subprocess.run(cmd + ["--no-run"], cwd=repo_dir(), env=env, stdout=subprocess.PIPE,
                               stderr=subprocess.STDOUT, text=True, timeout=3000)
        if build.returncode != 0:
            raise vlib.ToolError("building the tests of %s with the hooks on failed:\n%s" % (pkg, build.stdout[-3000:]))
        p = subprocess.run(cmd + ["--", "--test-threads", "4"], cwd=repo_dir(), env=env, stdout=subprocess.PIPE,
                           stderr=subprocess.STDOUT, text=True, timeout=3000)
        passed = failed = 0
        for line in p.stdout.splitlines():
            if line.startswith("test result:"):
                w = line.replace(";", "").split()
                passed += int(w[w.index("passed") - 1])
                failed += int(w[w.index("failed") - 1])
        out.append({"package": pkg, "tests_passed": passed, "tests_failed": failed, "exit": p.returncode,
                    "wall_s": round(time.time() - t0, 1)})
        ctx.log("%s own tests with hooks on: %d passed, %d failed (%.0fs)" % (pkg, passed, failed, time.time() - t0))
        if passed == 0:
            raise vlib.ToolError("no test of %s ran:\n%s" % (pkg, p.stdout[-3000:]))
    return trace_dir, out


def validate(ctx, files, name, props, max_events=None):
    """Normalises and validates the recorded files; appends violations of `props`; returns a coverage dict."""
    norm = ctx.path(name + ".ndjson")
    stats = actor_trace.normalise(files, norm, max_events)
    if stats["events"] - stats["sections"] <= 0:
        raise vlib.ToolError("vacuous: no keyspace-actor operation was recorded in %s" % name)
    r = vlib.validate_trace(ctx, "Trace_KeyspaceActor", CONSTS, norm, name, invariants=["Report"], substitutions=SUBST,
                            timeout=1800)
    if not r["accepted"]:
        raise vlib.ToolError("the trace specification could not step over line %s of %s: %s" %
                             ((r["rejected"] or {}).get("line"), norm, json.dumps(r["rejected"])[:1500]))
    mine = []
    for f in r["fails"]:
        why = [w for w in f["why"] if any(w.startswith(p + ":") for p in props)]
        if why:
            mine.append(dict(f, why=why))
    for f in mine[:3]:
        ctx.violations.append({"engine": "Trace_KeyspaceActor over recorded actor events", "trace": norm,
                               "line": f["line"], "why": f["why"], "event": f["event"]})
    drift = r["drift"] or {"count": 0, "events": []}
    ctx.log("%s: %d actor events of %d actors validated (%s), %d property failures, drift %d" % (
        name, stats["events"] - stats["sections"], stats["sections"],
        ", ".join("%s %d" % (k, v) for k, v in stats["counts"].items() if v), len(mine), drift["count"]))
    return {"trace": name, "actor_events": stats["events"] - stats["sections"], "actors": stats["sections"],
            "actors_too_large_to_log": stats["actors_too_large"], "actors_over_budget": stats["actors_over_budget"], "distinct_keys": stats["keys"],
            "distinct_times": stats["times"], "forgiveness_units_4ms": stats["f_units"], "by_kind": stats["counts"],
            "property_failures": len(mine), "drift_events": drift["count"], "drift_samples": drift["events"][:3],
            "tlc_states": r["states"], "tlc_wall_s": r["wall_s"], "cmd": r["cmd"]}


def validate_distributors(ctx, files, name):
    """Task-distributor events of the same recordings against Distributor.tla (exactly once, FIFO per keyspace).
    The distributor is not the subject of a listed property: differences are reported as drift."""
    norm = ctx.path(name + "_dist.ndjson")
    stats = dist_trace.normalise(files, norm)
    if stats["batches"] == 0:
        return dict(stats, validated=False)
    cfg = vlib.cfg_text(spec="TSpec", constants=dict(Items=set(), Nodes=set(), MaxOps=0), postcondition="Accepted",
                        invariants=["Report"], substitutions={"Keyspaces": "TraceKeyspaces"})
    parsed, text = vlib.run_tlc(ctx, "Trace_Distributor", cfg, name + "_dist", workers=1, timeout=1200, env={"TRACE": norm},
                                dfs_queue=True, xss="1g", xmx="2g")
    drift = None
    for line in text.splitlines():
        if line.startswith('<<"DRIFT", '):
            drift = json.loads(json.loads(line[len('<<"DRIFT", '):-2]))
    if drift is None:
        raise vlib.ToolError("Trace_Distributor did not finish on %s:\n%s" % (norm, "\n".join(text.splitlines()[-20:])))
    ctx.log("%s: %d batches of %d distributors (%d mutations handed in) validated against Distributor.tla, drift %d" % (
        name, stats["batches"], stats["distributors"], stats["mutations_handed_in"], drift["count"]))
    # binding demonstration: a copy of the trace with one document removed from one batch must be noticed
    lines = open(norm).read().splitlines()
    noticed = None
    for i, ln in enumerate(lines):
        e = json.loads(ln)
        if e.get("ev") == "batch" and (e["modified"] or e["removed"]):
            g = (e["modified"] or e["removed"])[0]
            g["items"] = g["items"][1:]
            lines[i] = json.dumps(e, separators=(",", ":"))
            bad = ctx.path(name + "_dist_corrupted.ndjson")
            with open(bad, "w") as f:
                f.write("\n".join(lines) + "\n")
            p2, t2 = vlib.run_tlc(ctx, "Trace_Distributor", cfg, name + "_dist_corrupted", workers=1, timeout=1200, env={"TRACE": bad},
                                  dfs_queue=True, xss="1g", xmx="2g")
            noticed = any(l.startswith('<<"DRIFT", ') and json.loads(json.loads(l[len('<<"DRIFT", '):-2]))["count"] > 0
                          for l in t2.splitlines())
            if not noticed:
                raise vlib.ToolError("binding demonstration failed: a batch with a missing document was accepted by Trace_Distributor")
            break
    return dict(stats, validated=True, drift_events=drift["count"], drift_samples=drift["events"][:3], corrupted_copy_noticed=noticed)


def binding_demo(ctx, files, name):
    """Corrupts one logged stamp of a copy of the trace: the specification has to notice."""
    norm = ctx.path(name + ".ndjson")
    lines = open(norm).read().splitlines()
    idx = None
    for i, ln in enumerate(lines):
        e = json.loads(ln)
        if e.get("ev") == "op" and e["kind"] in ("set", "del") and e["stored"] == "ok":
            idx = i
            break
    if idx is None:
        return None
    e = json.loads(lines[idx])
    k = e["req"][0][0]
    field = "ent" if e["kind"] == "set" else "dead"
    e["post"][field][k - 1] = []          # the operation is logged as applied but the key is not there
    lines[idx] = json.dumps(e, separators=(",", ":"))
    bad = ctx.path(name + "_corrupted.ndjson")
    with open(bad, "w") as f:
        f.write("\n".join(lines) + "\n")
    r = vlib.validate_trace(ctx, "Trace_KeyspaceActor", CONSTS, bad, name + "_corrupted", invariants=["Report"],
                            substitutions=SUBST, timeout=1800)
    noticed = bool(r["fails"]) or (r["drift"] or {}).get("count", 0) > 0 or not r["accepted"]
    if not noticed:
        raise vlib.ToolError("binding demonstration failed: a corrupted trace was accepted without any finding")
    return {"corrupted_line": idx + 1, "property_failures": len(r["fails"]), "drift": (r["drift"] or {}).get("count")}


def run_repo_tests(ctx, props, packages=None):
    packages = packages or list(PACKAGES)
    trace_dir, tests = record_repo_tests(ctx, packages)
    files = actor_trace.files_in(trace_dir)
    cov = validate(ctx, files, "repo_tests_actor_trace", props)
    cov["own_tests"] = tests
    cov["binding_demo"] = binding_demo(ctx, files, "repo_tests_actor_trace")
    cov["distributor_trace"] = validate_distributors(ctx, files, "repo_tests")
    return cov


def long_lived_actors(ctx, props, own_c02=False):
    """Long random request streams on single real keyspace actors (h-ec actor-random): both sources, three origins, purges,
    storage calls that fail part-way, a clock that jumps by more than the forgiveness period, late and too-old requests.
    What an actor keeps between requests stays in it (the edge-complete replay starts every transition on a fresh actor).
    The recorded events go to Trace_KeyspaceActor.tla (`props`); with own_c02 the harness' own comparison of set and storage
    after every request is judged as C02."""
    binary = vlib.build_harness(ctx, "h-ec")
    trace_dir = ctx.path("long-actors-trace")
    shutil.rmtree(trace_dir, ignore_errors=True)
    os.makedirs(trace_dir)
    out = ctx.path("long_actors.json")
    n_actors = 60 if ctx.tier == "quick" else 600
    vlib.run_harness(ctx, [binary, "actor-random", "--actors", str(n_actors), "--len", "150", "--seed", str(ctx.seed), "--out", out],
                     timeout=3000, env={"DATACAKE_VERIF_TRACE_DIR": trace_dir})
    rep = vlib.load_json(out)
    for need in ("failed_storage_calls", "effective_purges", "failed_purges", "clock_jumps"):
        if rep.get(need, 0) == 0:
            raise vlib.ToolError("vacuous long-lived actor run: %s = 0" % need)
    if own_c02:
        for v in rep["violations"][:3]:
            ctx.violations.append(dict(engine="h-ec actor-random (set vs storage after every request)", **v))
    cov = validate(ctx, actor_trace.files_in(trace_dir), "long_actors", props, max_events=None)
    cov["binding_demo"] = binding_demo(ctx, None, "long_actors")
    shutil.rmtree(trace_dir, ignore_errors=True)
    cov.update({k: rep[k] for k in ("actors", "requests", "failed_storage_calls", "purges", "effective_purges", "failed_purges", "clock_jumps",
                                    "too_old_requests")})
    cov["set_vs_storage_disagreements"] = rep["violation_count"]
    ctx.log("long-lived actors: %d actors, %d requests (%d storage calls failed part-way, %d purges of which %d removed tombstones and %d met a "
            "storage failure, %d clock jumps): set and storage disagreed %d times" % (
                rep["actors"], rep["requests"], rep["failed_storage_calls"], rep["purges"], rep["effective_purges"], rep["failed_purges"],
                rep["clock_jumps"], rep["violation_count"]))
    return cov
