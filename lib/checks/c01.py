"""C01 — cluster converges: every node ends with the same last-writer-wins documents."""
import vlib
from checks import cluster_model

ASSUMPTIONS = [
    "all operations within one forgiveness period (time does not advance, F larger than the span of Times); operation stamps respect each node's "
    "hybrid clock (a node's stamps increase and exceed everything it received)",
    "network: any subset / order / duplication (bounded) of direct and batch messages; a batch is applied removals first, then modifications, as two steps; "
    "repair per ordered pair as GetState, Diff, RemovalHalf, Fetch (peer's current storage), ApplyModified, Finish - independently enabled; "
    "the convergence claim is made when nothing is pending and every ordered pair completed an exchange that STARTED after the last operation",
    "exhaustive configs are small (2-3 operations, bounded exchanges); larger universes are explored by TLC simulation, and one configuration (T1: "
    "keyspace tracker on, no direct replication) contributes one shortest behaviour for every distinct converged state",
    "every behaviour is replayed on real nodes (real KeyspaceGroup + Clock with injected wall clock + real Consistency/Replication services over "
    "loopback RPC) step by step; a part of them again with every exchange run in one piece by the real poller code (get_keyspace_diff + "
    "begin_keyspace_sync, or a repair_members round), and again with the model's exchanges replaced by real poller rounds that use each node's "
    "own keyspace tracker, followed by rounds up to the poller's fixpoint; the expectation is the same in all three modes",
    "the progress watcher of begin_keyspace_sync polls every 2 ms instead of 250 ms in these runs (guarded hook; what it looks at is unchanged)",
    "the distributor's own aggregation loop is specified separately (Distributor.tla, validated on the real clusters of C06); here the harness "
    "builds batch payloads as the distributor does; storage failures are C02's subject",
]


def run(ctx):
    results = cluster_model.run_all(ctx, "C01")
    cov = cluster_model.judge(ctx, results, {"C01", "C02", "C05", "C07", "C19"})
    return vlib.finish(ctx, "model_checking", cov, ASSUMPTIONS)


def replay(ctx, path):
    import json
    v = vlib.load_json(path)
    binary = vlib.build_harness(ctx, "h-ec")
    inp = ctx.path("one.txt")
    open(inp, "w").write('<<"BEHAVIOUR", %s>>\n' % json.dumps(json.dumps({"hist": v["behaviour"], "ops": [], "expect": v["expect"]})))
    out = ctx.path("replay_one.json")
    c = v["constants"]
    vlib.run_harness(ctx, [binary, "replay-cluster", "--input", inp, "--out", out, "--f", str(c["F"]), "--nodes", ",".join(map(str, c["CNodes"])),
                           "--mode", v.get("mode", "fine")])
    rep = vlib.load_json(out)
    for x in rep["violations"]:
        ctx.violations.append(x)
    return vlib.finish(ctx, "model_checking", {"states": 1, "transitions": 1, "traces_validated_against_impl": 1,
                                               "samples": [v["behaviour"][:5]]}, ["replay of one recorded behaviour"])
