"""C01 — cluster converges: every node ends with the same last-writer-wins documents."""
import vlib
from checks import cluster_model

ASSUMPTIONS = [
    "all operations within one forgiveness period (time does not advance, F larger than the span of Times); operation stamps respect each node's "
    "hybrid clock (a node's stamps increase and exceed everything it received)",
    "network: any subset / order / duplication (bounded) of direct and batch messages; a batch is applied removals first, then modifications, as two steps; "
    "repair per ordered pair as GetState, Diff, RemovalHalf, Fetch (peer's current storage), ApplyModified, Finish - independently enabled; "
    "the convergence claim is made when nothing is pending and every ordered pair completed an exchange that STARTED after the last operation",
    "exhaustive configs are small (2-3 operations, bounded exchanges); larger universes are explored by TLC simulation, and one configuration (T1: "
    "keyspace tracker on, no direct replication) contributes one shortest behaviour for every distinct converged state",
    "every behaviour is replayed on real nodes (real KeyspaceGroup + Clock with injected wall clock + real Consistency/Replication services over "
    "loopback RPC) step by step; a part of them again with every exchange run in one piece by the real poller code (get_keyspace_diff + "
    "begin_keyspace_sync, or a repair_members round), and again with the model's exchanges replaced by real poller rounds that use each node's "
    "own keyspace tracker, followed by rounds up to the poller's fixpoint; the expectation is the same in all three modes",
    "the progress watcher of begin_keyspace_sync polls every 2 ms instead of 250 ms in these runs (guarded hook; what it looks at is unchanged)",
    "system level: two real DatacakeNode clusters (3 nodes; 2+1 nodes), operations through the public handles at level None (bulk writes that list "
    "an id twice, rewrites, writes from two nodes, bulk deletes, delete-then-write), so that other nodes learn of them through the real task "
    "distributor; every node's storage must end with the same stamp, kind and bytes per document (polled up to 40 s)",
    "system level: three keyspaces (same ids, other contents; one that comes into being last; one node deletes in the first and writes in the second only), "
    "operations on one document more than a clock tick apart so that Trace_Consistency.tla knows the last writer, the same bytes rewritten after a remote delete, "
    "reads through storage and through every node's public read API",
    "split GetState (configs E9 / T2): the peer's handler asks its keyspace actor for the change stamp, then for the state; operations may come in between; in "
    "tracked mode the real poller round is held inside the real handler (guarded one-shot pause) while the model's steps in between are applied",
    "in tracked mode, about one behaviour in thirty has one fault in a poller round: the node's storage refuses a repair write or the peer's storage refuses the "
    "read behind a fetch; later rounds have to repair (the fixpoint is judged as always)",
    "Poller.tla: the replication cycle's bookkeeping against a peer with several keyspaces (model checked; two unsound variations must be told apart); bound to "
    "the code only through tracked mode, where every behaviour also runs in a second keyspace that changes at other moments",
    "the distributor's own aggregation loop is specified separately (Distributor.tla, validated on the real clusters of C06); here the harness "
    "builds batch payloads as the distributor does; storage failures are C02's subject",
]


def run(ctx):
    results = cluster_model.run_all(ctx, "C01")
    cov = cluster_model.judge(ctx, results, {"C01", "C02", "C05", "C07", "C19"})
    cov["system_level"] = system_level(ctx)
    cov["poller_model"] = poller_model(ctx)
    cov["states"] += cov["poller_model"]["states"]
    cov["catch_up_at_scale"] = catch_up(ctx)
    return vlib.finish(ctx, "model_checking", cov, ASSUMPTIONS)


def catch_up(ctx):
    """A node that is far behind (it joined late, or lost that many direct replication messages) completes ONE anti-entropy
    exchange with the node that has everything: 50 001 / 100 001 / 150 001 documents to fetch (multiples of the poller's fetch
    limit, plus one) besides the removals.  Afterwards both storages list the same ids, stamps and kinds and hold the same bytes
    (the component of C05 that runs single real poller rounds; here for the sizes at which 'the rest follows later' is tempting)."""
    binary = vlib.build_harness(ctx, "h-ec")
    out = ctx.path("catch_up.json")
    sizes = "55557,111113,166668" if ctx.tier == "quick" else "55557,111113,166668,222224,333335"
    vlib.run_harness(ctx, [binary, "large-exchange", "--out", out, "--sizes", sizes, "--removal-sizes", ""], timeout=3000)
    rep = vlib.load_json(out)
    if rep["evaluations"] == 0 or rep["entries"] < 300000:
        raise vlib.ToolError("vacuous catch-up run: %s" % {k: rep.get(k) for k in ("evaluations", "entries")})
    ctx.log("catch-up at scale: exchanges of up to %s documents through the real poller: %d leave the two nodes apart" % (sizes.split(",")[-1], rep["violation_count"]))
    for v in rep["violations"][:3]:
        ctx.violations.append(dict(v, engine="h-ec large-exchange", property="C01"))
    return {"documents_per_exchange": rep["sizes"], "entries": rep["entries"], "exchanges_that_leave_a_difference": rep["violation_count"]}


def poller_model(ctx):
    """Poller.tla: the replication cycle's bookkeeping against a peer with several keyspaces (poll, tracker diff, state transfer
    as the handler's two steps, one sync per keyspace that may fail or be given up by the progress watcher while its modification half is
    left to run, what the tracker remembers).  TLC checks that the tracker never
    says 'unchanged' while something is missing; the unsound variations of the module must be told apart."""
    consts = dict(Keyspaces={'"a"', '"b"'}, MaxMut=4, MaxRounds=3 if ctx.tier == "quick" else 4, StampLast=False, RememberPolled=False, RememberAll=False, RememberTimedOut=False, RememberPartial=False)
    cfg = vlib.cfg_text(constants=consts, invariants=["TrackerSound", "TrackerBehind"])
    mc, text = vlib.run_tlc(ctx, "Poller", cfg, "mc_poller", workers=4, timeout=1800)
    if not vlib.require_clean_mc(ctx, mc, text, "Poller"):
        raise vlib.ToolError("Poller.tla violates %s: specification error" % mc["violated"])
    told_apart = []
    for var in ("StampLast", "RememberAll", "RememberTimedOut", "RememberPartial"):
        c2 = vlib.cfg_text(constants=dict(consts, **{var: True}), invariants=["TrackerSound"])
        r2, _ = vlib.run_tlc(ctx, "Poller", c2, "mc_poller_" + var, workers=4, timeout=1800)
        if "TrackerSound" not in r2["violated"]:
            raise vlib.ToolError("Poller.tla no longer tells the variation %s apart" % var)
        told_apart.append(var)
    ctx.log("Poller.tla: %d states (two keyspaces, tracker sound); variations told apart: %s" % (mc["distinct"], ", ".join(told_apart)))
    return {"states": mc["distinct"], "unsound_variations_told_apart": told_apart}


def system_level(ctx):
    """Real DatacakeNode clusters, public API, every operation at level None: the other nodes learn of it only through
    the real task distributor (and the real poller, if it gets to run).  Three keyspaces; one node only deletes in the first
    and only writes in the second.  Operations on one document are issued more than a clock tick apart, so Trace_Consistency.tla
    knows the last writer: every node's storage must end with the same stamp and exactly that operation (polled for up to 40 s)."""
    import json
    binary = vlib.build_harness(ctx, "h-ec")
    trace = ctx.path("converge.ndjson")
    out = vlib.run_harness(ctx, [binary, "record-converge", "--out", trace, "--rounds", "3" if ctx.tier == "quick" else "12"], timeout=3000)
    st = json.loads(out.strip().splitlines()[-1])
    if st["documents"] < 20:
        raise vlib.ToolError("vacuous system-level run: %s" % st)
    tv = vlib.validate_trace(ctx, "Trace_Consistency", {}, trace, "converge", invariants=["Report"])
    if tv["rejected"] is not None:
        raise vlib.ToolError("trace validation stopped early: %s" % tv["rejected"])
    ctx.log("system level: %d documents on 2 real clusters (operations at level None, real distributor): %d differ between nodes or from the last writer" % (
        st["documents"], len(tv["fails"])))
    for e in tv["fails"][:3]:
        ctx.violations.append({"engine": "h-ec record-converge + Trace_Consistency", "event": e,
                               "why": ["after operations issued at level None the nodes of a real cluster do not all hold the operation issued last "
                                       "for this document (same stamp everywhere; its bytes if it was a put, a tombstone or nothing if it was a delete)"]})
    return {"documents": st["documents"], "documents_that_differ": len(tv["fails"])}


def replay(ctx, path):
    import json
    v = vlib.load_json(path)
    binary = vlib.build_harness(ctx, "h-ec")
    inp = ctx.path("one.txt")
    open(inp, "w").write('<<"BEHAVIOUR", %s>>\n' % json.dumps(json.dumps({"hist": v["behaviour"], "ops": [], "expect": v["expect"]})))
    out = ctx.path("replay_one.json")
    c = v["constants"]
    vlib.run_harness(ctx, [binary, "replay-cluster", "--input", inp, "--out", out, "--f", str(c["F"]), "--nodes", ",".join(map(str, c["CNodes"])),
                           "--mode", v.get("mode", "fine")])
    rep = vlib.load_json(out)
    for x in rep["violations"]:
        ctx.violations.append(x)
    return vlib.finish(ctx, "model_checking", {"states": 1, "transitions": 1, "traces_validated_against_impl": 1,
                                               "samples": [v["behaviour"][:5]]}, ["replay of one recorded behaviour"])
