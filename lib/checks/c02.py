"""C02 — on each node the replicated metadata and the persisted store never disagree."""
import vlib
from checks import actor_traces, keyspace_model

ASSUMPTIONS = [
    "one keyspace actor; requests Set/Del/MultiSet/MultiDel/Purge with arbitrary (not window-restricted) timestamps, both sources, "
    "re-deliveries, bulk requests of two entries (different keys with equal or different stamps, or the same key twice)",
    "every storage outcome the Storage contract allows: ok, failed with nothing written, failed part-way with exactly the reported ids written",
    "a stamp identifies one operation kind (insert or delete); document bytes are a function of (id, stamp)",
    "each transition is replayed on a real KeyspaceActor obtained from a real KeyspaceGroup over a fault-injecting wrapper around MemStore; "
    "the set is observed through the actor's Serialize reply, storage through iter_metadata/get",
    "long-lived actors (V): single real keyspace actors handle long random request streams (both sources, three origins, bulk requests, purges, storage "
    "calls failing part-way, a clock that jumps by more than the forgiveness period, late and too-old requests, the motif delete - purge - older write); what "
    "an actor keeps between requests stays in it; Trace_KeyspaceActor.tla judges the recorded events, the harness compares set and storage after every request",
]


def run(ctx):
    results = keyspace_model.run_all(ctx)
    cov = keyspace_model.judge(ctx, results, "C02")
    cov["long_lived_actors"] = actor_traces.long_lived_actors(ctx, [], own_c02=True)
    cov["traces_validated_against_impl"] += cov["long_lived_actors"]["actors"]
    return vlib.finish(ctx, "model_checking", cov, ASSUMPTIONS)


def replay(ctx, path):
    raise vlib.ToolError("re-run `bin/check C02`; the replay file lists the request path that reaches the violating state")
