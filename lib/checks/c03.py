"""C03 — merging replica states is commutative, associative and idempotent."""
import vlib
from checks import orswot_merge

ASSUMPTIONS = [
    "distinct timestamps; replicas are gap-free prefix replicas (Mode prefix) or hold arbitrary subsets with all stamps inside one forgiveness period (Mode window), as the statement requires",
    "bounded universes, see coverage.configs; model time unit = 3600 s / F",
    "laws compared on live ids with timestamps (get over the key universe), evaluated on the real OrSWotSet<2> for every distinct reachable state",
]


def run(ctx):
    results = orswot_merge.run_all(ctx, prop="C03")
    cov = orswot_merge.judge(ctx, results, "C03")
    return vlib.finish(ctx, "model_checking", cov, ASSUMPTIONS)


def replay(ctx, path):
    return orswot_merge.replay_file(ctx, path, "C03")
