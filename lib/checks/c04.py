"""C04 — per key the greatest timestamp wins, whatever order operations arrive in."""
import vlib
from checks import actor_traces, orswot_ops

ASSUMPTIONS = [
    "pairwise distinct timestamps (as the property assumes)",
    "bounded universe: see coverage.configs; model time unit = 3600 s / F so the real one-hour forgiveness period is exercised",
    "C04 expectations are asserted only while every presented operation is strictly inside the forgiveness window of the "
    "newest stamp already presented from its origin and nothing was purged (the side condition of the statement)",
    "TLC explores the bounded graph exhaustively; every transition is replayed on the real OrSWotSet<N> built from /repo",
    "(V) the repository's own eventual-consistency, sqlite and lmdb test suites are built from /repo with the guarded hooks on and run "
    "unchanged; every mutation handled by every keyspace actor they create is validated against Trace_KeyspaceActor.tla (greatest stamp wins "
    "per key while no request is older than its origin's safe cut-off; will_apply false exactly when the key's view does not change)",
]


def run(ctx):
    results = orswot_ops.run_ops(ctx)
    cov = orswot_ops.judge(ctx, results, "C04", [("clean_edges", "no edge with the C04 side condition true")])
    cov["own_tests_actor_traces"] = actor_traces.run_repo_tests(ctx, ["C04"])
    cov["traces_validated_against_impl"] += cov["own_tests_actor_traces"]["actors"]
    cov["long_lived_actors"] = actor_traces.long_lived_actors(ctx, ["C04"])
    cov["traces_validated_against_impl"] += cov["long_lived_actors"]["actors"]
    return vlib.finish(ctx, "model_checking", cov, ASSUMPTIONS)


def replay(ctx, path):
    return orswot_ops.replay_file(ctx, path, "C04")
