"""C05 — the computed difference is exactly what a replica lacks; one exchange repairs."""
import vlib
from checks import orswot_merge

ASSUMPTIONS = [
    "same replica universes as C03 (gap-free prefixes, or all stamps within one forgiveness period)",
    "the difference is applied the way the keyspace actor applies it: will_apply filter on the pre-batch state, stamps ascending, "
    "through the read-repair source, removals first and modifications first",
    "clause (i) compares the real diff() with DiffSpec written from the statement; (ii)/(iii) are evaluated on the real sets",
]


def run(ctx):
    results = orswot_merge.run_all(ctx)
    cov = orswot_merge.judge(ctx, results, "C05")
    return vlib.finish(ctx, "model_checking", cov, ASSUMPTIONS)


def replay(ctx, path):
    return orswot_merge.replay_file(ctx, path, "C05")
