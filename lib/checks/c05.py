"""C05 — the computed difference is exactly what a replica lacks; one exchange repairs."""
import vlib
from checks import cluster_model, orswot_merge

ASSUMPTIONS = [
    "same replica universes as C03 (gap-free prefixes, or all stamps within one forgiveness period)",
    "the difference is applied the way the keyspace actor applies it: will_apply filter on the pre-batch state, stamps ascending, "
    "through the read-repair source, removals first and modifications first",
    "clause (i) compares the real diff() with DiffSpec written from the statement; (ii)/(iii) are evaluated on the real sets",
    "the poller's side of the exchange (get_keyspace_diff, handle_removals, handle_modified, begin_keyspace_sync): Cluster.tla with direct "
    "replication switched off (NoDirect), so that every difference between nodes is repaired by exchanges only; exhaustive small config, "
    "simulated behaviours replayed on real nodes step by step and with whole exchanges run by the real poller code; after every pair has "
    "exchanged no node computes a difference against any other and all reads are identical (C05_NothingLeft, C01_Converges); every diff the real "
    "keyspace actors answered is validated against DiffSpec by Trace_KeyspaceActor.tla",
    "at scale: single real poller rounds for 1 .. 166 668 documents (thorough: 333 335) (with tombstones, the receiver holding older versions of some); the expectation is the "
    "statement's - after the exchange the receiver holds what the sender holds - compared on the two storages; six more exchanges (1, 2, 7 documents) have one fault "
    "in them - the receiver's storage refuses the first repair write, or the sender's storage refuses the read behind the first fetch: such an exchange must not count as "
    "done, four more rounds of the same poller (same keyspace tracker) have to repair",
]


def large_exchanges(ctx):
    """One real poller round between a node holding N documents and tombstones and a node holding nothing (or older versions
    of some), N around the poller's batching limits (1, 2, 3, ~1 000, ~5 000, 55 557, 111 112, 166 668): afterwards the two storages list the
    same ids, stamps and kinds and hold the same bytes - the statement's 'one exchange repairs' at sizes the model's two keys
    cannot reach."""
    binary = vlib.build_harness(ctx, "h-ec")
    out = ctx.path("large_exchange.json")
    # the harness deletes every tenth document (ids 1, 11, 21, ...), so N documents make N - ceil(N / 10) modified ones - and it is the
    # number of MODIFIED documents (what one fetch request asks for, what one reply carries) that sits on round numbers: N is
    # chosen so that the modified part has m documents, m = a round number (powers of two, multiples of 500 / 1 000 / the poller's
    # fetch limit of 50 000) and one more
    def total_for(m):
        n = m
        while n - (n + 9) // 10 != m:
            n += 1
        return n
    modified = [1, 2, 3, 100, 101, 256, 257, 500, 501, 512, 513, 1000, 1001, 1024, 1025, 2049, 4097, 5001, 10001, 50000, 50001, 100001, 150001]
    if ctx.tier != "quick":
        modified += [9, 10, 11, 127, 128, 129, 1500, 1501, 2000, 2001, 2500, 2501, 4999, 5000, 8193, 9999, 10000, 16385, 20001, 25001, 32769, 49999, 65537, 100000, 200001, 300001]
    sizes = ",".join(str(total_for(m)) for m in sorted(set(modified)))
    # differences of removals only, of sizes just past the round numbers a batching of removals may use (the poller hands all of them over at once today)
    removals = "1001,4097,10001,20001" if ctx.tier == "quick" else "2,3,1001,1025,4097,8193,10001,16385,20001,32769,50001,65537,100001"
    vlib.run_harness(ctx, [binary, "large-exchange", "--out", out, "--sizes", sizes, "--removal-sizes", removals], timeout=3000)
    rep = vlib.load_json(out)
    if rep["evaluations"] == 0 or rep["entries"] < 50000 or (rep["violation_count"] == 0 and rep.get("faults_run_into", 0) < rep.get("faulty_exchanges", 1)):
        raise vlib.ToolError("vacuous large-exchange run: %s" % {k: rep.get(k) for k in ("evaluations", "entries", "faulty_exchanges", "faults_run_into")})
    ctx.log("large exchanges: %d exchanges of up to 166 668 documents through the real poller: %d leave the two nodes apart" % (
        rep["evaluations"], rep["violation_count"]))
    for v in rep["violations"][:3]:
        ctx.violations.append(dict(engine="h-ec large-exchange", **v))
    return {"keyspaces_repaired_in_one_round": rep.get("keyspaces_repaired_in_one_round"), "modified_documents_per_exchange": sorted(set(modified)), "exchanges_with_one_fault": rep.get("faulty_exchanges"), "exchanges_with_a_write_slower_than_the_progress_watcher": rep.get("slow_exchanges"),
            "of_which_given_up_by_the_watcher_before_the_write_ended": rep.get("slow_exchanges_given_up_by_the_watcher"), "exchanges": rep["evaluations"], "entries": rep["entries"], "sizes": rep["sizes"], "removal_only_sizes": rep.get("removal_sizes"), "exchanges_that_leave_a_difference": rep["violation_count"]}


def run(ctx):
    import concurrent.futures
    with concurrent.futures.ThreadPoolExecutor(max_workers=2) as pool:
        fut = pool.submit(cluster_model.run_all, ctx, "C05")
        results = orswot_merge.run_all(ctx, prop="C05")
        glob = fut.result()
    cov = orswot_merge.judge(ctx, results, "C05")
    gcov = cluster_model.judge(ctx, glob, {"C01", "C05", "C19"})
    exch = sum(r["rep"]["step_kinds"].get("getstate", 0) for r in glob if r["kind"] == "simulated")
    if exch == 0:
        raise vlib.ToolError("vacuous: no exchange in the replayed behaviours")
    cov["states"] += gcov["states"]
    cov["transitions"] += gcov["transitions"]
    cov["traces_validated_against_impl"] += gcov["traces_validated_against_impl"]
    cov["exchanges"] = {k: gcov[k] for k in ("exhaustive_configs", "simulated_configs", "drift_behaviours")}
    cov["exchanges"]["exchanges_replayed"] = exch
    cov["large_exchanges"] = large_exchanges(ctx)
    return vlib.finish(ctx, "model_checking", cov, ASSUMPTIONS)


def replay(ctx, path):
    return orswot_merge.replay_file(ctx, path, "C05")
