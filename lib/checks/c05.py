"""C05 — the computed difference is exactly what a replica lacks; one exchange repairs."""
import vlib
from checks import cluster_model, orswot_merge

ASSUMPTIONS = [
    "same replica universes as C03 (gap-free prefixes, or all stamps within one forgiveness period)",
    "the difference is applied the way the keyspace actor applies it: will_apply filter on the pre-batch state, stamps ascending, "
    "through the read-repair source, removals first and modifications first",
    "clause (i) compares the real diff() with DiffSpec written from the statement; (ii)/(iii) are evaluated on the real sets",
    "the poller's side of the exchange (get_keyspace_diff, handle_removals, handle_modified, begin_keyspace_sync): Cluster.tla with direct "
    "replication switched off (NoDirect), so that every difference between nodes is repaired by exchanges only; exhaustive small config, "
    "simulated behaviours replayed on real nodes step by step and with whole exchanges run by the real poller code; after every pair has "
    "exchanged no node computes a difference against any other and all reads are identical (C05_NothingLeft, C01_Converges); every diff the real "
    "keyspace actors answered is validated against DiffSpec by Trace_KeyspaceActor.tla",
]


def run(ctx):
    import concurrent.futures
    with concurrent.futures.ThreadPoolExecutor(max_workers=2) as pool:
        fut = pool.submit(cluster_model.run_all, ctx, "C05")
        results = orswot_merge.run_all(ctx)
        glob = fut.result()
    cov = orswot_merge.judge(ctx, results, "C05")
    gcov = cluster_model.judge(ctx, glob, {"C01", "C05", "C19"})
    exch = sum(r["rep"]["step_kinds"].get("getstate", 0) for r in glob if r["kind"] == "simulated")
    if exch == 0:
        raise vlib.ToolError("vacuous: no exchange in the replayed behaviours")
    cov["states"] += gcov["states"]
    cov["transitions"] += gcov["transitions"]
    cov["traces_validated_against_impl"] += gcov["traces_validated_against_impl"]
    cov["exchanges"] = {k: gcov[k] for k in ("exhaustive_configs", "simulated_configs", "drift_behaviours")}
    cov["exchanges"]["exchanges_replayed"] = exch
    return vlib.finish(ctx, "model_checking", cov, ASSUMPTIONS)


def replay(ctx, path):
    return orswot_merge.replay_file(ctx, path, "C05")
