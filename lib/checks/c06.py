"""C06 — a successful write has reached the replicas its consistency level promises."""
import json

import actor_trace
import vlib
from checks import actor_traces

ASSUMPTIONS = [
    "Consistency.tla: every layout of the list, every level, every allowed selection, every subset of replicas that refuses the write or applies it and "
    "loses its reply - exhaustive",
    "real clusters: DatacakeNode + EventuallyConsistentStoreExtension over a fault-injecting MemStore on 127.0.0.1 (real chitchat membership, selector, "
    "RPC, distributor, poller), one cluster per layout, issuer = node 1 of data centre 1; for every level x kind (put, put_many, del, del_many) x subset of "
    "other nodes whose storage refuses writes, one call through the public handle, then every node's storage is read at once",
    "a few calls per cluster are made while one replica's storage answers late (2.6 s quick / 6.5 s thorough, longer than the 2 s the error type "
    "advertises): the call may wait or report a failure, but 'ok' still means the promised number of replicas hold the mutation",
    "only facts that do not depend on timing are judged; 'still replicated later' is polled for up to 30 s",
    "lost replies are explored in the model only (they cannot be injected through the public API)",
    "Required(level) is Selector.tla's (the same definition C15 uses)",
]
LAYOUTS = {"quick": "3;2,1;4", "thorough": "3;2,1;1,2;2,2;1,1,1;4;3,2"}


def run(ctx):
    binary = vlib.build_harness(ctx, "h-ec")
    cfg = vlib.cfg_text(constants={}, invariants=["C06_OkMeansReplicated", "C06_FailureIsHonest"]).replace(
        "SPECIFICATION Spec\n", "SPECIFICATION Spec\nCONSTANTS\n  Layouts <- LayoutsDef\n")
    mc, text = vlib.run_tlc(ctx, "MC_Consistency", cfg, "mc", workers=8, extra=["-coverage", "1"], timeout=1200)
    if not vlib.require_clean_mc(ctx, mc, text, "MC_Consistency"):
        raise vlib.ToolError("Consistency.tla violates %s: specification error" % mc["violated"])
    ctx.log("MC_Consistency: %d states" % mc["distinct"])
    # the task distributor's own specification (wider specification, not part of the C06 verdict)
    dcfg = vlib.cfg_text(constants=dict(Keyspaces={'"a"', '"b"'}, Items={1, 2, 3}, Nodes={1}, MaxOps=3),
                         invariants=["ExactlyOnce", "FifoPerKeyspace", "NoEmptyBatch"])
    dmc, dtext = vlib.run_tlc(ctx, "MC_Distributor", dcfg, "mc_dist", workers=4, timeout=1200)
    if not vlib.require_clean_mc(ctx, dmc, dtext, "MC_Distributor"):
        raise vlib.ToolError("Distributor.tla violates %s: specification error" % dmc["violated"])
    trace = ctx.path("trace.ndjson")
    events_dir = ctx.path("events")
    import os
    import shutil
    shutil.rmtree(events_dir, ignore_errors=True)
    os.makedirs(events_dir)
    out = vlib.run_harness(ctx, [binary, "record-consistency", "--layouts", LAYOUTS[ctx.tier], "--out", trace,
                                 "--slow-ms", "2600" if ctx.tier == "quick" else "6500", "--slow-every", "3" if ctx.tier == "quick" else "1"],
                           timeout=3000, env={"DATACAKE_VERIF_TRACE_DIR": events_dir})
    st = json.loads(out.strip().splitlines()[-1])
    if st["calls"] < 100:
        raise vlib.ToolError("vacuous recording: %s" % st)
    tv = vlib.validate_trace(ctx, "Trace_Consistency", {}, trace, "trace", invariants=["Report"])
    if tv["rejected"] is not None:
        raise vlib.ToolError("trace validation stopped early: %s" % tv["rejected"])
    results = {}
    samples = []
    with open(trace) as f:
        for i, line in enumerate(f):
            e = json.loads(line)
            if e["ev"] == "call":
                results[e["result"]] = results.get(e["result"], 0) + 1
                if i % 60 == 0:
                    samples.append(e)
    if results.get("ok", 0) == 0 or results.get("failure", 0) == 0:
        raise vlib.ToolError("vacuous: outcomes %s" % results)
    slow_calls = sum(1 for line in open(trace) if '"slow":[[' in line)
    if slow_calls == 0:
        raise vlib.ToolError("vacuous: no call with a slow replica was recorded")
    ctx.log("%d calls on %d real clusters (%s), %d later-replication checks: %d rejected" % (
        st["calls"], st["layouts"], results, st["later_checks"], len(tv["fails"])))
    for e in tv["fails"][:4]:
        ctx.violations.append({"engine": "h-ec record-consistency + Trace_Consistency", "event": e,
                               "why": ["the call's outcome and the replicas' storage right after it do not satisfy the level's promise"]})
    # the same real clusters, seen from inside: what their task distributors batched (Distributor.tla) and what their
    # keyspace actors did (Trace_KeyspaceActor.tla); reported as conformance of the wider specification, not as C06 verdicts
    files = actor_trace.files_in(events_dir)
    inside = {"distributors": actor_traces.validate_distributors(ctx, files, "clusters"),
              "keyspace_actors": actor_traces.validate(ctx, files, "clusters_actors", [], max_events=40000)}
    shutil.rmtree(events_dir, ignore_errors=True)
    inside["distributor_model"] = {"states": dmc["distinct"], "transitions": dmc["generated"]}
    cov = {"inside_the_clusters": inside, "states": mc["distinct"], "transitions": mc["generated"], "traces_validated_against_impl": st["calls"],
           "samples": samples[:5], "calls": st["calls"], "clusters": st["layouts"], "outcomes": results,
           "calls_with_a_slow_replica": slow_calls, "later_checks": st["later_checks"], "events_rejected": len(tv["fails"])}
    return vlib.finish(ctx, "model_checking", cov, ASSUMPTIONS)


def replay(ctx, path):
    raise vlib.ToolError("re-run `bin/check C06` (cluster runs are re-created from scratch)")
