"""C07 — a restarted node rebuilds exactly what storage holds; acked writes survive."""
import vlib
from checks import keyspace_model

ASSUMPTIONS = [
    "crash points: after every request, and inside every single set/delete request between the storage write and the in-memory update "
    "(the storage call parks after the inner write, the node's tasks are abandoned, a new KeyspaceGroup runs load_states_from_storage on the same storage)",
    "start-up under storage read errors: after every request the node is also started once with a failing keyspace-list read and once with a failing "
    "metadata scan; the start must be refused, or what it built must be what storage holds (then the clean start follows)",
    "storage backend for the crash replay is MemStore (the persistent backends' reopen fidelity is C17's subject)",
    "'visible' = the key holds the acknowledged operation or a newer one; an acknowledged delete (and what it superseded) may have been purged",
    "convergence of the restarted node with its peers is covered by the Cluster model (C01), not here",
]


def run(ctx):
    results = keyspace_model.run_all(ctx)
    cov = keyspace_model.judge(ctx, results, "C07")
    return vlib.finish(ctx, "model_checking", cov, ASSUMPTIONS)


def replay(ctx, path):
    raise vlib.ToolError("re-run `bin/check C07`; the replay file lists the request path that reaches the violating state")
