"""C07 — a restarted node rebuilds exactly what storage holds; acked writes survive."""
import vlib
from checks import keyspace_model

ASSUMPTIONS = [
    "crash points: after every request, and inside every single set/delete request between the storage write and the in-memory update "
    "(the storage call parks after the inner write, the node's tasks are abandoned, a new KeyspaceGroup runs load_states_from_storage on the same storage)",
    "start-up under storage read errors: after every request the node is also started once with a failing keyspace-list read and once with a failing "
    "metadata scan; the start must be refused, or what it built must be what storage holds (then the clean start follows)",
    "storage backend for the crash replay is MemStore; on the persistent backends (SQLite file, LMDB) a real group handles a request stream (two keyspaces, ids "
    "from 0 to 2^64-1, 5 000 consecutive ids in one bulk call), the process ends between requests, and a fresh process rebuilds the sets from the files "
    "(Trace_Restart.tla); the backends' call-by-call fidelity is C17's subject",
    "'visible' = the key holds the acknowledged operation or a newer one; an acknowledged delete (and what it superseded) may have been purged",
    "convergence of the restarted node with its peers is covered by the Cluster model (C01), not here",
]


def persistent_backends(ctx):
    """A real group over SQLite (file) / LMDB handles a request stream and reports its sets; the process ends; a fresh process
    opens the files, loads the states and reports what it rebuilt (Trace_Restart.tla: the same, and every live document readable)."""
    import json
    import shutil
    binary = vlib.build_harness(ctx, "h-ec")
    trace = ctx.path("restart.ndjson")
    runs = 3 if ctx.tier == "quick" else 12
    with open(trace, "w") as f:
        for i in range(runs):
            d = "/dev/shm/verif-restart-%d-%d" % (ctx.seed, i)
            for phase in ("write", "load"):
                out = vlib.run_harness(ctx, [binary, "restart-backends", "--phase", phase, "--dir", d, "--seed", str(ctx.seed * 100 + i)], timeout=1200)
                f.write("".join(l + "\n" for l in out.splitlines() if l.startswith("{")))
            shutil.rmtree(d, ignore_errors=True)
    tv = vlib.validate_trace(ctx, "Trace_Restart", {}, trace, "trace_restart", invariants=["Report"])
    if tv["rejected"] is not None:
        raise vlib.ToolError("trace validation stopped early: %s" % tv["rejected"])
    n = sum(1 for l in open(trace) if '"after"' in l)
    if n < 4:
        raise vlib.ToolError("vacuous: no restart on a persistent backend was recorded")
    ctx.log("persistent backends: %d restarts (SQLite file, LMDB; fresh process each) of keyspaces with ids up to 2^64-1 and 5 000 consecutive ones: "
            "%d rebuilt sets differ from what the stopped node held" % (n, len(tv["fails"])))
    for e in tv["fails"][:3]:
        ctx.violations.append({"engine": "h-ec restart-backends + Trace_Restart", "event": e,
                               "why": ["the set a restarted node rebuilt from this backend is not what the stopped node held (live ids / tombstones / "
                                       "stamps), or the start failed, or a live document is unreadable"]})
    return {"restarts": n, "rebuilt_sets_that_differ": len(tv["fails"])}


def run(ctx):
    results = keyspace_model.run_all(ctx)
    cov = keyspace_model.judge(ctx, results, "C07")
    cov["persistent_backends"] = persistent_backends(ctx)
    cov["traces_validated_against_impl"] += cov["persistent_backends"]["restarts"]
    return vlib.finish(ctx, "model_checking", cov, ASSUMPTIONS)


def replay(ctx, path):
    raise vlib.ToolError("re-run `bin/check C07`; the replay file lists the request path that reaches the violating state")
