"""C07 — a restarted node rebuilds exactly what storage holds; acked writes survive."""
import vlib
from checks import keyspace_model

ASSUMPTIONS = [
    "crash points: after every request, and inside every single set/delete request between the storage write and the in-memory update "
    "(the storage call parks after the inner write, the node's tasks are abandoned, a new KeyspaceGroup runs load_states_from_storage on the same storage)",
    "start-up under storage read errors: after every request the node is also started once with a failing keyspace-list read and once with a failing "
    "metadata scan; the start must be refused, or what it built must be what storage holds (then the clean start follows)",
    "storage backend for the crash replay is MemStore; on the persistent backends (SQLite file, LMDB) a real group handles a request stream (two keyspaces, ids "
    "from 0 to 2^64-1, 5 000 consecutive ids in one bulk call), the process ends between requests, and a fresh process rebuilds the sets from the files "
    "(Trace_Restart.tla); the backends' call-by-call fidelity is C17's subject",
    "the node killed at any moment: a writer process over SQLite (file) / LMDB logs `try` before and `ack` after every request (single and bulk, up to "
    "3 000 documents in one call, ids up to 2^64-1) and gets SIGKILL after a random delay; a fresh process rebuilds; Trace_Crash.tla: rebuilt set = storage's "
    "metadata, per document the operation acknowledged last or the in-flight request's effect, nothing else (SIGKILL keeps what the OS has; power loss is out of reach)",
    "'visible' = the key holds the acknowledged operation or a newer one; an acknowledged delete (and what it superseded) may have been purged",
    "convergence of the restarted node with its peers is covered by the Cluster model (C01), not here",
]


def persistent_backends(ctx):
    """A real group over SQLite (file) / LMDB handles a request stream and reports its sets; the process ends; a fresh process
    opens the files, loads the states and reports what it rebuilt (Trace_Restart.tla: the same, and every live document readable)."""
    import json
    import shutil
    binary = vlib.build_harness(ctx, "h-ec")
    trace = ctx.path("restart.ndjson")
    runs = 3 if ctx.tier == "quick" else 12
    with open(trace, "w") as f:
        for i in range(runs):
            d = "/dev/shm/verif-restart-%d-%d" % (ctx.seed, i)
            for phase in ("write", "load"):
                out = vlib.run_harness(ctx, [binary, "restart-backends", "--phase", phase, "--dir", d, "--seed", str(ctx.seed * 100 + i)], timeout=1200)
                f.write("".join(l + "\n" for l in out.splitlines() if l.startswith("{")))
            shutil.rmtree(d, ignore_errors=True)
    tv = vlib.validate_trace(ctx, "Trace_Restart", {}, trace, "trace_restart", invariants=["Report"])
    if tv["rejected"] is not None:
        raise vlib.ToolError("trace validation stopped early: %s" % tv["rejected"])
    n = sum(1 for l in open(trace) if '"after"' in l)
    if n < 4:
        raise vlib.ToolError("vacuous: no restart on a persistent backend was recorded")
    ctx.log("persistent backends: %d restarts (SQLite file, LMDB; fresh process each) of keyspaces with ids up to 2^64-1 and 5 000 consecutive ones: "
            "%d rebuilt sets differ from what the stopped node held" % (n, len(tv["fails"])))
    for e in tv["fails"][:3]:
        ctx.violations.append({"engine": "h-ec restart-backends + Trace_Restart", "event": e,
                               "why": ["the set a restarted node rebuilt from this backend is not what the stopped node held (live ids / tombstones / "
                                       "stamps), or the start failed, or a live document is unreadable"]})
    return {"restarts": n, "rebuilt_sets_that_differ": len(tv["fails"])}


def killed_backends(ctx):
    """The node is stopped at ANY moment: a writer process over SQLite (file) / LMDB logs `try` before and `ack` after every request
    and is killed (SIGKILL) after a random delay - between two requests or in the middle of one; a fresh process rebuilds the sets.
    Trace_Crash.tla: the rebuilt set is what storage holds, and per document the operation acknowledged last (or the effect of the one
    request that was in flight) is there, nothing else."""
    import json
    import os
    import random
    import shutil
    import signal
    import subprocess
    import time
    binary = vlib.build_harness(ctx, "h-ec")
    trace = ctx.path("crash.ndjson")
    rng = random.Random(ctx.seed * 7919 + 13)
    kills = 8 if ctx.tier == "quick" else 60
    acks_total = 0
    mid_request = 0
    with open(trace, "w") as f:
        for i in range(kills):
            for backend in ("sqlite", "lmdb"):
                d = "/dev/shm/verif-crash-%d-%d-%s" % (ctx.seed, i, backend)
                log = d + ".ack.log"
                shutil.rmtree(d, ignore_errors=True)
                if os.path.exists(log):
                    os.remove(log)
                p = subprocess.Popen([binary, "restart-backends", "--phase", "killwrite", "--backend", backend, "--dir", d, "--log", log,
                                      "--seed", str(ctx.seed * 1000 + i)], stdout=subprocess.PIPE, stderr=subprocess.DEVNULL, text=True, cwd=ctx.work)
                line = p.stdout.readline()
                if line.strip() != "ready":
                    p.kill()
                    raise vlib.ToolError("the writer process did not start (%r)" % line)
                time.sleep(rng.choice([0.0, 0.003, 0.01, 0.03, 0.08, 0.2, 0.5]) + rng.random() * 0.05)
                if p.poll() is not None:
                    # the code under test died by itself while handling requests: data, judged like a kill
                    pass
                else:
                    p.send_signal(signal.SIGKILL)
                p.wait()
                lines = [l for l in open(log).read().splitlines() if l.startswith("{") and l.endswith("}")] if os.path.exists(log) else []
                tries = sum(1 for l in lines if '"ev":"try"' in l)
                acks = sum(1 for l in lines if '"ev":"ack"' in l)
                acks_total += acks
                mid_request += 1 if tries > acks else 0
                f.write("".join(l + "\n" for l in lines))
                out = vlib.run_harness(ctx, [binary, "restart-backends", "--phase", "killload", "--backend", backend, "--dir", d], timeout=1200)
                f.write("".join(l + "\n" for l in out.splitlines() if l.startswith("{")))
                f.write(json.dumps({"ev": "reset", "backend": backend, "ks": ""}) + "\n")
                shutil.rmtree(d, ignore_errors=True)
                os.remove(log) if os.path.exists(log) else None
    tv = vlib.validate_trace(ctx, "Trace_Crash", {}, trace, "trace_crash", invariants=["Report"], timeout=1800, xmx="6g")
    if tv["rejected"] is not None:
        raise vlib.ToolError("trace validation stopped early: %s" % tv["rejected"])
    if acks_total == 0 or mid_request == 0:
        raise vlib.ToolError("vacuous: %d acknowledged requests, %d kills in the middle of a request" % (acks_total, mid_request))
    ctx.log("persistent backends, killed at a random moment: %d kills (%d in the middle of a request), %d acknowledged requests: %d rejected" % (
        2 * kills, mid_request, acks_total, len(tv["fails"])))
    all_lines = open(trace).read().splitlines()
    for e in tv["fails"][:3]:
        # for the replay file (diagnostics only, the verdict is TLC's): the run this event belongs to, the request in flight, what differs
        start = max([j for j in range(e["line"] - 1) if '"ev": "reset"' in all_lines[j]] + [-1]) + 1
        run = [json.loads(x) for x in all_lines[start:e["line"]]]
        ev = run[-1]
        acked, pend = {}, None
        for r in run[:-1]:
            if r["ev"] == "try":
                pend = r
            elif r["ev"] == "ack" and pend is not None:
                if (pend["backend"], pend["ks"]) == (ev["backend"], ev["ks"]):
                    for i, ent in pend["eff"].items():
                        acked[i] = (pend["kind"], ent)
                pend = None
        there = set(ev.get("live", [])) | set(ev.get("dead", []))
        in_flight = pend if pend is not None and (pend["backend"], pend["ks"]) == (ev["backend"], ev["ks"]) else None
        missing = [ent for i, (k, ent) in acked.items() if ent not in there and not (in_flight and i in in_flight["eff"])]
        e = dict(e, kill_index=sum(1 for x in all_lines[:start] if '"ev": "reset"' in x), acknowledged_in_this_keyspace=len(acked),
                 acknowledged_but_not_there=missing[:10],
                 in_flight=None if in_flight is None else {"kind": in_flight["kind"], "n": in_flight["n"], "documents": len(in_flight["eff"])},
                 set_vs_storage={"live_only_in_set": sorted(set(ev.get("live", [])) - set(ev.get("meta_live", [])))[:5],
                                 "live_only_in_storage": sorted(set(ev.get("meta_live", [])) - set(ev.get("live", [])))[:5],
                                 "dead_only_in_set": sorted(set(ev.get("dead", [])) - set(ev.get("meta_dead", [])))[:5],
                                 "dead_only_in_storage": sorted(set(ev.get("meta_dead", [])) - set(ev.get("dead", [])))[:5]},
                 started=ev.get("started"), unreadable=ev.get("unreadable"))
        ctx.violations.append({"engine": "h-ec restart-backends (SIGKILL) + Trace_Crash", "event": e,
                               "why": ["after a kill the rebuilt set is not what storage holds, or an acknowledged operation is not visible, or "
                                       "something nobody asked for is there"]})
    return {"kills": 2 * kills, "kills_mid_request": mid_request, "acknowledged_requests": acks_total, "rejected": len(tv["fails"])}


def run(ctx):
    results = keyspace_model.run_all(ctx)
    cov = keyspace_model.judge(ctx, results, "C07")
    cov["persistent_backends"] = persistent_backends(ctx)
    cov["killed_backends"] = killed_backends(ctx)
    cov["traces_validated_against_impl"] += cov["persistent_backends"]["restarts"] + cov["killed_backends"]["kills"]
    return vlib.finish(ctx, "model_checking", cov, ASSUMPTIONS)


def replay(ctx, path):
    raise vlib.ToolError("re-run `bin/check C07`; the replay file lists the request path that reaches the violating state")
