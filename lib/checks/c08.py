"""C08 — purging tombstones is invisible and deletes stay deleted.

Local clauses (every reachable set): decided on MC_OrswotOps, edge-complete replay on the real set.
Global clause (a cluster that purges at arbitrary moments converges to the same live documents as one
that never purges, whenever every operation reaches every replica within less than the forgiveness
period): decided on Cluster.tla with global time, bounded clock skew, Purge enabled at any moment and the
timeliness guard, exhaustively for a small config and by simulation + real-node replay beyond."""
import vlib
from checks import actor_traces, cluster_model, orswot_merge, orswot_ops

ASSUMPTIONS = [
    "local clauses: every reachable set of the bounded universes in coverage.configs; purge enabled in every state; sets reached through "
    "merge and repair as well (MC_OrswotMerge with purge on any replica at any moment, coverage.merge_graph)",
    "'not newer than the purged delete' is probed for every stamp of the universe from the deleting node, on every key, "
    "through will_apply and both mutators on every source",
    "model time unit = 3600 s / F, the real FORGIVENESS_PERIOD (measured by behaviour: coverage.configs[].real_forgiveness_period_s)",
    "global clause: time advances only while every operation some node has not yet been PRESENTED (that very operation handed to its keyspace actor "
    "directly, by batch or by a repair half - never inferred) stays younger than F; node clocks run at most MaxSkew ahead; this under-approximates "
    "'timely' and therefore cannot raise a false alarm",
    "global clause expectation = last-writer-wins over all issued operations, i.e. the outcome of the never-purging cluster",
    "(V) every purge handled by a keyspace actor of the real nodes during the cluster replays (and, thorough tier, during the repository's own "
    "test suites run with the hooks on) is validated against Trace_KeyspaceActor.tla: a purge changes nothing that is live",
    "long-lived actors (V): single real keyspace actors handle long random request streams (both sources, three origins, bulk requests, purges, storage "
    "calls failing part-way, a clock that jumps by more than the forgiveness period, late and too-old requests, the motif delete - purge - older write); what "
    "an actor keeps between requests stays in it; Trace_KeyspaceActor.tla judges the recorded events, the harness compares set and storage after every request",
    "deletes stay deleted at actor level: while every request reaches the actor less than the forgiveness period after the newest stamp it has been handed, "
    "no document is live at a stamp older than a delete the set has held for it - whatever was purged, however a failed purge was put back",
]


def run(ctx):
    results = orswot_ops.run_ops(ctx)
    cov = orswot_ops.judge(ctx, results, "C08", [
        ("effective_purges", "no purge edge removed a tombstone"),
        ("refused_probes", "no 'still refused' probe was evaluated")])
    # the same local facts on sets reached through merges and repairs (purge enabled at any moment on any replica)
    mres = orswot_merge.run_all(ctx, with_purge=True)
    mcov = orswot_merge.judge(ctx, mres, "C08")
    cov["states"] += mcov["states"]
    cov["transitions"] += mcov["transitions"]
    cov["traces_validated_against_impl"] += mcov["traces_validated_against_impl"]
    cov["merge_graph"] = {"configs": mcov["configs"], "drift_edges": mcov["drift_edges"]}
    glob = cluster_model.run_all(ctx, "C08")
    gcov = cluster_model.judge(ctx, glob, {"C01", "C02", "C05", "C08"})
    purges = sum(r["rep"]["step_kinds"].get("purge", 0) for r in glob if r["kind"] == "simulated")
    ticks = sum(r["rep"]["step_kinds"].get("time", 0) for r in glob if r["kind"] == "simulated")
    if purges == 0 or ticks == 0:
        raise vlib.ToolError("vacuous global run: no purge / no time step in the replayed behaviours")
    cov["states"] += gcov["states"]
    cov["transitions"] += gcov["transitions"]
    cov["traces_validated_against_impl"] += gcov["traces_validated_against_impl"]
    cov["samples"] = cov["samples"][:3] + gcov["samples"][:2]
    cov["global"] = {k: gcov[k] for k in ("exhaustive_configs", "simulated_configs", "drift_behaviours")}
    cov["global"]["purge_steps_replayed"] = purges
    cov["global"]["time_steps_replayed"] = ticks
    cov["long_lived_actors"] = actor_traces.long_lived_actors(ctx, ["C08"])
    cov["traces_validated_against_impl"] += cov["long_lived_actors"]["actors"]
    if ctx.tier == "thorough":
        cov["own_tests_actor_traces"] = actor_traces.run_repo_tests(ctx, ["C08"])
    return vlib.finish(ctx, "model_checking", cov, ASSUMPTIONS)


def replay(ctx, path):
    v = vlib.load_json(path)
    if "behaviour" in v:
        from checks import c01
        return c01.replay(ctx, path)
    return orswot_ops.replay_file(ctx, path, "C08")
