"""C08 — purging tombstones is invisible and deletes stay deleted.

Local clauses (every reachable set): decided on MC_OrswotOps, edge-complete replay on the real set.
Global clause (cluster that purges at arbitrary moments converges like one that never purges):
decided on the Cluster model, see checks/cluster.py (added when that model is bound)."""
import vlib
from checks import orswot_ops

ASSUMPTIONS = [
    "local clauses: every reachable set of the bounded universes in coverage.configs; purge enabled in every state",
    "'not newer than the purged delete' is probed for every stamp of the universe from the deleting node, on every key, "
    "through will_apply and both mutators on every source",
    "model time unit = 3600 s / F, the real FORGIVENESS_PERIOD (measured by behaviour: coverage.configs[].real_forgiveness_period_s)",
]


def run(ctx):
    results = orswot_ops.run_ops(ctx)
    cov = orswot_ops.judge(ctx, results, "C08", [
        ("effective_purges", "no purge edge removed a tombstone"),
        ("refused_probes", "no 'still refused' probe was evaluated")])
    return vlib.finish(ctx, "model_checking", cov, ASSUMPTIONS)


def replay(ctx, path):
    return orswot_ops.replay_file(ctx, path, "C08")
