"""C09 — hybrid clock stamps are unique, strictly increasing and respect causality."""
import json

import vlib

D = 1025000          # MAX_CLOCK_DRIFT (4100 s) in 4 ms units
W0 = 1000
BASE = dict(Drift=D, CounterMax=65535, Self=1)
GRIDS = {
    "quick": dict(Walls={0, W0, W0 + 1, W0 + D, W0 + D + 1},
                  MsgTimes={0, W0, W0 + 1, W0 + D, W0 + D + 1, W0 + 2 * D + 1},
                  MsgCounters={0, 65534, 65535}, MsgNodes={1, 2},
                  InitTimes={0, W0}, InitCounters={0, 65534}, MaxSteps=5),
    "thorough": dict(Walls={0, W0 - 1, W0, W0 + 1, W0 + D - 1, W0 + D, W0 + D + 1, W0 + D + 2},
                     MsgTimes={0, W0 - 1, W0, W0 + 1, W0 + D, W0 + D + 1, W0 + D + 2, W0 + 2 * D + 1, W0 + 2 * D + 2},
                     MsgCounters={0, 1, 65534, 65535}, MsgNodes={0, 1, 2},
                     InitTimes={0, W0, W0 + D + 1}, InitCounters={0, 65534, 65535}, MaxSteps=5),
}
ASSUMPTIONS = [
    "time in 4 ms units (the stamp's resolution) with the real constants MAX_CLOCK_DRIFT = 1 025 000 units and counter maximum 65 535",
    "grid of wall-clock readings and remote stamps around the clock's own time and +/- the drift; wall clock arbitrary per call (stalls, jumps back)",
    "datacake seconds stay below 2^32 (year 2159): the packing overflow beyond it is not explored",
    "the wall clock is injected through the cfg(datacake_verif) hook in get_datacake_timestamp/send/recv",
]


def run(ctx):
    binary = vlib.build_harness(ctx, "h-crdt")
    consts = dict(BASE, **GRIDS[ctx.tier])
    mc_cfg = vlib.cfg_text(constants=dict(consts, EmitEdges=False), invariants=["C09_HiBelowClock"],
                           properties=["C09_Step", "C09_LemmaFormAgrees"], view="MCView")
    mc, text = vlib.run_tlc(ctx, "MC_HLC", mc_cfg, "mc", workers=8, extra=["-coverage", "1"], timeout=1500)
    mc_ok = vlib.require_clean_mc(ctx, mc, text, "MC_HLC")
    ctx.log("MC_HLC: %d distinct, %d generated, %s" % (mc["distinct"], mc["generated"], "ok" if mc_ok else mc["violated"]))
    # (G) every edge on the real clock
    gen_cfg = vlib.cfg_text(constants=dict(consts, EmitEdges=True), view="MCView", action_constraints=["PrintEdge"])
    out = ctx.path("replay.json")
    gen, gtext = vlib.tlc_pipe(ctx, "MC_HLC", gen_cfg, "gen",
                               [binary, "replay-hlc", "--input", "-", "--out", out, "--passthrough", ctx.path("gen.tlc")],
                               timeout=2400)
    if gen["consumer_exit"] != 0 or gen["distinct"] is None or gen["errors"]:
        raise vlib.ToolError("generation/replay failed:\n" + gtext[-2000:])
    rep = vlib.load_json(out)
    if rep["evaluations"] + len(GRIDS[ctx.tier]["InitTimes"]) * len(GRIDS[ctx.tier]["InitCounters"]) != gen["generated"]:
        raise vlib.ToolError("replayed %d edges, TLC generated %d states" % (rep["evaluations"], gen["generated"]))
    if rep["ok_calls"] == 0 or rep["failed_calls"] == 0:
        raise vlib.ToolError("vacuous: no successful or no failing call among the edges")
    ctx.log("replayed %d edges on the real HLCTimestamp: %d violations, drift %d" % (
        rep["evaluations"], rep["violation_count"], rep["drift"]))
    if not mc_ok and not rep["violation_count"]:
        raise vlib.ToolError("TLC reports %s on the faithful layer but the real code shows no violation" % mc["violated"])
    for v in rep["violations"][:3]:
        ctx.violations.append(dict(engine="h-crdt replay-hlc", **v))
    # (V) random runs of the real clock validated by Trace_HLC
    runs, length = (60, 250) if ctx.tier == "quick" else (400, 500)
    trace = ctx.path("trace.ndjson")
    vlib.run_harness(ctx, [binary, "record-hlc", "--seed", str(ctx.seed), "--runs", str(runs), "--len", str(length),
                           "--out", trace])
    n_events = vlib.count_lines(trace)
    tv = vlib.validate_trace(ctx, "Trace_HLC", dict(Drift=D, CounterMax=65535, Strict=True), trace, "trace_strict")
    trace_drift = 0
    if not tv["accepted"]:
        lenient = vlib.validate_trace(ctx, "Trace_HLC", dict(Drift=D, CounterMax=65535, Strict=False), trace, "trace_lenient")
        if lenient["accepted"]:
            trace_drift = 1
            ctx.log("trace differs from the faithful layer at line %s but satisfies C09 (drift)" % tv["rejected"].get("line"))
        else:
            ctx.violations.append({"engine": "Trace_HLC", "why": ["recorded trace rejected: the event violates C09"],
                                   "rejected": lenient["rejected"], "trace_seed": ctx.seed,
                                   "record_cmd": "h-crdt record-hlc --seed %d --runs %d --len %d" % (ctx.seed, runs, length)})
    ctx.log("trace of %d events: %s" % (n_events, "accepted" if tv["accepted"] else "rejected (strict)"))
    cov = {
        "states": mc["distinct"], "transitions": mc["generated"],
        "traces_validated_against_impl": rep["evaluations"] + runs,
        "samples": rep["samples"][:4], "exhaustive": True,
        "replayed_edges": rep["evaluations"], "ok_calls": rep["ok_calls"], "failed_calls": rep["failed_calls"],
        "drift_edges": rep["drift"] + trace_drift,
        "recorded_runs": runs, "recorded_events": n_events, "trace_accepted_strict": tv["accepted"],
        "constants": {k: sorted(v) if isinstance(v, set) else v for k, v in consts.items()},
        "checker_cmd": mc["cmd"],
    }
    if ctx.tier == "thorough":
        # unbounded times: a successful send / recv moves the clock strictly forward, past the message, within the drift
        cov["tlaps_lemma"] = vlib.run_tlaps(ctx, "HLCMonotone", ["HLCFields"])
    return vlib.finish(ctx, "model_checking", cov, ASSUMPTIONS)


def replay(ctx, path):
    v = vlib.load_json(path)
    binary = vlib.build_harness(ctx, "h-crdt")
    if "op" not in v:
        raise vlib.ToolError("this replay file is a recorded-trace rejection; re-run: " + v.get("record_cmd", "?"))
    line = '<<"EDGE", %s>>\n' % json.dumps(json.dumps({"op": v["op"]}))
    inp = ctx.path("one.txt")
    open(inp, "w").write(line)
    out = ctx.path("replay_one.json")
    vlib.run_harness(ctx, [binary, "replay-hlc", "--input", inp, "--out", out])
    rep = vlib.load_json(out)
    for x in rep["violations"]:
        ctx.violations.append(dict(v, observed=x["observed"], why=x["why"]))
    return vlib.finish(ctx, "model_checking", {"states": 1, "transitions": 1, "traces_validated_against_impl": 1,
                                               "samples": [v["op"]]}, ["replay of one recorded violation"])
