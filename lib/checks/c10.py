"""C10 — timestamp encoding is lossless and order-preserving; parsing never panics."""
import json

import vlib

ASSUMPTIONS = [
    "boundary grids: seconds {0,1,65535,65536,2^31-1,2^31,2^32-2,2^32-1}, fractional {0,1,124,248,249}, counter {0,1,255,256,65534,65535}, node {0,1,254,255}",
    "texts: cartesian product of per-field classes (canonical, leading zeros, '+', empty, non-digit, out of range by one, huge, hex case) plus structural cases",
    "random part: seeded u64 values, bit-flipped pairs and mutated/random ASCII texts validated by TLC against HLCCodec.tla",
    "exhaustiveness over values is a grid plus random samples, not a proof (encode/decode fidelity is at the edge of this technique, DESIGN.md section 11)",
]


def _gen(ctx, binary, name, pair_mode):
    mc_cfg = vlib.cfg_text(constants=dict(EmitVecs=True, PairMode=pair_mode), invariants=["C10_Spec"], constraints=["Emit"])
    out = ctx.path("replay_%s.json" % name)
    gen, text = vlib.tlc_pipe(ctx, "MC_HLCCodec", mc_cfg, "gen_" + name,
                              [binary, "replay-codec", "--input", "-", "--out", out, "--passthrough", ctx.path("gen_%s.tlc" % name)],
                              timeout=1500)
    if gen["violated"]:
        raise vlib.ToolError("C10_Spec fails on the specification's own Pack/Format/Parse: the specification is wrong\n" + text[-2000:])
    if gen["consumer_exit"] != 0 or gen["distinct"] is None or gen["errors"]:
        raise vlib.ToolError("generation/replay failed:\n" + text[-2000:])
    rep = vlib.load_json(out)
    if rep["evaluations"] != gen["distinct"]:
        raise vlib.ToolError("replayed %d vectors, TLC enumerated %d" % (rep["evaluations"], gen["distinct"]))
    return gen, rep


def run(ctx):
    binary = vlib.build_harness(ctx, "h-crdt")
    g1, r1 = _gen(ctx, binary, "vec", False)
    g2, r2 = _gen(ctx, binary, "pair", True)
    ctx.log("vectors: %s, pairs: %d; violations %d, drift %d" % (
        r1["by_kind"], r2["evaluations"], r1["violation_count"] + r2["violation_count"], r1["drift"] + r2["drift"]))
    if r1.get("texts_accepted", 0) == 0:
        raise vlib.ToolError("vacuous: no text was accepted by the parser")
    for rep in (r1, r2):
        for v in rep["violations"][:3]:
            ctx.violations.append(dict(engine="h-crdt replay-codec", **v))
    # (V) random inputs
    n = 9000 if ctx.tier == "quick" else 90000
    trace = ctx.path("trace.ndjson")
    vlib.run_harness(ctx, [binary, "record-codec", "--seed", str(ctx.seed), "--n", str(n), "--out", trace])
    tv = vlib.validate_trace(ctx, "Trace_Codec", dict(Strict=True), trace, "trace_strict", timeout=1500)
    trace_drift = 0
    if not tv["accepted"]:
        lenient = vlib.validate_trace(ctx, "Trace_Codec", dict(Strict=False), trace, "trace_lenient", timeout=1500)
        if lenient["accepted"]:
            trace_drift = 1
            ctx.log("random trace differs from the specification's exact text/parse decision at line %s (drift, C10 itself holds)" % tv["rejected"].get("line"))
        else:
            ctx.violations.append({"engine": "Trace_Codec", "why": ["recorded event violates C10"], "rejected": lenient["rejected"],
                                   "record_cmd": "h-crdt record-codec --seed %d --n %d" % (ctx.seed, n)})
    ctx.log("random trace of %d events: %s" % (n, "accepted" if tv["accepted"] else "rejected (strict)"))
    proof = None
    if ctx.tier == "thorough":
        proof = _tlaps(ctx)
    cov = {
        "tlaps_pack_order_lemma": proof,
        "states": g1["distinct"] + g2["distinct"], "transitions": g1["generated"] + g2["generated"],
        "traces_validated_against_impl": r1["evaluations"] + r2["evaluations"] + n,
        "samples": (r1["samples"][:3] + r2["samples"][:1]), "exhaustive": True,
        "vectors": r1["by_kind"], "pairs": r2["evaluations"], "texts_accepted": r1["texts_accepted"],
        "drift_edges": r1["drift"] + r2["drift"] + trace_drift,
        "random_events": n, "trace_accepted_strict": tv["accepted"],
        "checker_cmd": g1["cmd"],
    }
    return vlib.finish(ctx, "model_checking", cov, ASSUMPTIONS)


def _tlaps(ctx):
    """Thorough tier: the order-preservation / injectivity lemma for the real field widths (spec/proofs/PackOrder.tla)."""
    import os
    import re
    import shutil
    import subprocess
    src = os.path.join(vlib.SPEC, "proofs", "PackOrder.tla")
    d = ctx.path("tlaps")
    os.makedirs(d, exist_ok=True)
    shutil.copy(src, d)
    try:
        p = subprocess.run(["tlapm", "--cleanfp", "--threads", "4", "PackOrder.tla"], cwd=d, stdout=subprocess.PIPE,
                           stderr=subprocess.STDOUT, text=True, timeout=900)
    except subprocess.TimeoutExpired:
        ctx.log("TLAPS timed out; the lemma is optional support, the claim stays at model-checking level")
        return {"status": "timeout"}
    m = re.search(r"All (\d+) obligations proved", p.stdout)
    f = re.search(r"(\d+)/(\d+) obligations failed", p.stdout)
    if m:
        ctx.log("TLAPS: all %s obligations of PackOrder.tla proved" % m.group(1))
        return {"status": "proved", "obligations": int(m.group(1)), "discharged": int(m.group(1)), "checker_cmd": "tlapm --cleanfp PackOrder.tla"}
    ctx.log("TLAPS did not prove PackOrder.tla (%s); optional support only" % (f.group(0) if f else "no result"))
    return {"status": "unproved", "detail": f.group(0) if f else p.stdout[-300:]}


def replay(ctx, path):
    v = vlib.load_json(path)
    if "vec" not in v:
        raise vlib.ToolError("this replay file is a recorded-trace rejection; re-run: " + v.get("record_cmd", "?"))
    binary = vlib.build_harness(ctx, "h-crdt")
    inp = ctx.path("one.txt")
    open(inp, "w").write('<<"VEC", %s>>\n' % json.dumps(json.dumps(v["vec"])))
    out = ctx.path("replay_one.json")
    vlib.run_harness(ctx, [binary, "replay-codec", "--input", inp, "--out", out])
    rep = vlib.load_json(out)
    for x in rep["violations"]:
        ctx.violations.append(dict(v, observed=x["observed"], why=x["why"]))
    return vlib.finish(ctx, "model_checking", {"states": 1, "transitions": 1, "traces_validated_against_impl": 1,
                                               "samples": [v["vec"]]}, ["replay of one recorded violation"])
