"""C11 — node clock serialises concurrent callers: no duplicate or regressing stamps."""
import json

import vlib

ASSUMPTIONS = [
    "ClockActor.tla: three tasks with fixed call scripts (get_time / register_ts with stamps around the clock's time, one beyond the drift, one with "
    "the clock's own node id), bounded FIFO channel of capacity 2, every interleaving, arbitrary wall clock reading per actor step",
    "real runs: 2..8 tasks x 20..60 calls on current-thread and 8-worker multi-thread runtimes, wall clock injected (stalls / creeps forward), unique "
    "remote stamps; caller-side start/end events and actor-side hook events ordered by one process-wide sequence number taken under the sink lock",
    "only order facts 'smaller sequence number happened before' are used; a register_ts of the clock's own node id is dropped by design and exempt",
    "a wall clock stepping backwards across the drift boundary makes the actor's `expect` on send() fail (observation recorded in DESIGN.md, outside C11)",
]


def run(ctx):
    binary = vlib.build_harness(ctx, "h-node")
    states = trans = 0
    for i, script in enumerate(["ScriptDef", "ScriptDef2"]):
        cfg = vlib.cfg_text(constants=dict(Drift=1025000, CounterMax=65535, Tasks={1, 2, 3}, Walls={0, 1, 6}, Self=1, Cap=2),
                            invariants=["C11_Distinct", "C11_TaskMonotone"], properties=["C11_AfterRegister"])
        cfg = cfg.replace("CONSTANTS\n", "CONSTANTS\n  Script <- %s\n" % script)
        mc, text = vlib.run_tlc(ctx, "MC_ClockActor", cfg, "mc_%d" % i, workers=6, extra=["-coverage", "1"], timeout=900)
        if not vlib.require_clean_mc(ctx, mc, text, "MC_ClockActor/" + script):
            raise vlib.ToolError("ClockActor model violates %s: the specification (or HLC.tla) is wrong, C09 binds HLC.tla to the code" % mc["violated"])
        states += mc["distinct"]
        trans += mc["generated"]
    ctx.log("MC_ClockActor: %d states, %d transitions, C11 holds on the model" % (states, trans))
    runs = 60 if ctx.tier == "quick" else 600
    trace = ctx.path("trace.ndjson")
    out = vlib.run_harness(ctx, [binary, "record-clock", "--seed", str(ctx.seed), "--runs", str(runs), "--out", trace], timeout=1800)
    st = json.loads(out.strip().splitlines()[-1])
    if st["events"] < 1000:
        raise vlib.ToolError("vacuous recording: %s" % st)
    tv = vlib.validate_trace(ctx, "Trace_ClockActor", {}, trace, "trace", timeout=1800)
    ctx.log("%d runs, %d events: trace %s" % (st["runs"], st["events"], "accepted" if tv["accepted"] else "REJECTED"))
    if not tv["accepted"]:
        ctx.violations.append({"engine": "h-node record-clock + Trace_ClockActor", "why": ["recorded event violates C11"], "rejected": tv["rejected"],
                               "record_cmd": "h-node record-clock --seed %d --runs %d" % (ctx.seed, runs)})
    samples = []
    with open(trace) as f:
        for i, line in enumerate(f):
            if i % 4000 in (0, 1, 2) and len(samples) < 8:
                samples.append(json.loads(line))
    cov = {"states": states, "transitions": trans, "traces_validated_against_impl": st["runs"], "samples": samples,
           "recorded_runs": st["runs"], "recorded_events": st["events"], "trace_accepted": tv["accepted"]}
    return vlib.finish(ctx, "model_checking", cov, ASSUMPTIONS)


def replay(ctx, path):
    v = vlib.load_json(path)
    raise vlib.ToolError("re-run the recording: " + v.get("record_cmd", "bin/check C11"))
