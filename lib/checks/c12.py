"""C12 — RPC delivers exactly the bytes sent; damaged or short frames are rejected."""
import json

import vlib

ASSUMPTIONS = [
    "toy-scale TLC model: bodies of 2..5 bits with a real CRC-3; every flip / truncation / extension of every frame of one request-reply exchange",
    "real frames of 6 message types (fixed-size, Vec, nested Strings/Option, unit, u64, Status) with empty/small/large values; per frame ALL single-bit "
    "flips, ALL truncations and extensions by 1..8 bytes go through the real DataView::using under catch_unwind (sampled above the exhaustive size bound)",
    "crcOk is computed by an independent bitwise CRC-32; minLen = size_of::<Archived<T>>()",
    "memory safety as such ('reading outside the buffer') is not observable by this technique: what is checked is the acceptance that would precede it "
    "and, in this debug-assertion build, the panic it causes",
]


def run(ctx):
    binary = vlib.build_harness(ctx, "h-rpc")
    # (M) toy bit-level model of the framing and of one exchange over a damaging network
    maxbody = 4 if ctx.tier == "quick" else 6
    mc_cfg = vlib.cfg_text(constants=dict(MinLen=2, MaxBody=maxbody, CheckLength=True),
                           invariants=["AtMostOnce", "NoHandlerOnDamagedFrame", "HandlerSeesWhatWasSent", "ClientSeesReply"])
    mc, text = vlib.run_tlc(ctx, "MC_RpcFrame", mc_cfg, "mc", workers=4, extra=["-coverage", "1"], timeout=900)
    if not vlib.require_clean_mc(ctx, mc, text, "MC_RpcFrame"):
        raise vlib.ToolError("the toy framing model violates %s: specification error" % mc["violated"])
    ctx.log("MC_RpcFrame: %d states, %d generated" % (mc["distinct"], mc["generated"]))
    # (V) real frames
    trace = ctx.path("trace.ndjson")
    out = vlib.run_harness(ctx, [binary, "record-frames", "--seed", str(ctx.seed), "--tier", ctx.tier, "--out", trace])
    stats = json.loads(out.strip().splitlines()[-1])
    if stats["frame_cases"] < 1000 or stats["wire_events"] < 50 or stats["roundtrips"] < 10:
        raise vlib.ToolError("vacuous recording: %s" % stats)
    tv = vlib.validate_trace(ctx, "Trace_RpcFrame", {}, trace, "trace", timeout=900)
    ctx.log("recorded %s; trace %s" % (stats, "accepted" if tv["accepted"] else "REJECTED"))
    if not tv["accepted"]:
        ctx.violations.append({"engine": "Trace_RpcFrame", "why": ["recorded event rejected by the acceptance rule / round-trip clauses"],
                               "rejected": tv["rejected"], "record_cmd": "h-rpc record-frames --seed %d --tier %s" % (ctx.seed, ctx.tier)})
    samples = []
    with open(trace) as f:
        for i, line in enumerate(f):
            if i % 300 == 0:
                samples.append(json.loads(line))
    cov = {"states": mc["distinct"], "transitions": mc["generated"],
           "traces_validated_against_impl": stats["frame_cases"] + stats["wire_events"] + stats["roundtrips"] + stats["status_events"],
           "samples": samples[:6], "frames": stats["frames"], "frame_mutations": stats["frame_cases"],
           "distinct_frame_events": stats["frame_events"], "wire_events": stats["wire_events"], "roundtrips": stats["roundtrips"],
           "status_events": stats["status_events"], "trace_accepted": tv["accepted"], "checker_cmd": tv["cmd"]}
    return vlib.finish(ctx, "model_checking", cov, ASSUMPTIONS)


def replay(ctx, path):
    v = vlib.load_json(path)
    raise vlib.ToolError("re-run the recording: " + v.get("record_cmd", "bin/check C12"))
