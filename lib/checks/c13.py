"""C13 — a message is served exactly when its service is currently registered."""
import json

import vlib

CONSTS = dict(Services={'"A"', '"B"', '"C"'}, AllMsgs={'"Ping"', '"Pong"'}, FixD1=True)
ASSUMPTIONS = [
    "three services: A and B register the same message type, C registers two message types; every (service, message) pair is probed, "
    "including messages a service implements but does not register",
    "all add/remove histories up to the length bound (6^L), each replayed on a fresh real Server on 127.0.0.1 with real clients",
    "handler keys are assumed collision free (DefaultHasher of the URI) on the names in use",
]


def run(ctx):
    binary = vlib.build_harness(ctx, "h-rpc")
    maxlen = 4 if ctx.tier == "quick" else 6
    consts = dict(CONSTS, MaxLen=maxlen)
    consts["Handles <- HandlesDef"] = None
    cfg = vlib.cfg_text(constants=dict(CONSTS, MaxLen=maxlen, EmitHist=True), invariants=["C13_ServedIffRegistered"],
                        constraints=["Emit"]).replace("CONSTANTS\n", "CONSTANTS\n  Handles <- HandlesDef\n")
    out = ctx.path("replay.json")
    gen, text = vlib.tlc_pipe(ctx, "MC_RpcRegistry", cfg, "gen",
                              [binary, "replay-registry", "--input", "-", "--out", out, "--passthrough", ctx.path("gen.tlc")],
                              timeout=1500)
    if gen["consumer_exit"] != 0 or gen["distinct"] is None or (gen["errors"] and not gen["violated"]):
        raise vlib.ToolError("generation/replay failed:\n" + text[-2000:])
    rep = vlib.load_json(out)
    if rep["evaluations"] != 6 ** maxlen:
        raise vlib.ToolError("replayed %d histories, expected %d" % (rep["evaluations"], 6 ** maxlen))
    if rep["served_probes"] == 0 or rep["refused_probes"] == 0:
        raise vlib.ToolError("vacuous: probes never served / never refused")
    ctx.log("RpcRegistry: %d states; %d histories replayed on a real server, %d probes, %d violations" % (
        gen["distinct"], rep["evaluations"], rep["probes"], rep["violation_count"]))
    if gen["violated"] and not rep["violation_count"]:
        raise vlib.ToolError("TLC reports %s on the faithful layer but the real server shows no violation" % gen["violated"])
    for v in rep["violations"][:3]:
        ctx.violations.append(dict(engine="h-rpc replay-registry", **v))
    cov = {"states": gen["distinct"], "transitions": gen["generated"], "traces_validated_against_impl": rep["evaluations"],
           "samples": rep["samples"][:4], "exhaustive": True, "probes": rep["probes"], "served_probes": rep["served_probes"],
           "refused_probes": rep["refused_probes"], "max_history_length": maxlen, "checker_cmd": gen["cmd"]}
    return vlib.finish(ctx, "model_checking", cov, ASSUMPTIONS)


def replay(ctx, path):
    v = vlib.load_json(path)
    binary = vlib.build_harness(ctx, "h-rpc")
    # expectations are recomputed by the oracle rule: served iff added and not removed since
    reg, exps = set(), []
    handles = {"A": ["Ping"], "B": ["Ping"], "C": ["Ping", "Pong"]}
    for kind, s in v["hist"]:
        reg = reg | {s} if kind == "add" else reg - {s}
        exps.append(sorted([s2, m] for s2 in reg for m in handles[s2]))
    inp = ctx.path("one.txt")
    open(inp, "w").write('<<"HIST", %s>>\n' % json.dumps(json.dumps({"hist": v["hist"], "exps": exps})))
    out = ctx.path("replay_one.json")
    vlib.run_harness(ctx, [binary, "replay-registry", "--input", inp, "--out", out])
    rep = vlib.load_json(out)
    for x in rep["violations"]:
        ctx.violations.append(x)
    return vlib.finish(ctx, "model_checking", {"states": 1, "transitions": 1, "traces_validated_against_impl": 1,
                                               "samples": [v["hist"]]}, ["replay of one recorded violation"])
