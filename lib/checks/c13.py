"""C13 — a message is served exactly when its service is currently registered."""
import json

import vlib

CONSTS = dict(Services={'"A"', '"B"', '"C"', '"A2"'}, AllMsgs={'"Ping"', '"Pong"'}, FixD1=True)
STEPS = 4 + 3      # add <type> for four service types, remove <name> for three names
ASSUMPTIONS = [
    "four service types: A and B register the same message type under their own names, C registers two message types, A2 registers the other "
    "message type under A's name (service_name overridden); every (name, message) pair is probed, including messages a service implements but does "
    "not register; remove_service(name) must remove whatever was added under the name",
    "all add/remove histories up to the length bound (7^L), each replayed on a fresh real Server on 127.0.0.1 with real clients",
    "second run: the same histories extended with `hold s` (a request to s that stays inside its handler, sent on the SAME connection as the probes) "
    "and `release`; a held request must have been dispatched iff its service was registered when it arrived, and probes after a removal are refused "
    "although a request of the removed service is still running",
    "third run: histories in which two registry changes (add / remove of services under different names, or the same change twice) are made at the same "
    "time by two threads leaving a spin barrier together, on a server that also holds 64 bystander services; the outcome must be that of either order "
    "(both orders agree for the pairs taken), and a bystander is probed after every such step",
    "handler keys are assumed collision free (DefaultHasher of the URI) on the names in use",
]


def _one(ctx, binary, maxlen, inflight, name, par=False):
    cfg = vlib.cfg_text(constants=dict(CONSTS, MaxLen=maxlen, EmitHist=True, WithInFlight=inflight, WithPar=par),
                        invariants=["C13_ServedIffRegistered"], properties=["C13_HeldWasRegistered"],
                        constraints=["Emit"]).replace("CONSTANTS\n", "CONSTANTS\n  Handles <- HandlesDef\n  NameOf <- NameOfDef\n")
    out = ctx.path("replay_%s.json" % name)
    gen, text = vlib.tlc_pipe(ctx, "MC_RpcRegistry", cfg, "gen_" + name,
                              [binary, "replay-registry", "--input", "-", "--out", out, "--passthrough", ctx.path("gen_%s.tlc" % name)],
                              timeout=3000)
    if gen["consumer_exit"] != 0 or gen["distinct"] is None or (gen["errors"] and not gen["violated"]):
        raise vlib.ToolError("generation/replay failed:\n" + text[-2000:])
    rep = vlib.load_json(out)
    if not inflight and not par and rep["evaluations"] != STEPS ** maxlen:
        raise vlib.ToolError("replayed %d histories, expected %d" % (rep["evaluations"], STEPS ** maxlen))
    if rep["evaluations"] == 0 or rep["served_probes"] == 0 or rep["refused_probes"] == 0:
        raise vlib.ToolError("vacuous: %s" % {k: rep[k] for k in ("evaluations", "served_probes", "refused_probes")})
    ctx.log("RpcRegistry (%s): %d states; %d histories replayed on a real server, %d probes, %d violations" % (
        "with requests in flight" if inflight else "with concurrent registry changes" if par else "sequential", gen["distinct"], rep["evaluations"], rep["probes"], rep["violation_count"]))
    if gen["violated"] and not rep["violation_count"]:
        raise vlib.ToolError("TLC reports %s on the faithful layer but the real server shows no violation" % gen["violated"])
    for v in rep["violations"][:3]:
        ctx.violations.append(dict(engine="h-rpc replay-registry", **v))
    return gen, rep


def run(ctx):
    binary = vlib.build_harness(ctx, "h-rpc")
    maxlen = 4 if ctx.tier == "quick" else 5
    g1, r1 = _one(ctx, binary, maxlen, False, "seq")
    g2, r2 = _one(ctx, binary, 4 if ctx.tier == "quick" else 5, True, "inflight")
    g3, r3 = _one(ctx, binary, 2 if ctx.tier == "quick" else 3, False, "par", par=True)
    cov = {"states": g1["distinct"] + g2["distinct"] + g3["distinct"], "transitions": g1["generated"] + g2["generated"] + g3["generated"],
           "traces_validated_against_impl": r1["evaluations"] + r2["evaluations"] + r3["evaluations"],
           "histories_with_concurrent_registry_changes": r3["evaluations"],
           "samples": r1["samples"][:2] + r2["samples"][:3], "exhaustive": True,
           "probes": r1["probes"] + r2["probes"], "served_probes": r1["served_probes"] + r2["served_probes"],
           "refused_probes": r1["refused_probes"] + r2["refused_probes"],
           "sequential_histories": r1["evaluations"], "histories_with_requests_in_flight": r2["evaluations"],
           "checker_cmd": g1["cmd"]}
    return vlib.finish(ctx, "model_checking", cov, ASSUMPTIONS)


def replay(ctx, path):
    v = vlib.load_json(path)
    binary = vlib.build_harness(ctx, "h-rpc")
    # expectations are recomputed by the oracle rule: served iff added and not removed since
    reg, exps = set(), []
    handles = {"A": ["Ping"], "B": ["Ping"], "C": ["Ping", "Pong"], "A2": ["Pong"]}
    name_of = {"A": "A", "B": "B", "C": "C", "A2": "A"}
    for kind, s in v["hist"]:
        if kind == "add":
            reg = reg | {s}
        elif kind == "remove":
            reg = {t for t in reg if name_of[t] != s}
        exps.append(sorted([name_of[s2], m] for s2 in reg for m in handles[s2]))
    inp = ctx.path("one.txt")
    open(inp, "w").write('<<"HIST", %s>>\n' % json.dumps(json.dumps({"hist": v["hist"], "exps": exps})))
    out = ctx.path("replay_one.json")
    vlib.run_harness(ctx, [binary, "replay-registry", "--input", inp, "--out", out])
    rep = vlib.load_json(out)
    for x in rep["violations"]:
        ctx.violations.append(x)
    return vlib.finish(ctx, "model_checking", {"states": 1, "transitions": 1, "traces_validated_against_impl": 1,
                                               "samples": [v["hist"]]}, ["replay of one recorded violation"])
