"""C14 — under network faults an RPC answers correctly or fails; never twice or mixed."""
import json

import vlib

ASSUMPTIONS = [
    "RpcNet.tla: one client, one server, link up / held / partitioned, lazy connection with 2 s connect timeout, request timeouts of 500 ms and 2 s (shorter than / equal to the connect timeout; random schedules also 1 s and 3 s) or none, "
    "2-3 concurrent or sequential requests, up to 2-3 fault events, time in 500 ms ticks; exhaustive",
    "every external schedule of the model (fault events, sends with / without timeout, ticks), or a stride sample of them in the quick tier, is executed "
    "by a conductor task against the real RpcClient / Server inside a turmoil simulation (datacake-rpc feature `simulation`), fast handler and, for every "
    "fourth schedule, a handler that takes 700 ms; plus seeded random schedules of 4..14 steps",
    "the model is deliberately permissive about which failure a fault produces; the trace specification judges only C14's clauses: at most one handler "
    "execution per request, a reply echoes that very request's id and payload, outcome is reply / connection error / timeout, a request with a timeout "
    "completes within it (+50 ms), a request without timeout may stay pending under a held link, without any fault every request gets its reply",
    "a reply travels as head and body (RpcNet.tla ToClient / BodyArrives): the unsound variation BodyUncovered (the timeout ends with the head, a body "
    "cut off is an internal error - the code before the repair) must violate C14_TimeoutBound and C14_Outcome",
    "real sockets: the same model schedules (stride sample) and random ones, in real time (tick = 100 ms, a timed request may be 2 s late; without any fault a request may still time out honestly, but not before its time), against the real "
    "hyper transport (net/client.rs) and server through a TCP relay of the harness: hold = bytes kept back in both directions, partition = connections cut "
    "and refused, hold_reply = the link goes on hold after N more bytes from the server (replies of up to 1.2 MB stopped inside their head or half-way "
    "through their body); turmoil 0.4.0 itself panics on reads larger than its segment buffer, so large replies are exercised on real sockets only",
]


def run(ctx):
    binary = vlib.build_harness(ctx, "h-sim")
    consts = dict(Reqs={1, 2}, TmoTicks={0, 1, 4}, MaxFaults=2, MaxTicks=6) if ctx.tier == "quick" else dict(Reqs={1, 2, 3}, TmoTicks={0, 1, 4}, MaxFaults=2, MaxTicks=4)
    invs = ["C14_AtMostOnce", "C14_Outcome", "C14_ReplyMeansHandled", "C14_TimeoutBound", "C14_NoFaultNoFailure"]
    consts = dict(consts, BodyUncovered=False)
    mc_cfg = vlib.cfg_text(constants=dict(consts, EmitSched=False), invariants=invs)
    mc, text = vlib.run_tlc(ctx, "RpcNet", mc_cfg, "mc", workers=8, timeout=3000, xmx="10g", extra=["-coverage", "1"])
    if not vlib.require_clean_mc(ctx, mc, text, "RpcNet"):
        raise vlib.ToolError("RpcNet.tla violates %s: specification error" % mc["violated"])
    ctx.log("RpcNet: %d states, %d transitions" % (mc["distinct"], mc["generated"]))
    vlib.require_actions(mc, ["ToClient", "BodyArrives", "BodyBroken", "Broken", "TimeoutFires", "ConnectFail"], "RpcNet")
    # the unsound variation (the code before the repair) must be told apart
    for inv in ("C14_TimeoutBound", "C14_Outcome"):
        c2 = vlib.cfg_text(constants=dict(consts, Reqs={1}, BodyUncovered=True, EmitSched=False), invariants=[inv])
        r2, _ = vlib.run_tlc(ctx, "RpcNet", c2, "mc_uncovered_" + inv, workers=4, timeout=1800)
        if inv not in r2["violated"]:
            raise vlib.ToolError("RpcNet.tla no longer tells the variation BodyUncovered apart (%s)" % inv)
    # the schedules that are executed come from the two-request universe (with one more timeout value in the thorough tier);
    # the three-request universe of the thorough tier is model checked only - its schedules would fill the disk
    gen_consts = consts if ctx.tier == "quick" else dict(Reqs={1, 2}, TmoTicks={0, 1, 2, 4}, MaxFaults=2, MaxTicks=6, BodyUncovered=False)
    gen_cfg = vlib.cfg_text(constants=dict(gen_consts, EmitSched=True), constraints=["Emit"])
    sched_file = ctx.path("sched.out")
    gen, gtext = vlib.run_tlc(ctx, "RpcNet", gen_cfg, "gen", workers=1, timeout=3000, stdout_to=sched_file, xmx="10g")
    if gen["distinct"] is None or gen["errors"]:
        raise vlib.ToolError("schedule generation failed:\n" + gtext[-2000:])
    stride = 80 if ctx.tier == "quick" else 12
    trace1 = ctx.path("trace_model.ndjson")
    out = vlib.run_harness(ctx, [binary, "replay-schedules", "--input", sched_file, "--out", trace1, "--stride", str(stride),
                                 "--seed", str(ctx.seed)], timeout=3000)
    st1 = json.loads(out.strip().splitlines()[-1])
    trace2 = ctx.path("trace_random.ndjson")
    n_rand = 400 if ctx.tier == "quick" else 4000
    out = vlib.run_harness(ctx, [binary, "random-schedules", "--n", str(n_rand), "--out", trace2, "--seed", str(ctx.seed)], timeout=3000)
    st2 = json.loads(out.strip().splitlines()[-1])
    # the same on real sockets, through the harness's TCP relay
    rpc = vlib.build_harness(ctx, "h-rpc")
    trace3 = ctx.path("trace_tcp_model.ndjson")
    out = vlib.run_harness(ctx, [rpc, "netfaults", "replay-schedules", "--input", sched_file, "--out", trace3,
                                 "--stride", str(stride * 4), "--seed", str(ctx.seed)], timeout=3000)
    st3 = json.loads(out.strip().splitlines()[-1])
    trace4 = ctx.path("trace_tcp_random.ndjson")
    out = vlib.run_harness(ctx, [rpc, "netfaults", "random-schedules", "--n", str(300 if ctx.tier == "quick" else 3000), "--out", trace4,
                                 "--seed", str(ctx.seed)], timeout=3000)
    st4 = json.loads(out.strip().splitlines()[-1])
    tcp_outcomes = {k: st3["outcomes"].get(k, 0) + st4["outcomes"].get(k, 0) for k in set(st3["outcomes"]) | set(st4["outcomes"])}
    for need in ("reply", "ConnectionError", "Timeout"):
        if tcp_outcomes.get(need, 0) == 0:
            raise vlib.ToolError("vacuous: no request over real sockets ended with %s (%s)" % (need, tcp_outcomes))
    if st4["held_replies"] == 0:
        raise vlib.ToolError("vacuous: no reply was put on hold half-way")
    ctx.log("real sockets: %d model schedules + %d random schedules (%d with a reply held half-way), %d requests (%s)" % (
        st3["schedules"], st4["schedules"], st4["held_replies"], st3["requests"] + st4["requests"], tcp_outcomes))
    fails = []
    for name, tr in (("model", trace1), ("random", trace2), ("tcp_model", trace3), ("tcp_random", trace4)):
        tv = vlib.validate_trace(ctx, "Trace_RpcNet", {}, tr, "trace_" + name, invariants=["Report"])
        if tv["rejected"] is not None:
            raise vlib.ToolError("trace validation stopped early: %s" % tv["rejected"])
        fails += tv["fails"]
    outcomes = {k: st1["outcomes"].get(k, 0) + st2["outcomes"].get(k, 0) for k in set(st1["outcomes"]) | set(st2["outcomes"])}
    for need in ("reply", "ConnectionError", "Timeout"):
        if outcomes.get(need, 0) == 0:
            raise vlib.ToolError("vacuous: no request ended with %s (%s)" % (need, outcomes))
    ctx.log("%d model schedules + %d random schedules in turmoil, %d requests (%s): %d rejected" % (
        st1["schedules"], st2["schedules"], st1["requests"] + st2["requests"], outcomes, len(fails)))
    for e in fails[:4]:
        ctx.violations.append({"engine": ("h-rpc netfaults" if e.get("transport") == "tcp" else "h-sim") + " + Trace_RpcNet", "event": e,
                               "why": ["request outcome violates C14"]})
    samples = []
    with open(trace1) as f:
        for i, line in enumerate(f):
            e = json.loads(line)
            if e.get("schedule"):
                samples.append(e)
    cov = {"states": mc["distinct"], "transitions": mc["generated"],
           "traces_validated_against_impl": st1["schedules"] + st2["schedules"] + st3["schedules"] + st4["schedules"], "samples": samples[:4],
           "model_schedules_total": None, "model_schedules_run": st1["schedules"], "random_schedules_run": st2["schedules"],
           "requests": st1["requests"] + st2["requests"], "outcomes": outcomes, "requests_rejected": len(fails), "stride": stride,
           "real_sockets": {"model_schedules_run": st3["schedules"], "random_schedules_run": st4["schedules"], "replies_held_half_way": st4["held_replies"],
                            "requests": st3["requests"] + st4["requests"], "outcomes": tcp_outcomes},
           "unsound_variations_told_apart": ["BodyUncovered"]}
    return vlib.finish(ctx, "model_checking", cov, ASSUMPTIONS)


def replay(ctx, path):
    raise vlib.ToolError("re-run `bin/check C14` (schedules are regenerated deterministically)")
