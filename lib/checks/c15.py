"""C15 — replica selection yields enough distinct live peers or reports too few."""
import json

import vlib

ASSUMPTIONS = [
    "layouts: data centres 1..k, each any subset of node indexes 1..m (empty = data centre absent), so updates can replace members without changing sizes; "
    "the local node is node 1 of data centre 1; "
    "histories: every sequence of membership updates and selections (all 8 levels) up to the length bound, first step an update",
    "each history is replayed on a fresh real selector actor (start_node_selector + DCAwareSelector); outcomes judged by the "
    "postcondition Allowed (count-only: only live members other than the local node, no duplicates, at least Required, exactly n for One/Two/Three)",
    "the 2 s per-level cache is exercised with real 2.1 s waits in the thorough tier only (std::time::Instant cannot be virtualised)",
    "the random data-centre choice is sampled by repetition, not enumerated",
]

TIERS = {
    "quick": [dict(NumDCs=2, MaxIdx=3, MaxLen=3, WithWait=False),
              dict(NumDCs=3, MaxIdx=2, MaxLen=3, WithWait=False),
              # data centres of four nodes (one membership update, then every sequence of selections)
              dict(NumDCs=1, MaxIdx=4, MaxLen=4, WithWait=False, SetAt={0}),
              dict(NumDCs=2, MaxIdx=4, MaxLen=3, WithWait=False, SetAt={0})],
    "thorough": [dict(NumDCs=2, MaxIdx=3, MaxLen=3, WithWait=False),
                 dict(NumDCs=3, MaxIdx=2, MaxLen=3, WithWait=False),
                 dict(NumDCs=2, MaxIdx=4, MaxLen=3, WithWait=False),
                 dict(NumDCs=1, MaxIdx=4, MaxLen=5, WithWait=False, SetAt={0}),
                 dict(NumDCs=2, MaxIdx=4, MaxLen=4, WithWait=False, SetAt={0}),
                 dict(NumDCs=2, MaxIdx=2, MaxLen=4, WithWait=True),
                 dict(NumDCs=1, MaxIdx=4, MaxLen=4, WithWait=True)],
}
SIM = {"quick": dict(NumDCs=3, MaxIdx=4, MaxLen=6, WithWait=False, num=1500),
       "thorough": dict(NumDCs=4, MaxIdx=4, MaxLen=8, WithWait=False, num=2500)}


def run(ctx):
    binary = vlib.build_harness(ctx, "h-node")
    total_hist = total_sel = total_events = 0
    states = trans = 0
    samples, all_fails = [], []
    runs = [(c, None) for c in TIERS[ctx.tier]] + [(SIM[ctx.tier], SIM[ctx.tier]["num"])]
    for i, (c, sim) in enumerate(runs):
        consts = {k: v for k, v in c.items() if k != "num"}
        if "SetAt" not in consts:
            consts["SetAt"] = set(range(c["MaxLen"])) if not sim else {0, c["MaxLen"] // 2}
        cfg = vlib.cfg_text(constants=dict(consts, EmitHist=True), constraints=["Emit"])
        hist_file = ctx.path("hist_%d.out" % i)
        extra = ["-simulate", "num=%d" % sim, "-depth", str(c["MaxLen"] + 1), "-seed", str(ctx.seed)] if sim else []
        gen, text = vlib.run_tlc(ctx, "MC_Selector", cfg, "gen_%d" % i, workers=1 if sim else 1, timeout=2400, extra=extra,
                                 stdout_to=hist_file)
        if not sim and (gen["distinct"] is None or gen["errors"]):
            raise vlib.ToolError("history generation failed:\n" + text[-2000:])
        if sim and "Error:" in text:
            raise vlib.ToolError("history simulation failed:\n" + text[-2000:])
        trace = ctx.path("trace_%d.ndjson" % i)
        out = vlib.run_harness(ctx, [binary, "replay-selector", "--input", hist_file, "--out", trace], timeout=3000)
        st = json.loads(out.strip().splitlines()[-1])
        if st["histories"] == 0 or st["selections"] == 0:
            raise vlib.ToolError("vacuous: no history replayed (%s)" % st)
        tv = vlib.validate_trace(ctx, "Trace_Selector", {}, trace, "trace_%d" % i, invariants=["Report"], timeout=1500)
        if tv["rejected"] is not None:
            raise vlib.ToolError("trace validation stopped early: %s" % tv["rejected"])
        ctx.log("%s %s: %d histories, %d selections, %d distinct outcomes, %d rejected by Allowed" % (
            "simulated" if sim else "exhaustive", consts, st["histories"], st["selections"], st["distinct_events"], len(tv["fails"])))
        total_hist += st["histories"]
        total_sel += st["selections"]
        total_events += st["distinct_events"]
        if not sim:
            states += gen["distinct"]
            trans += gen["generated"]
        all_fails += tv["fails"]
        with open(trace) as f:
            for j, line in enumerate(f):
                if j % 200 == 0 and len(samples) < 6:
                    samples.append(json.loads(line))
    for e in all_fails[:5]:
        ctx.violations.append({"engine": "h-node replay-selector + Trace_Selector",
                               "why": ["selection outcome not allowed by the level / live membership"],
                               "event": {k: e[k] for k in e if k != "first_history"}, "history": e.get("first_history")})
    if len(all_fails) > 5:
        ctx.log("%d failing outcomes in total" % len(all_fails))
    cov = {"states": max(states, 1), "transitions": max(trans, 1), "traces_validated_against_impl": total_hist,
           "samples": samples, "exhaustive": True, "histories": total_hist, "selections": total_sel,
           "distinct_outcomes_validated": total_events, "outcomes_rejected": len(all_fails)}
    return vlib.finish(ctx, "model_checking", cov, ASSUMPTIONS)


def replay(ctx, path):
    v = vlib.load_json(path)
    binary = vlib.build_harness(ctx, "h-node")
    inp = ctx.path("one.txt")
    open(inp, "w").write('<<"HIST", %s>>\n' % json.dumps(json.dumps({"hist": v["history"]})))
    trace = ctx.path("trace_one.ndjson")
    # the random data-centre choice makes single runs non-deterministic: repeat
    lines = open(inp).read() * 200
    open(inp, "w").write(lines)
    vlib.run_harness(ctx, [binary, "replay-selector", "--input", inp, "--out", trace])
    tv = vlib.validate_trace(ctx, "Trace_Selector", {}, trace, "trace_one", invariants=["Report"])
    for e in tv["fails"][:3]:
        ctx.violations.append({"engine": "h-node replay-selector + Trace_Selector", "event": e, "history": v["history"]})
    return vlib.finish(ctx, "model_checking", {"states": 1, "transitions": 1, "traces_validated_against_impl": 200,
                                               "samples": [v["history"]]}, ["replay of one recorded violation, 200 repetitions"])
