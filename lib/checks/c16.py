"""C16 — membership change events add up to the live membership."""
import json
import subprocess

import vlib

ASSUMPTIONS = [
    "snapshots over a small id universe with two addresses per id (join, leave, address change, rejoin), every subscription point, "
    "every placement of the subscriber's reads; behaviours up to the stated number of publishes / steps",
    "the subscriber applies a delta the way the task distributor and the replication poller do: remove `left`, then insert `joined`, keyed by node id",
    "the real watch_membership_changes task runs over a caller-supplied snapshot channel (cfg(datacake_verif) hook); the subscriber is a real WatchStream "
    "over a clone of the real receiver, as DatacakeNode::membership_changes() builds it",
    "consumers: the store's own watcher (datacake-eventual-consistency/src/lib.rs) reads a change as soon as it is published, so the behaviours "
    "replayed on the task distributor and the replication cycle are those in which every publish is followed by the subscriber's read; the "
    "services tick after every change (mode A) or only at the end (mode B, several changes in one drain); other tick placements are explored "
    "by TLC only (DistTick / PollRound of Membership.tla). Judged: the distributor's live members after its drain, which real peers received "
    "the batch built at that tick (their storage is read), the replication cycle's live members at the start of its round; what its keyspace "
    "tracker remembers is reported as drift only",
    "source: real ChitchatNodes over chitchat's in-process channel transport (failure detector with a 1 s initial interval), four scripts of joins, "
    "departures and rejoins - under another address, at the address another node had; judged only at quiescence (the snapshot is polled for up to three "
    "minutes after every change, then has to stay for three seconds): it names exactly the running nodes with their present addresses",
    "behaviours matching a listed known finding (late subscriber / skipped delta) are reported as KNOWN-FINDING, never as violations; every other "
    "mismatch, and every wrong `left`/`joined` content, is a violation",
]
TIERS = {
    "quick": [dict(Ids={1, 2}, Addrs={1, 2}, MaxPub=3, MaxSteps=7), dict(Ids={1, 2}, Addrs={1}, MaxPub=5, MaxSteps=10)],
    "thorough": [dict(Ids={1, 2}, Addrs={1, 2}, MaxPub=3, MaxSteps=7),
                 dict(Ids={1, 2, 3}, Addrs={1, 2}, MaxPub=3, MaxSteps=6),
                 dict(Ids={1, 2}, Addrs={1}, MaxPub=5, MaxSteps=10)],
}
KNOWN = {"late": "C16-late-subscriber", "skipped": "C16-skipped-delta"}
# the consumers of the change events: task distributor and replication cycle behind the store's watcher
CONSUMERS = {
    "quick": [dict(Ids={1, 2}, Addrs={1, 2}, MaxPub=4, MaxSteps=9, limit=1600, slices=2, mc=dict(MaxPub=3, MaxSteps=9))],
    "thorough": [dict(Ids={1, 2}, Addrs={1, 2}, MaxPub=4, MaxSteps=9, limit=0, slices=4, mc=dict(MaxPub=4, MaxSteps=9)),
                 dict(Ids={1, 2, 3}, Addrs={1, 2}, MaxPub=3, MaxSteps=7, limit=6000, slices=4, mc=dict(MaxPub=2, MaxSteps=8))],
}


def gossip(ctx, cov):
    """The transport the membership snapshots come from (not the subject of a listed property): Gossip.tla exhaustively,
    then a recorded run of real gossip endpoints validated by Trace_Gossip.tla.  A rejected trace is reported as drift
    in the evidence, never as a C16 verdict; the binding is demonstrated by a corrupted copy."""
    binary = vlib.build_harness(ctx, "h-node")
    mc_cfg = vlib.cfg_text(constants=dict(Nodes={1, 2, 3}, Ghost=9, Cap=2, MaxSends=5 if ctx.tier == "quick" else 6),
                           invariants=["G_Delivery", "G_Bounded", "G_NothingFromNowhere"])
    mc, text = vlib.run_tlc(ctx, "Gossip", mc_cfg, "mc_gossip", workers=6, timeout=3000)
    if not vlib.require_clean_mc(ctx, mc, text, "Gossip"):
        raise vlib.ToolError("Gossip.tla violates %s: specification error" % mc["violated"])
    trace = ctx.path("gossip.ndjson")
    out = vlib.run_harness(ctx, [binary, "record-gossip", "--out", trace, "--seed", str(ctx.seed),
                                 "--runs", "12" if ctx.tier == "quick" else "80", "--len", "100"], timeout=3000)
    st = json.loads(out.strip().splitlines()[-1])
    if st["recvs"] == 0 or st["empties"] == 0 or st["refused_sends"] == 0:
        raise vlib.ToolError("vacuous gossip run: %s" % st)
    tv = vlib.validate_trace(ctx, "Trace_Gossip", {}, trace, "trace_gossip", timeout=1800)
    lines = open(trace).read().splitlines()
    idx = next(i for i, ln in enumerate(lines) if '"recv"' in ln)
    e = json.loads(lines[idx])
    e["src"] = e["src"] % 3 + 1          # the message is logged as coming from another node
    lines[idx] = json.dumps(e)
    bad = ctx.path("gossip_corrupted.ndjson")
    open(bad, "w").write("\n".join(lines) + "\n")
    tb = vlib.validate_trace(ctx, "Trace_Gossip", {}, bad, "trace_gossip_corrupted", timeout=1800)
    if tb["accepted"]:
        raise vlib.ToolError("binding demonstration failed: a gossip trace with a wrong source was accepted")
    ctx.log("gossip transport: Gossip.tla %d states; %d sends / %d receives / %d empty inboxes / %d refused sends of real endpoints: trace %s" % (
        mc["distinct"], st["sends"], st["recvs"], st["empties"], st["refused_sends"], "accepted" if tv["accepted"] else "REJECTED (drift)"))
    cov["gossip_transport"] = dict(st, model_states=mc["distinct"], trace_accepted=tv["accepted"],
                                   first_unmatched_event=tv["rejected"], corrupted_copy_rejected=not tb["accepted"])
    if not tv["accepted"]:
        ctx.notes.append("drift (not a C16 verdict): the gossip transport's recorded run is not a behaviour of Gossip.tla: %s" % tv["rejected"])


def source(ctx, cov):
    """Where the snapshots come from: real ChitchatNodes (datacake-node/src/node.rs) over chitchat's in-process transport,
    scripts of joins / departures / rejoins under other addresses; the settled snapshot must name exactly the running nodes
    with the addresses they have now (Trace_MembershipSource.tla)."""
    binary = vlib.build_harness(ctx, "h-node")
    trace = ctx.path("source.ndjson")
    out = vlib.run_harness(ctx, [binary, "record-source", "--out", trace], timeout=3000)
    st = json.loads(out.strip().splitlines()[-1])
    if st["settled_points"] < 10:
        raise vlib.ToolError("vacuous membership-source run: %s" % st)
    tv = vlib.validate_trace(ctx, "Trace_MembershipSource", {}, trace, "trace_source", invariants=["Report", "ReportWaits"])
    if tv["rejected"] is not None:
        raise vlib.ToolError("trace validation stopped early: %s" % tv["rejected"])
    ctx.log("membership source: %d scripts of real ChitchatNodes, %d settled snapshots (longest wait %d ms): %d differ from what is running" % (
        st["scripts"], st["settled_points"], st["longest_wait_ms"], len(tv["fails"])))
    for e in tv["fails"][:3]:
        ctx.violations.append({"engine": "h-node record-source + Trace_MembershipSource", "event": e,
                               "why": ["with membership quiescent (up to three minutes were given), the membership layer's snapshot does not name exactly "
                                       "the running nodes with the addresses they have now"]})
    # wait_for_nodes / wait_for_members: WaitFor.tla model checked (and the variation "any one of the nodes" told apart), the real
    # calls judged by the trace specification; not part of C16's statement, so a difference is drift
    consts = dict(Ids={1, 2, 3}, Calls={'"c1"', '"c2"'}, MaxPub=3, AnyOf=False)
    mc, text = vlib.run_tlc(ctx, "WaitFor", vlib.cfg_text(constants=consts, invariants=["OkMeansAllThere", "TimeoutMeansMissing"]), "mc_waitfor", workers=4, timeout=900)
    if not vlib.require_clean_mc(ctx, mc, text, "WaitFor"):
        raise vlib.ToolError("WaitFor.tla violates %s: specification error" % mc["violated"])
    r2, _ = vlib.run_tlc(ctx, "WaitFor", vlib.cfg_text(constants=dict(consts, AnyOf=True), invariants=["OkMeansAllThere"]), "mc_waitfor_anyof", workers=4, timeout=900)
    if "OkMeansAllThere" not in r2["violated"]:
        raise vlib.ToolError("WaitFor.tla no longer tells the variation AnyOf apart")
    wait_drift = (tv["drift"] or {}).get("events", [])
    # the binding, demonstrated: in a copy of the trace one call that was answered Ok is said to have waited for a node that never came
    lines = open(trace).read().splitlines()
    idx = next((i for i, ln in enumerate(lines) if '"ev":"wait"' in ln.replace(" ", "") and '"result":"ok"' in ln.replace(" ", "")), None)
    if idx is not None:
        e = json.loads(lines[idx])
        e["want"] = sorted(set(e["want"]) | {77}) if e["kind"] == "all_present" else e["snap_at_return"][:1]
        lines[idx] = json.dumps(e)
        bad = ctx.path("source_corrupted.ndjson")
        open(bad, "w").write("\n".join(lines) + "\n")
        tb = vlib.validate_trace(ctx, "Trace_MembershipSource", {}, bad, "trace_source_corrupted", invariants=["Report", "ReportWaits"])
        if not (tb["drift"] or {}).get("events"):
            raise vlib.ToolError("binding demonstration failed: a wait call answered Ok for a node that is not in the snapshot was accepted")
    ctx.log("wait_for_members: WaitFor.tla %d states; %d real calls (%d answered Ok, the others timed out): %d not as specified" % (
        mc["distinct"], st.get("wait_calls", 0), st.get("wait_calls_answered_ok", 0), len(wait_drift)))
    if wait_drift:
        ctx.notes.append("drift (not a C16 verdict): wait_for_members calls not as WaitFor.tla has them: %s" % json.dumps(wait_drift[:3]))
    cov["membership_source"] = dict(st, snapshots_that_differ=len(tv["fails"]), waitfor_model_states=mc["distinct"], wait_calls_not_as_specified=len(wait_drift), corrupted_wait_call_rejected=idx is not None)
    cov["traces_validated_against_impl"] += st["settled_points"]


def consumers(ctx, cov):
    """Membership.tla with the consumers (M), then behaviours replayed on the real store watcher + task distributor +
    replication cycle with real peers (G)."""
    binary = vlib.build_harness(ctx, "h-ec")
    tot = dict(states=0, behaviours=0, judged=0, multi=0, drift=0)
    for i, c in enumerate(CONSUMERS[ctx.tier]):
        consts = dict(Ids=c["Ids"], Addrs=c["Addrs"], MaxPub=c["MaxPub"], MaxSteps=c["MaxSteps"], FixD4a=True)
        mc_cfg = vlib.cfg_text(constants=dict(consts, EmitHist=False, WithConsumers=True, **c["mc"]),
                               invariants=["C16_AddsUpModuloKnown", "C16_ConsumersAddUp", "C16_TrackerLive", "C16_ConsumersFollow"],
                               properties=["C16_LeftReported"])
        mc, text = vlib.run_tlc(ctx, "Membership", mc_cfg, "mc_cons_%d" % i, workers=8, extra=["-coverage", "1"], timeout=3000)
        if not vlib.require_clean_mc(ctx, mc, text, "Membership (consumers)"):
            raise vlib.ToolError("TLC reports %s on the consumer layer of Membership.tla" % mc["violated"])
        vlib.require_actions(mc, ["DistTick", "PollRound"], "Membership (consumers)")
        gen_cfg = vlib.cfg_text(constants=dict(consts, EmitHist=True, WithConsumers=False), constraints=["NoKnown", "EmitC"])
        gen, gtext = vlib.run_tlc(ctx, "Membership", gen_cfg, "gen_cons_%d" % i, workers=1, timeout=3000, stdout_to=ctx.path("gen_cons_%d.txt" % i))
        procs = []
        for k in range(c["slices"]):
            out = ctx.path("cons_%d_%d.json" % (i, k))
            cmd = [binary, "replay-consumers", "--input", ctx.path("gen_cons_%d.txt" % i), "--out", out, "--concurrency", "1500",
                   "--limit", str(c["limit"]), "--slice", "%d/%d" % (k, c["slices"]), "--max-id", str(max(c["Ids"]))]
            procs.append((cmd, out, subprocess.Popen(cmd, cwd=ctx.work, stdout=subprocess.PIPE, stderr=subprocess.PIPE, text=True)))
        for cmd, out, p in procs:
            try:
                so, se = p.communicate(timeout=3000)
            except subprocess.TimeoutExpired:
                p.kill()
                raise vlib.ToolError("consumer replay timed out")
            if p.returncode == 2:
                raise vlib.ToolError("consumer replay failed: " + (so + se)[-2000:])
            if p.returncode != 0:
                raise vlib.HarnessCrash(cmd, p.returncode, (so + se).splitlines()[-12:])
            rep = vlib.load_json(out)
            if rep["tool_errors"]:
                raise vlib.ToolError("consumer replay: %d behaviours could not be judged: %s" % (rep["tool_errors"], rep["tool_error_samples"]))
            for v in rep["violations"][:3]:
                ctx.violations.append(dict(engine="h-ec replay-consumers", **v))
            tot["behaviours"] += rep["evaluations"]
            tot["judged"] += rep["judged_points"]
            tot["multi"] += rep["behaviours_with_several_changes_in_one_drain"]
            tot["drift"] += rep["drift"]
            cov["samples"] += rep["samples"][:1]
        tot["states"] += mc["distinct"]
        ctx.log("consumers %s: MC %d states; %d behaviours on the real store watcher / distributor / replication cycle, %d judged points" % (
            {k: sorted(v) if isinstance(v, set) else v for k, v in c.items()}, mc["distinct"], tot["behaviours"], tot["judged"]))
    if tot["judged"] == 0 or tot["multi"] == 0:
        raise vlib.ToolError("vacuous: no judged point / no drain of several changes in the consumer replay")
    cov["states"] += tot["states"]
    cov["traces_validated_against_impl"] += tot["behaviours"]
    cov["consumers"] = {"behaviours_replayed": tot["behaviours"], "judged_points": tot["judged"],
                        "behaviours_with_several_changes_in_one_drain": tot["multi"], "keyspace_tracker_drift": tot["drift"]}


def run(ctx):
    binary = vlib.build_harness(ctx, "h-node")
    listed = {f["finding_id"]: f for f in vlib.findings_for("C16")}
    states = trans = hists = reads = pubs = 0
    samples = []
    known_counts = {"late": 0, "skipped": 0}
    known_samples = []
    for i, c in enumerate(TIERS[ctx.tier]):
        consts = dict(c, FixD4a=True, WithConsumers=False)
        mc_cfg = vlib.cfg_text(constants=dict(consts, EmitHist=False), invariants=["C16_AddsUpModuloKnown"],
                               properties=["C16_LeftReported"])
        mc, text = vlib.run_tlc(ctx, "Membership", mc_cfg, "mc_%d" % i, workers=8, extra=["-coverage", "1"], timeout=1800)
        mc_ok = vlib.require_clean_mc(ctx, mc, text, "Membership")
        gen_cfg = vlib.cfg_text(constants=dict(consts, EmitHist=True), constraints=["Emit"])
        out = ctx.path("replay_%d.json" % i)
        gen, gtext = vlib.tlc_pipe(ctx, "Membership", gen_cfg, "gen_%d" % i,
                                   [binary, "replay-membership", "--input", "-", "--out", out,
                                    "--passthrough", ctx.path("gen_%d.tlc" % i)], timeout=3000)
        if gen["consumer_exit"] != 0 or gen["distinct"] is None or gen["errors"]:
            raise vlib.ToolError("generation/replay failed:\n" + gtext[-2000:])
        rep = vlib.load_json(out)
        if rep["evaluations"] == 0 or rep["reads"] == 0 or rep["publishes"] == 0:
            raise vlib.ToolError("vacuous: nothing replayed")
        ctx.log("config %s: MC %d states (%s); %d behaviours replayed on the real watcher: %d violations, known: late %d, skipped %d" % (
            {k: sorted(v) if isinstance(v, set) else v for k, v in c.items()}, mc["distinct"],
            "ok" if mc_ok else mc["violated"], rep["evaluations"], rep["violation_count"], rep["known_late"], rep["known_skipped"]))
        if not mc_ok and not rep["violation_count"]:
            raise vlib.ToolError("TLC reports %s on the faithful layer but the real code shows no violation" % mc["violated"])
        for v in rep["violations"][:3]:
            ctx.violations.append(dict(engine="h-node replay-membership", **v))
        known_counts["late"] += rep["known_late"]
        known_counts["skipped"] += rep["known_skipped"]
        known_samples += rep["known_samples"]
        states += mc["distinct"]
        trans += mc["generated"]
        hists += rep["evaluations"]
        reads += rep["reads"]
        pubs += rep["publishes"]
        samples += rep["samples"][:2]
    for sig, fid in KNOWN.items():
        if known_counts[sig] == 0:
            continue
        if fid in listed:
            ctx.known_hits.append((fid, "%d behaviours: %s (e.g. %s)" % (known_counts[sig], listed[fid]["signature"], listed[fid]["witness"])))
        else:
            bad = [k for k in known_samples if k.get(sig)]
            for v in bad[:2]:
                ctx.violations.append(dict(engine="h-node replay-membership", **v))
    cov = {"states": states, "transitions": trans, "traces_validated_against_impl": hists, "samples": samples[:5],
           "exhaustive": True, "behaviours": hists, "publishes": pubs, "reads": reads,
           "known_finding_behaviours": known_counts}
    # the further components build on what the watcher publishes: if one of them cannot do its work (a tool error) after
    # a violation has already been found, the violation is what gets reported
    for part in (consumers, source, gossip):
        try:
            part(ctx, cov)
        except vlib.ToolError as e:
            if not ctx.violations:
                raise
            ctx.notes.append("%s could not be judged after the violations above: %s" % (part.__name__, str(e)[:300]))
    return vlib.finish(ctx, "model_checking", cov, ASSUMPTIONS)


def replay(ctx, path):
    v = vlib.load_json(path)
    binary = vlib.build_harness(ctx, "h-node")
    inp = ctx.path("one.txt")
    open(inp, "w").write('<<"HIST", %s>>\n' % json.dumps(json.dumps({"hist": v["history"]})))
    out = ctx.path("replay_one.json")
    vlib.run_harness(ctx, [binary, "replay-membership", "--input", inp, "--out", out])
    rep = vlib.load_json(out)
    for x in rep["violations"]:
        ctx.violations.append(x)
    return vlib.finish(ctx, "model_checking", {"states": 1, "transitions": 1, "traces_validated_against_impl": 1,
                                               "samples": [v["history"]]}, ["replay of one recorded violation"])
