"""C16 — membership change events add up to the live membership."""
import json

import vlib

ASSUMPTIONS = [
    "snapshots over a small id universe with two addresses per id (join, leave, address change, rejoin), every subscription point, "
    "every placement of the subscriber's reads; behaviours up to the stated number of publishes / steps",
    "the subscriber applies a delta the way the task distributor and the replication poller do: remove `left`, then insert `joined`, keyed by node id",
    "the real watch_membership_changes task runs over a caller-supplied snapshot channel (cfg(datacake_verif) hook); the subscriber is a real WatchStream "
    "over a clone of the real receiver, as DatacakeNode::membership_changes() builds it",
    "behaviours matching a listed known finding (late subscriber / skipped delta) are reported as KNOWN-FINDING, never as violations; every other "
    "mismatch, and every wrong `left`/`joined` content, is a violation",
]
TIERS = {
    "quick": [dict(Ids={1, 2}, Addrs={1, 2}, MaxPub=3, MaxSteps=7), dict(Ids={1, 2}, Addrs={1}, MaxPub=5, MaxSteps=10)],
    "thorough": [dict(Ids={1, 2}, Addrs={1, 2}, MaxPub=3, MaxSteps=7),
                 dict(Ids={1, 2, 3}, Addrs={1, 2}, MaxPub=3, MaxSteps=6),
                 dict(Ids={1, 2}, Addrs={1}, MaxPub=5, MaxSteps=10)],
}
KNOWN = {"late": "C16-late-subscriber", "skipped": "C16-skipped-delta"}


def run(ctx):
    binary = vlib.build_harness(ctx, "h-node")
    listed = {f["finding_id"]: f for f in vlib.findings_for("C16")}
    states = trans = hists = reads = pubs = 0
    samples = []
    known_counts = {"late": 0, "skipped": 0}
    known_samples = []
    for i, c in enumerate(TIERS[ctx.tier]):
        consts = dict(c, FixD4a=True)
        mc_cfg = vlib.cfg_text(constants=dict(consts, EmitHist=False), invariants=["C16_AddsUpModuloKnown"],
                               properties=["C16_LeftReported"])
        mc, text = vlib.run_tlc(ctx, "Membership", mc_cfg, "mc_%d" % i, workers=8, extra=["-coverage", "1"], timeout=1800)
        mc_ok = vlib.require_clean_mc(ctx, mc, text, "Membership")
        gen_cfg = vlib.cfg_text(constants=dict(consts, EmitHist=True), constraints=["Emit"])
        out = ctx.path("replay_%d.json" % i)
        gen, gtext = vlib.tlc_pipe(ctx, "Membership", gen_cfg, "gen_%d" % i,
                                   [binary, "replay-membership", "--input", "-", "--out", out,
                                    "--passthrough", ctx.path("gen_%d.tlc" % i)], timeout=3000)
        if gen["consumer_exit"] != 0 or gen["distinct"] is None or gen["errors"]:
            raise vlib.ToolError("generation/replay failed:\n" + gtext[-2000:])
        rep = vlib.load_json(out)
        if rep["evaluations"] == 0 or rep["reads"] == 0 or rep["publishes"] == 0:
            raise vlib.ToolError("vacuous: nothing replayed")
        ctx.log("config %s: MC %d states (%s); %d behaviours replayed on the real watcher: %d violations, known: late %d, skipped %d" % (
            {k: sorted(v) if isinstance(v, set) else v for k, v in c.items()}, mc["distinct"],
            "ok" if mc_ok else mc["violated"], rep["evaluations"], rep["violation_count"], rep["known_late"], rep["known_skipped"]))
        if not mc_ok and not rep["violation_count"]:
            raise vlib.ToolError("TLC reports %s on the faithful layer but the real code shows no violation" % mc["violated"])
        for v in rep["violations"][:3]:
            ctx.violations.append(dict(engine="h-node replay-membership", **v))
        known_counts["late"] += rep["known_late"]
        known_counts["skipped"] += rep["known_skipped"]
        known_samples += rep["known_samples"]
        states += mc["distinct"]
        trans += mc["generated"]
        hists += rep["evaluations"]
        reads += rep["reads"]
        pubs += rep["publishes"]
        samples += rep["samples"][:2]
    for sig, fid in KNOWN.items():
        if known_counts[sig] == 0:
            continue
        if fid in listed:
            ctx.known_hits.append((fid, "%d behaviours: %s (e.g. %s)" % (known_counts[sig], listed[fid]["signature"], listed[fid]["witness"])))
        else:
            bad = [k for k in known_samples if k.get(sig)]
            for v in bad[:2]:
                ctx.violations.append(dict(engine="h-node replay-membership", **v))
    cov = {"states": states, "transitions": trans, "traces_validated_against_impl": hists, "samples": samples[:5],
           "exhaustive": True, "behaviours": hists, "publishes": pubs, "reads": reads,
           "known_finding_behaviours": known_counts}
    return vlib.finish(ctx, "model_checking", cov, ASSUMPTIONS)


def replay(ctx, path):
    v = vlib.load_json(path)
    binary = vlib.build_harness(ctx, "h-node")
    inp = ctx.path("one.txt")
    open(inp, "w").write('<<"HIST", %s>>\n' % json.dumps(json.dumps({"hist": v["history"]})))
    out = ctx.path("replay_one.json")
    vlib.run_harness(ctx, [binary, "replay-membership", "--input", inp, "--out", out])
    rep = vlib.load_json(out)
    for x in rep["violations"]:
        ctx.violations.append(x)
    return vlib.finish(ctx, "model_checking", {"states": 1, "transitions": 1, "traces_validated_against_impl": 1,
                                               "samples": [v["history"]]}, ["replay of one recorded violation"])
