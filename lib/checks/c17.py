"""C17 — every bundled storage backend behaves like the reference key-value model."""
import json
import os

import vlib

ASSUMPTIONS = [
    "reference model Storage.tla: 2 keyspaces x 2 ids x 2 timestamps x 2 payload classes, every call of the trait "
    "(put, multi_put incl. empty, mark_as_tombstone, mark_many_as_tombstone, remove_tombstones on tombstoned/absent ids, reopen) from every reachable state",
    "each edge is replayed in a fresh pair of keyspaces of a shared database (source state rebuilt with put / mark_as_tombstone), so other "
    "keyspaces are present while it runs; abstract ids/timestamps/payloads are mapped to rotating boundary values (ids 0, 2^63-1, 2^63, 2^64-1, ...; "
    "stamps up to 2^32-1 s; empty, small and 64 KiB payloads)",
    "calls stay inside the Storage contract (remove_tombstones only on tombstoned or absent ids; no duplicate ids in one bulk call)",
    "keyspace list: must contain every keyspace holding an entry and nothing outside the names used; backends may differ in between",
    "quick tier: MemStore on every edge, the SQLite/LMDB backends on every 8th edge (offset by VERIF_SEED); thorough: every edge on all four",
    "random part: seeded sequences of 300-600 calls per backend over 3 keyspaces with arbitrary u64 ids (85 % from a pool of 10 incl. 0, 2^63-1, 2^63, 2^64-1), "
    "random stamps and payloads up to 40 KB, one bulk write of 400 x 32 KiB per second run (more than the LMDB backend's 10 MiB map takes: a refused bulk write must leave "
    "exactly the documents it reports as written, also after the reopen that follows), SQLite file / LMDB reopened three times per run; validated by Trace_Storage.tla (ids, stamps, digests as strings)",
    "scratch databases live under /dev/shm (removed at the end)",
]
CONSTS = dict(Keyspaces={1, 2}, Ids={1, 2}, Stamps={1, 2}, Payloads={0, 1})


def run(ctx):
    binary = vlib.build_harness(ctx, "h-ec")
    mc_cfg = vlib.cfg_text(constants=dict(CONSTS, EmitEdges=False), invariants=["TypeOK"], view="MCView")
    mc, text = vlib.run_tlc(ctx, "Storage", mc_cfg, "mc", workers=4, extra=["-coverage", "1"], timeout=900)
    if not vlib.require_clean_mc(ctx, mc, text, "Storage"):
        raise vlib.ToolError("the reference model violates its own type invariant")
    gen_cfg = vlib.cfg_text(constants=dict(CONSTS, EmitEdges=True), view="MCView", action_constraints=["PrintEdge"])
    edges_file = ctx.path("edges.out")
    gen, gtext = vlib.run_tlc(ctx, "Storage", gen_cfg, "gen", workers=1, timeout=1500, stdout_to=edges_file)
    if gen["distinct"] is None or gen["errors"]:
        raise vlib.ToolError("edge generation failed:\n" + gtext[-2000:])
    stride = 8 if ctx.tier == "quick" else 1
    out = ctx.path("replay.json")
    scratch = "/dev/shm/verif-storage-%d" % os.getpid()
    vlib.run_harness(ctx, [binary, "replay-storage", "--input", edges_file, "--out", out, "--dir", scratch,
                           "--persistent-stride", str(stride), "--offset", str(ctx.seed)], timeout=3000)
    rep = vlib.load_json(out)
    os.remove(edges_file)
    if rep["edges"] + 1 != gen["generated"]:
        raise vlib.ToolError("read %d edges, TLC generated %d states" % (rep["edges"], gen["generated"]))
    for b in rep["backends"]:
        if b["evaluations"] == 0:
            raise vlib.ToolError("vacuous: backend %s replayed nothing" % b["backend"])
        ctx.log("%-14s %7d edges replayed, %d reopens, %d violations" % (b["backend"], b["evaluations"], b["reopens"], b["violation_count"]))
    # (V) random call sequences with arbitrary u64 ids / stamps / payloads, validated by Trace_Storage.tla
    trace = ctx.path("random.ndjson")
    runs, length = (6, 300) if ctx.tier == "quick" else (60, 600)
    rout = vlib.run_harness(ctx, [binary, "record-storage", "--seed", str(ctx.seed), "--runs", str(runs), "--len", str(length),
                                  "--out", trace, "--dir", scratch + "-random"], timeout=3000)
    rst = json.loads(rout.strip().splitlines()[-1])
    tv = vlib.validate_trace(ctx, "Trace_Storage", {}, trace, "trace_random", timeout=3000)
    refused = sum(1 for line in open(trace) if '"put_failed"' in line)
    if refused == 0:
        raise vlib.ToolError("vacuous: no backend refused the oversized bulk write")
    ctx.log("random sequences: %d runs, %d events: trace %s" % (rst["runs"], rst["events"], "accepted" if tv["accepted"] else "REJECTED"))
    if not tv["accepted"]:
        ctx.violations.append({"engine": "h-ec record-storage + Trace_Storage", "why": ["a recorded storage call disagrees with the reference model"],
                               "rejected": tv["rejected"], "record_cmd": "h-ec record-storage --seed %d --runs %d --len %d" % (ctx.seed, runs, length)})
    seen = set()
    for v in rep["violations"]:
        key = (v["backend"], v["op"]["kind"], v["why"][0][:50])
        if key in seen or len(ctx.violations) >= 5:
            continue
        seen.add(key)
        ctx.violations.append(dict(engine="h-ec replay-storage", **v))
    cov = {"refused_bulk_writes": refused, "random_runs": rst["runs"], "random_events": rst["events"], "random_trace_accepted": tv["accepted"],
           "states": mc["distinct"], "transitions": mc["generated"], "traces_validated_against_impl": rep["evaluations"] + rst["runs"],
           "samples": rep["samples"][:5], "exhaustive": stride == 1, "edges": rep["edges"], "backends": rep["backends"],
           "persistent_backend_stride": stride, "checker_cmd": mc["cmd"]}
    return vlib.finish(ctx, "model_checking", cov, ASSUMPTIONS)


def replay(ctx, path):
    v = vlib.load_json(path)
    binary = vlib.build_harness(ctx, "h-ec")
    inp = ctx.path("one.txt")
    lines = '<<"FROM", %s>>\n<<"EDGE", %s>>\n' % (
        json.dumps(json.dumps({"from": v["from"]})),
        json.dumps(json.dumps({"op": v["op"], "to": v["to"], "must": [k + 1 for k, ks in enumerate(v["to"]["store"])
                                                                      if any("absent" not in e for e in ks)], "may": [1, 2]})))
    # the failing value mapping depends on the edge index: pad so that the edge lands on the same index
    pad = '<<"EDGE", %s>>\n' % json.dumps(json.dumps({"op": {"kind": "multi_put", "ks": 1, "docs": []}, "to": v["from"],
                                                     "must": [], "may": [1, 2]}))
    open(inp, "w").write('<<"FROM", %s>>\n' % json.dumps(json.dumps({"from": v["from"]})) + pad * int(v.get("edge_index", 0)) + lines)
    out = ctx.path("replay_one.json")
    vlib.run_harness(ctx, [binary, "replay-storage", "--input", inp, "--out", out, "--backends", v["backend"],
                           "--dir", "/dev/shm/verif-storage-replay-%d" % os.getpid()])
    rep = vlib.load_json(out)
    for x in rep["violations"]:
        if x.get("edge_index") == v.get("edge_index"):
            ctx.violations.append(x)
    return vlib.finish(ctx, "model_checking", {"states": 1, "transitions": 1, "traces_validated_against_impl": 1,
                                               "samples": [v["op"]]}, ["replay of one recorded violation"])
