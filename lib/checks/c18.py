"""C18 — a keyspace has one state, even when first used by many tasks at once."""
import json

import vlib

ASSUMPTIONS = [
    "KeyspaceGroup.tla: 2-4 tasks, every interleaving of the steps of get_or_create_keyspace (read-locked lookup, spawn after awaits, write-locked install) "
    "and of one mutation per task",
    "real runs: rounds of 2..8 tasks first-using a fresh keyspace on a current-thread runtime (every await is a deterministic switch point, staggered by "
    "0..3 yields) and on an 8-worker multi-thread runtime; observed: acknowledged mutations, the set behind a later lookup, group-map installations (hook)",
    "the multi-thread rounds sample schedules; they are not exhaustive",
]


def run(ctx):
    binary = vlib.build_harness(ctx, "h-ec")
    tasks = {1, 2, 3} if ctx.tier == "quick" else {1, 2, 3, 4}
    cfg = vlib.cfg_text(constants=dict(Tasks=tasks, CheckUnderLock=True), invariants=["C18_OneState", "C18_SingleInstall"])
    mc, text = vlib.run_tlc(ctx, "KeyspaceGroup", cfg, "mc", workers=4, extra=["-coverage", "1"], timeout=900)
    mc_ok = vlib.require_clean_mc(ctx, mc, text, "KeyspaceGroup")
    ctx.log("KeyspaceGroup: %d states (%s)" % (mc["distinct"], "ok" if mc_ok else mc["violated"]))
    rounds = 400 if ctx.tier == "quick" else 4000
    trace = ctx.path("trace.ndjson")
    out = vlib.run_harness(ctx, [binary, "record-group", "--rounds", str(rounds), "--out", trace], timeout=1800)
    n = json.loads(out.strip().splitlines()[-1])["rounds"]
    tv = vlib.validate_trace(ctx, "Trace_KeyspaceGroup", {}, trace, "trace", invariants=["Report"])
    if tv["rejected"] is not None:
        raise vlib.ToolError("trace validation stopped early: %s" % tv["rejected"])
    ctx.log("%d rounds on the real group: %d rejected" % (n, len(tv["fails"])))
    if not mc_ok and not tv["fails"]:
        raise vlib.ToolError("TLC reports %s on the faithful layer but no real round shows it" % mc["violated"])
    for e in tv["fails"][:4]:
        ctx.violations.append({"engine": "h-ec record-group + Trace_KeyspaceGroup", "event": e,
                               "why": ["acknowledged mutations %s, but the set behind a later lookup holds %s (%d installations)" % (
                                   e["acked"], e["final"], e["installs"])]})
    samples = []
    with open(trace) as f:
        for i, line in enumerate(f):
            if i % 150 == 0:
                samples.append(json.loads(line))
    cov = {"states": mc["distinct"], "transitions": mc["generated"], "traces_validated_against_impl": n, "samples": samples[:5],
           "rounds": n, "rounds_rejected": len(tv["fails"]), "checker_cmd": mc["cmd"]}
    return vlib.finish(ctx, "model_checking", cov, ASSUMPTIONS)


def replay(ctx, path):
    raise vlib.ToolError("re-run `bin/check C18` (the current-thread rounds are deterministic)")
