"""C19 — a peer receives the sender's keyspace state unchanged."""
import json
import subprocess

import vlib
from checks import orswot_ops

ASSUMPTIONS = [
    "population of states: every distinct set state of the MC_OrswotOps bounded universes (empty, tombstone-only, both sources populated, purged), "
    "rebuilt on real sets, plus seeded inflated states (up to 20 000 keys, 200 origin nodes)",
    "each state is served by the real ReplicationService handler and fetched with the real ReplicationClient::get_state over loopback; equality is judged "
    "on lookups, listed tombstones, and the accept/refuse decision of will_apply and both mutators (both sources) for every probe operation, "
    "plus the internal projection (hook)",
    "states with purgeable tombstones are fetched a second time from the same keyspace after the sender purged them (no write in between): "
    "the second reply must be the sender's state at that moment",
    "undecodable states: a server answering under the real service's name with a valid frame whose nested set bytes are empty / truncated / random / "
    "zeroed / have an overwritten root; each case runs in a process of its own so that a crash of the client is an observation",
    "bit-flipped but structurally valid archives are indistinguishable from a different valid state and are not required to be refused",
    "fidelity of the rkyv encoding itself is sampled, not proved (DESIGN.md section 11)",
]
MUST_FAIL = {"empty", "truncated", "random", "root-overwritten", "zeros"}


def run(ctx):
    binary = vlib.build_harness(ctx, "h-ec")
    names = ["A", "P"] if ctx.tier == "quick" else ["A", "B", "P", "D"]
    states = trans = transfers = 0
    samples = []
    stats = []
    for name in names:
        c = orswot_ops.CONFIGS[name]
        if len(c["Sources"]) != 2:
            continue
        consts = dict(c, FixD6=True, EmitEdges=True)
        consts.setdefault("AllowDup", False)
        cfg = vlib.cfg_text(constants=consts, view="MCView", action_constraints=["PrintEdge"])
        out = ctx.path("transfer_%s.json" % name)
        gen, text = vlib.tlc_pipe(ctx, "MC_OrswotOps", cfg, "gen_" + name,
                                  [binary, "replay-transfer", "--input", "-", "--out", out, "--passthrough", ctx.path("gen_%s.tlc" % name),
                                   "--f", str(c["F"]), "--keys", ",".join(map(str, sorted(c["Keys"]))),
                                   "--nodes", ",".join(map(str, sorted(c["Nodes"]))), "--times", ",".join(map(str, sorted(c["Times"]))),
                                   "--seed", str(ctx.seed), "--inflated", "12" if ctx.tier == "quick" else "60"], timeout=3000)
        if gen["consumer_exit"] != 0 or gen["distinct"] is None or gen["errors"]:
            raise vlib.ToolError("generation / transfer replay failed on %s:\n%s" % (name, text[-2000:]))
        rep = vlib.load_json(out)
        if rep["model_states"] < 100 or rep["tombstone_only_states"] == 0 or rep["both_sources_populated"] == 0:
            raise vlib.ToolError("vacuous state population: %s" % {k: rep[k] for k in ("model_states", "tombstone_only_states", "both_sources_populated")})
        ctx.log("config %s: %d distinct states + %d inflated (%d entries) transferred through the real RPC path: %d violations" % (
            name, rep["model_states"], rep["inflated_states"], rep["inflated_entries"], rep["violation_count"]))
        for v in rep["violations"][:3]:
            ctx.violations.append(dict(engine="h-ec replay-transfer", config=name, **v))
        states += gen["distinct"]
        trans += gen["generated"]
        transfers += rep["evaluations"]
        samples += rep["samples"][:3]
        stats.append({k: rep[k] for k in ("model_states", "inflated_states", "inflated_entries", "empty_states",
                                          "tombstone_only_states", "both_sources_populated", "refetches_after_purge")})
    if sum(x["refetches_after_purge"] for x in stats) == 0:
        raise vlib.ToolError("vacuous: no state with purgeable tombstones was re-fetched after a purge")
    # undecodable states, one process each
    n_cases = 12 if ctx.tier == "quick" else 72
    outcomes = []
    for case in range(n_cases):
        p = subprocess.run([binary, "transfer-garbage", "--case", str(case), "--seed", str(ctx.seed)], stdout=subprocess.PIPE,
                           stderr=subprocess.PIPE, text=True, timeout=120, cwd=ctx.work)
        lines = [json.loads(l) for l in p.stdout.splitlines() if l.startswith("{")]
        final = [l for l in lines if "outcome" in l]
        kind = lines[0]["kind"] if lines else "?"
        if not final:
            outcome = "client crashed (exit %s): %s" % (p.returncode, p.stderr.strip().splitlines()[0][:200] if p.stderr.strip() else "")
        else:
            outcome = final[0]["outcome"]
        outcomes.append({"case": case, "kind": kind, "outcome": outcome})
        if kind in MUST_FAIL and not outcome.startswith("error:"):
            ctx.violations.append({"engine": "h-ec transfer-garbage", "case": case, "kind": kind,
                                   "why": ["an undecodable keyspace state was not reported as an error: " + outcome],
                                   "replay_cmd": "%s transfer-garbage --case %d --seed %d" % (binary, case, ctx.seed)})
    ctx.log("undecodable states: %d cases, outcomes %s" % (n_cases, sorted(set(o["outcome"].split("(")[0] for o in outcomes))))
    cov = {"states": states, "transitions": trans, "traces_validated_against_impl": transfers + n_cases,
           "samples": samples[:4] + outcomes[:4], "state_population": stats, "undecodable_cases": n_cases}
    return vlib.finish(ctx, "model_checking", cov, ASSUMPTIONS)


def replay(ctx, path):
    v = vlib.load_json(path)
    raise vlib.ToolError("re-run: " + v.get("replay_cmd", "bin/check C19"))
