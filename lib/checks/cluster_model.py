"""Cluster.tla: several nodes, direct + batch replication over a lossy / duplicating / reordering
network, pairwise anti-entropy with independent halves, restart, purge and global time.
Shared by C01 (convergence to last-writer-wins) and C08 (global clause: purging is invisible)."""
import concurrent.futures
import os
import shutil

import actor_trace
import vlib
from checks import actor_traces

BASE = dict(Keys={1, 2}, Sources={0, 1}, FixD6=True, MinOpsToEmit=1)


def cfgc(**kw):
    c = dict(BASE, Nodes={1, 2}, CNodes={1, 2}, F=3, Times={0, 1, 2}, MaxOps=2, MaxDup=0, MaxExch=4, WithBatch=False, WithBulk=False,
             WithRestart=False, WithPurge=False, WithTracker=False, NoDirect=False, MaxSkew=2, SplitGetState=False, StampLast=False)
    c.update(kw)
    return c


# exhaustive configs (M)
EXHAUSTIVE = {
    "C01": {
        "quick": [("E1", cfgc()),                                                   # 2 ops, 4 exchanges
                  ("E3", cfgc(MaxOps=3, MaxExch=2)),                                 # 3 ops (the shape of the D6 counterexample)
                  # the peer's GetState handler as its two steps (stamp, then state) with operations in between, and the tracker
                  ("E9", cfgc(WithTracker=True, SplitGetState=True, NoDirect=True, MaxExch=3))],
        "thorough": [("E1", cfgc()), ("E3", cfgc(MaxOps=3, MaxExch=2)),
                     ("E2", cfgc(WithBatch=True, MaxExch=2)),                         # batches, removals-first halves
                     ("E4", cfgc(WithBulk=True, WithRestart=True, MaxExch=2)),       # bulk operations, restarts
                     ("E5", cfgc(Nodes={1, 2, 3}, CNodes={1, 2, 3}, F=2, Times={0, 1}, MaxSkew=1, MaxExch=2)),  # three nodes, two of them issue
                     ("E6", cfgc(MaxDup=1, MaxExch=3)),                               # duplicated deliveries
                     ("E7", cfgc(WithTracker=True, MaxExch=6)),                       # the poller's keyspace tracker skips unchanged peers
                     ("E8", cfgc(WithTracker=True, WithRestart=True, MaxExch=2)),
                     ("E9", cfgc(WithTracker=True, SplitGetState=True, NoDirect=True, MaxExch=3)),
                     ("E10", cfgc(WithTracker=True, SplitGetState=True, MaxOps=2, MaxExch=3))],
    },
    "C05": {   # nothing is replicated directly: every difference is repaired by exchanges
        "quick": [("X1", cfgc(NoDirect=True, WithBulk=True, MaxOps=2, MaxExch=4))],
        "thorough": [("X1", cfgc(NoDirect=True, WithBulk=True, MaxOps=2, MaxExch=4)),
                     ("X2", cfgc(NoDirect=True, WithBulk=True, MaxOps=3, MaxExch=3))],
    },
    "C08": {
        "quick": [("P1", cfgc(F=2, Times={0, 1, 2, 3}, MaxSkew=1, MaxExch=2, WithPurge=True))],
        "thorough": [("P1", cfgc(F=2, Times={0, 1, 2, 3}, MaxSkew=1, MaxExch=2, WithPurge=True)),
                     ("P2", cfgc(F=2, Times={0, 1, 2, 3, 4}, MaxSkew=1, MaxExch=2, WithPurge=True))],
    },
}
# simulated configs (M by simulation + G: behaviours replayed on the real components)
SIMULATED = {
    "C01": {
        "quick": [("T1", cfgc(WithTracker=True, NoDirect=True, MaxOps=2, MaxExch=5, MinOpsToEmit=2), None, None, 6000),
                  ("S1", cfgc(MaxOps=3, MaxDup=1, MaxExch=6, WithBatch=True, WithBulk=True, MinOpsToEmit=2), 2500, 80, 3000),
                  ("T2", cfgc(WithTracker=True, SplitGetState=True, NoDirect=True, MaxOps=3, MaxExch=6, MinOpsToEmit=2), 2500, 70, 1500),
                  ("S3b", cfgc(Nodes={1, 2, 3}, CNodes={1, 2, 3}, MaxOps=2, MaxExch=12, WithBulk=True, MinOpsToEmit=2), 1500, 120, 1500)],
        "thorough": [("T1", cfgc(WithTracker=True, NoDirect=True, MaxOps=2, MaxExch=5, MinOpsToEmit=2), None, None, 6000),
                     ("S3b", cfgc(Nodes={1, 2, 3}, CNodes={1, 2, 3}, MaxOps=3, MaxExch=14, WithBulk=True, WithBatch=True, MinOpsToEmit=2), 20000, 160, 8000),
                     ("S1", cfgc(MaxOps=3, MaxDup=1, MaxExch=6, WithBatch=True, WithBulk=True, MinOpsToEmit=2), 30000, 80, 25000),
                     ("T2", cfgc(WithTracker=True, SplitGetState=True, NoDirect=True, MaxOps=3, MaxExch=6, MinOpsToEmit=2), 20000, 70, 8000),
                     ("S2", cfgc(MaxOps=4, MaxDup=1, MaxExch=8, WithBatch=True, WithBulk=True, WithRestart=True, MinOpsToEmit=3), 20000, 120, 6000),
                     ("S3", cfgc(Nodes={1, 2, 3}, CNodes={1, 2, 3}, MaxOps=3, MaxExch=12, WithBatch=True, MinOpsToEmit=2), 20000, 140, 6000)],
    },
    "C05": {
        "quick": [("SX", cfgc(NoDirect=True, WithBulk=True, MaxOps=4, MaxExch=8, MinOpsToEmit=3), 2500, 100, 2500)],
        "thorough": [("SX", cfgc(NoDirect=True, WithBulk=True, MaxOps=4, MaxExch=8, MinOpsToEmit=3), 25000, 100, 20000),
                     ("SX3", cfgc(Nodes={1, 2, 3}, CNodes={1, 2, 3}, NoDirect=True, WithBulk=True, MaxOps=3, MaxExch=14, MinOpsToEmit=2), 15000, 160, 6000)],
    },
    "C08": {
        "quick": [("SP", cfgc(F=2, Times={0, 1, 2, 3, 4}, MaxSkew=1, MaxOps=4, MaxExch=6, WithBatch=True, WithPurge=True, MinOpsToEmit=3), 1500, 100, 3000)],
        "thorough": [("SP", cfgc(F=2, Times={0, 1, 2, 3, 4}, MaxSkew=1, MaxOps=4, MaxExch=6, WithBatch=True, WithPurge=True, MinOpsToEmit=3), 20000, 100, 25000),
                     ("SP3", cfgc(Nodes={1, 2, 3}, CNodes={1, 2, 3}, F=2, Times={0, 1, 2, 3, 4}, MaxSkew=1, MaxOps=4, MaxExch=12,
                                  WithPurge=True, MinOpsToEmit=3), 15000, 160, 6000)],
    },
}
COARSE = {"quick": 1200, "thorough": 6000}
TRACKED = {"quick": 1200, "thorough": 6000}
ACTOR_PROPS = {"C01": ["C04", "C05"], "C05": ["C05"], "C08": ["C08"]}
INVARIANTS = ["C01_Converges", "C02_Agree", "C05_NothingLeft", "C01_TrackerFixpoint"]


def _exhaustive(ctx, name, c, workers):
    cfg = vlib.cfg_text(constants=dict(c, EmitTrace=False), invariants=INVARIANTS, view="MCView")
    mc, text = vlib.run_tlc(ctx, "Cluster", cfg, "mc_" + name, workers=workers, timeout=5400, xmx="12g")
    ok = vlib.require_clean_mc(ctx, mc, text, "Cluster/" + name)
    # the antecedent of the convergence invariant must be reachable
    cfg2 = vlib.cfg_text(constants=dict(c, EmitTrace=False), invariants=["NeverConverged"], view="MCView")
    r2, _ = vlib.run_tlc(ctx, "Cluster", cfg2, "reach_" + name, workers=workers, timeout=5400, xmx="12g")
    if "NeverConverged" not in r2["violated"]:
        raise vlib.ToolError("vacuous: config %s never reaches a converged state with operations" % name)
    if c.get("SplitGetState"):
        # the specification has to tell the two orders of the handler's steps apart: with the stamp read last the poller's
        # fixpoint is no longer sound
        cfg3 = vlib.cfg_text(constants=dict(c, EmitTrace=False, StampLast=True), invariants=["C01_TrackerFixpoint"], view="MCView")
        r3, _ = vlib.run_tlc(ctx, "Cluster", cfg3, "stamplast_" + name, workers=workers, timeout=5400, xmx="12g")
        if "C01_TrackerFixpoint" not in r3["violated"]:
            raise vlib.ToolError("config %s: reading the change stamp after the state no longer violates C01_TrackerFixpoint in the model" % name)
    return dict(name=name, kind="exhaustive", mc=mc, ok=ok, constants=_consts(c))


def _consts(c):
    return {k: sorted(v) if isinstance(v, set) else v for k, v in c.items()}


def _simulated(ctx, binary, name, c, num, depth, max_replay):
    out_file = ctx.path("sim_%s.out" % name)
    if num is None:
        # breadth-first with the history hidden from the fingerprint: one behaviour (a shortest one) for every distinct
        # converged state of the configuration - a systematic population instead of a random one
        cfg = vlib.cfg_text(constants=dict(c, EmitTrace=True), invariants=INVARIANTS, constraints=["Emit"], view="MCView")
        sim, text = vlib.run_tlc(ctx, "Cluster", cfg, "enum_" + name, workers=6, timeout=3000, stdout_to=out_file, xmx="8g")
    else:
        cfg = vlib.cfg_text(constants=dict(c, EmitTrace=True), invariants=INVARIANTS, constraints=["Emit"])
        sim, text = vlib.run_tlc(ctx, "Cluster", cfg, "sim_" + name, workers=4, timeout=3000,
                                 extra=["-simulate", "num=%d" % num, "-depth", str(depth), "-seed", str(ctx.seed)], stdout_to=out_file)
    bad = [l for l in text.splitlines() if l.startswith("Error:")]
    violated = sim["violated"]
    if bad and not violated:
        raise vlib.ToolError("simulation of %s failed:\n%s" % (name, "\n".join(bad[:5])))
    out = ctx.path("replay_%s.json" % name)
    actors_dir = ctx.path("actors_%s" % name)
    shutil.rmtree(actors_dir, ignore_errors=True)
    os.makedirs(actors_dir)
    vlib.run_harness(ctx, [binary, "replay-cluster", "--input", out_file, "--out", out, "--f", str(c["F"]),
                           "--nodes", ",".join(map(str, sorted(c["CNodes"]))), "--max", str(max_replay)], timeout=3000,
                     env={"DATACAKE_VERIF_TRACE_DIR": actors_dir})
    rep = vlib.load_json(out)
    # (G, coarse) the same behaviours with every repair exchange executed by the real poller code in one piece
    # (get_keyspace_diff + begin_keyspace_sync / a repair_members round); each costs the poller's 250 ms progress tick,
    # so slices run in parallel processes
    procs = 6

    def whole(mode, total):
        per = max(1, total // procs)

        def one(i):
            o = ctx.path("%s_%s_%d.json" % (mode, name, i))
            vlib.run_harness(ctx, [binary, "replay-cluster", "--input", out_file, "--out", o, "--f", str(c["F"]), "--mode", mode,
                                   "--nodes", ",".join(map(str, sorted(c["CNodes"]))), "--max", str(per * procs),
                                   "--slice", "%d/%d" % (i, procs)], timeout=3000, env={"DATACAKE_VERIF_TRACE_DIR": actors_dir})
            return vlib.load_json(o)
        with concurrent.futures.ThreadPoolExecutor(max_workers=procs) as pool:
            parts = list(pool.map(one, range(procs)))
        rep["violations"] = rep["violations"] + [dict(v, mode=mode) for x in parts for v in x["violations"]]
        rep["violation_count"] += sum(x["violation_count"] for x in parts)
        return {"behaviours": sum(x["behaviours"] for x in parts), "steps": sum(x["steps"] for x in parts),
                "violation_count": sum(x["violation_count"] for x in parts),
                "poller_rounds": sum(x.get("poller_rounds", 0) for x in parts),
                "poller_fixpoints": sum(x.get("poller_fixpoints", 0) for x in parts),
                "rounds_held_inside_getstate": sum(x.get("poller_rounds_held_inside_getstate", 0) for x in parts)}
    rep["coarse"] = whole("coarse", COARSE[ctx.tier])
    n_tracked = TRACKED[ctx.tier] if num is not None else max(TRACKED[ctx.tier], rep["behaviours"])
    # (G, tracked) the operations of the same behaviours, then every node runs the body of the real poller loop
    # (repair_members with its keyspace tracker) against all others until a whole round asks for no difference
    rep["tracked"] = whole("tracked", n_tracked)
    # pollers that keep asking for differences are not judged in tracked mode; if that happens more than occasionally and
    # nothing else was found, the run says nothing (decided in judge(), after every violation has been collected)
    rep["tracked"]["mostly_undecided"] = rep["tracked"]["poller_fixpoints"] < 0.9 * rep["tracked"]["behaviours"]
    if c.get("SplitGetState") and rep["tracked"]["rounds_held_inside_getstate"] == 0:
        raise vlib.ToolError("vacuous: no poller round of %s was held inside the peer's GetState handler" % name)
    os.remove(out_file)
    # (V) what every keyspace actor of the real nodes did during the replay, against Trace_KeyspaceActor.tla
    rep["actor_trace"] = actor_traces.validate(ctx, actor_trace.files_in(actors_dir), "actors_" + name, ACTOR_PROPS[ctx.prop],
                                               max_events=40000 if ctx.tier == "quick" else 400000)
    shutil.rmtree(actors_dir, ignore_errors=True)
    if rep["behaviours"] == 0:
        raise vlib.ToolError("vacuous: simulation of %s emitted no converged behaviour" % name)
    return dict(name=name, kind="simulated", sim=sim, violated=violated, rep=rep, constants=_consts(c), num=num or "every distinct converged state", depth=depth)


def run_all(ctx, prop):
    binary = vlib.build_harness(ctx, "h-ec")
    results = []
    ex = EXHAUSTIVE[prop][ctx.tier]
    workers = max(2, 12 // max(1, min(len(ex), 3)))
    with concurrent.futures.ThreadPoolExecutor(max_workers=3) as pool:
        futs = [pool.submit(_exhaustive, ctx, n, c, workers) for n, c in ex]
        for n, c, num, depth, mx in SIMULATED[prop][ctx.tier]:
            r = _simulated(ctx, binary, n, c, num, depth, mx)
            ctx.log("simulated %s: %d converged behaviours replayed on real nodes step by step (%d steps), %d with whole exchanges "
                    "run by the real poller, %d with real poller rounds (tracker) up to the fixpoint (%d rounds): %d violations, drift %d" % (
                n, r["rep"]["behaviours"], r["rep"]["steps"], r["rep"]["coarse"]["behaviours"], r["rep"]["tracked"]["behaviours"],
                r["rep"]["tracked"]["poller_rounds"], r["rep"]["violation_count"], r["rep"]["drift"]))
            results.append(r)
        for f in concurrent.futures.as_completed(futs):
            r = f.result()
            ctx.log("exhaustive %s: %d distinct / %d generated, depth %s (%s)" % (
                r["name"], r["mc"]["distinct"], r["mc"]["generated"], r["mc"]["depth"], "ok" if r["ok"] else "VIOLATED " + ",".join(r["mc"]["violated"])))
            results.append(r)
    return results


def judge(ctx, results, props):
    """props: the property names (as reported by the replayer) this check owns."""
    samples = []
    real_found = False
    for r in results:
        if r["kind"] != "simulated":
            continue
        for v in r["rep"]["violations"]:
            if v.get("property") in props:
                real_found = True
                if len(ctx.violations) < 4:
                    ctx.violations.append({"engine": "h-ec replay-cluster", "config": r["name"], "constants": r["constants"],
                                           "why": v["why"][:6], "behaviour": v["behaviour"], "expect": v.get("expect"), "reads": v.get("reads"),
                                           "mode": v.get("mode", "fine")})
        samples += r["rep"]["samples"][:2]
    undecided = [r["name"] for r in results if r["kind"] == "simulated" and r["rep"]["tracked"].get("mostly_undecided")]
    if undecided and not ctx.violations:
        r = [x for x in results if x["name"] == undecided[0]][0]["rep"]["tracked"]
        raise vlib.ToolError("tracked mode (%s): only %d of %d behaviours reached the poller's fixpoint within six rounds and no other "
                             "component found a violation" % (undecided[0], r["poller_fixpoints"], r["behaviours"]))
    model_bad = [r["name"] for r in results if (r["kind"] == "exhaustive" and not r["ok"]) or (r["kind"] == "simulated" and r["violated"])]
    if model_bad and not real_found:
        raise vlib.ToolError("TLC reports a violation on the faithful layer (configs %s) but no replayed behaviour shows it on the real code: "
                             "inspect work/%s/*.out (a counterexample that does not reproduce means the model is wrong)" % (model_bad, ctx.prop))
    ex = [r for r in results if r["kind"] == "exhaustive"]
    si = [r for r in results if r["kind"] == "simulated"]
    return {
        "states": sum(r["mc"]["distinct"] for r in ex), "transitions": sum(r["mc"]["generated"] for r in ex),
        "traces_validated_against_impl": sum(r["rep"]["behaviours"] for r in si),
        "samples": samples[:4], "exhaustive": False,
        "drift_behaviours": sum(r["rep"]["drift"] for r in si),
        "exhaustive_configs": [dict(name=r["name"], constants=r["constants"], distinct=r["mc"]["distinct"], generated=r["mc"]["generated"],
                                    depth=r["mc"]["depth"], wall_s=r["mc"]["wall_s"]) for r in ex],
        "simulated_configs": [dict(name=r["name"], constants=r["constants"], traces=r["num"], depth=r["depth"],
                                   behaviours_replayed=r["rep"]["behaviours"], steps=r["rep"]["steps"],
                                   step_kinds=r["rep"]["step_kinds"], whole_exchange_behaviours=r["rep"]["coarse"]["behaviours"], poller_round_behaviours=r["rep"]["tracked"], actor_trace=r["rep"].get("actor_trace")) for r in si],
        "checker_cmd": ex[0]["mc"]["cmd"] if ex else "",
    }
