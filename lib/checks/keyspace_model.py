"""Keyspace.tla: one keyspace actor + storage, with storage failures and crashes.
Shared by C02 (set/storage agreement) and C07 (restart rebuilds what storage holds)."""
import concurrent.futures
import os

import vlib

CONFIGS = {
    "K1": dict(Keys={1, 2}, Nodes={1}, Times={0, 1, 2, 3}, MaxReqs=2),
    "K2": dict(Keys={1, 2}, Nodes={1, 2}, Times={0, 1, 2}, MaxReqs=2),
    "K3": dict(Keys={1, 2}, Nodes={1}, Times={0, 1, 2}, MaxReqs=3),
    "K4": dict(Keys={1, 2}, Nodes={1}, Times={0, 2, 3}, MaxReqs=3),
    # three keys, stamps more than a forgiveness period apart: a bulk request can move the cut-off of its own origin mid-way
    "K5": dict(Keys={1, 2, 3}, Nodes={1}, Times={0, 3}, MaxReqs=2),
    "K6": dict(Keys={1, 2, 3}, Nodes={1}, Times={0, 1, 3}, MaxReqs=2),
    # single requests only, stamps far apart, up to 5 requests: purges that really remove tombstones, with storage failures
    # put_many / del_many shapes (several keys, one stamp) over four keys: purges of three and more tombstones with
    # partial storage failures
    "K8": dict(Keys={1, 2, 3}, Nodes={1}, Times={0, 1}, MaxReqs=2, WithBulk=False, WithUniform=True, WithCrash=False),
    # the node starts on a storage that already holds three tombstones: purges of three tombstones with every partial failure
    "K9": dict(Keys={1, 2, 3, 4}, Nodes={1}, Times={0, 3, 4}, MaxReqs=3, WithBulk=False, WithCrash=False, InitTombs={1, 2, 3}),
    # a document that is live, its origin's cut-off moved past it by later operations on both sources, then a late single
    # request for that document between its stamp and the cut-off (four single requests, stamps 0 / 1 / 4 / 5 with F = 2: the later two on the two sources)
    "K10": dict(Keys={1, 2}, Nodes={1}, Times={0, 1, 4, 5}, MaxReqs=4, WithBulk=False, WithCrash=False),
    # six single requests: a delete, its origin's cut-off moved past it on both sources, a purge that storage refuses, the
    # document written again, a second purge
    "K11": dict(Keys={1, 2}, Nodes={1}, Times={0, 3, 4, 5}, MaxReqs=6, WithBulk=False, WithCrash=False),
    # the same from a storage that already holds the tombstone (five requests: cut-off moved on both sources, a purge
    # that storage refuses, the document written again, a second purge)
    "K12": dict(Keys={1, 2}, Nodes={1}, Times={0, 3, 4, 5}, MaxReqs=5, WithBulk=False, WithCrash=False, InitTombs={1}),
    "K7": dict(Keys={1, 2}, Nodes={1}, Times={0, 3, 4}, MaxReqs=5, WithBulk=False, WithCrash=False),
}
TIERS = {"quick": ["K1", "K3", "K5", "K7", "K8", "K9", "K10", "K12"], "thorough": ["K1", "K2", "K3", "K4", "K5", "K6", "K7", "K8", "K9", "K10", "K11", "K12"]}
INVARIANTS = ["C02_Agree", "C07_AckedVisible", "WellFormedInv"]
PROPERTIES = ["C07_RebuildExact"]


def _one(ctx, binary, name):
    c = CONFIGS[name]
    consts = dict(dict(Sources={0, 1}, F=2, FixD6=True, SortBulk=True, WithCrash=True, WithBulk=True, WithUniform=False, InitTombs=set()), **c)
    mc_cfg = vlib.cfg_text(constants=dict(consts, EmitEdges=False), invariants=INVARIANTS, properties=PROPERTIES, view="MCView")
    mc, text = vlib.run_tlc(ctx, "Keyspace", mc_cfg, "mc_" + name, workers=5, extra=["-coverage", "1"], timeout=2400)
    mc_ok = vlib.require_clean_mc(ctx, mc, text, "Keyspace/" + name)
    gen_cfg = vlib.cfg_text(constants=dict(consts, EmitEdges=True), view="MCView", action_constraints=["PrintEdge"])
    out = ctx.path("replay_%s.json" % name)
    gen, gtext = vlib.tlc_pipe(ctx, "Keyspace", gen_cfg, "gen_" + name,
                               [binary, "replay-keyspace", "--input", "-", "--out", out, "--passthrough", ctx.path("gen_%s.tlc" % name),
                                "--f", "2", "--keys", ",".join(map(str, sorted(c["Keys"]))),
                                "--init-tombs", ",".join(map(str, sorted(c.get("InitTombs", [])))),
                                "--init-node", str(min(c["Nodes"]))], timeout=4000)
    if gen["consumer_exit"] != 0 or not os.path.exists(out):
        raise vlib.ToolError("keyspace replayer failed on config %s (exit %s)" % (name, gen["consumer_exit"]))
    if gen["distinct"] is None or gen["errors"]:
        raise vlib.ToolError("generation failed on config %s:\n%s" % (name, gtext[-3000:]))
    rep = vlib.load_json(out)
    if rep["evaluations"] + 1 != gen["generated"]:
        raise vlib.ToolError("config %s: replayed %d edges but TLC generated %d states" % (name, rep["evaluations"], gen["generated"]))
    return dict(name=name, mc=mc, mc_ok=mc_ok, gen=gen, rep=rep,
                constants={k: sorted(v) if isinstance(v, set) else v for k, v in c.items()})


def run_all(ctx):
    binary = vlib.build_harness(ctx, "h-ec")
    results = []
    with concurrent.futures.ThreadPoolExecutor(max_workers=3) as ex:
        futs = [ex.submit(_one, ctx, binary, n) for n in TIERS[ctx.tier]]
        for f in concurrent.futures.as_completed(futs):
            r = f.result()
            ctx.log("config %s: MC %d distinct / %d generated (%s); replayed %d edges on a real actor (%d with storage failures, %d crashes): %d violations, drift %d" % (
                r["name"], r["mc"]["distinct"], r["mc"]["generated"], "ok" if r["mc_ok"] else "VIOLATED " + ",".join(r["mc"]["violated"]),
                r["rep"]["evaluations"], r["rep"]["failed_storage_edges"], r["rep"]["crash_edges"], r["rep"]["violation_count"], r["rep"]["drift"]))
            results.append(r)
    results.sort(key=lambda r: r["name"])
    return results


def judge(ctx, results, prop):
    own = {"C02": {"C02_Agree", "WellFormedInv"}, "C07": {"C07_AckedVisible", "C07_RebuildExact"}}[prop]
    samples = []
    for r in results:
        real = [v for v in r["rep"]["violations"] if v.get("property") == prop]
        bad = [v for v in r["mc"]["violated"] if v in own]
        if bad and not real:
            raise vlib.ToolError("config %s: TLC reports %s on the faithful layer but the real actor shows no violation" % (r["name"], bad))
        for v in real[:3]:
            ctx.violations.append({"engine": "h-ec replay-keyspace", "config": r["name"], "constants": r["constants"], "why": v["why"][:6],
                                   "path": v.get("path"), "edge": v.get("edge"), "observed": v.get("observed")})
        samples += r["rep"]["samples"][:2]
    if prop == "C07" and sum(r["rep"]["crash_edges"] for r in results) == 0:
        raise vlib.ToolError("vacuous: no crash / restart edge")
    if prop == "C07" and sum(r["rep"].get("failed_start_edges", 0) for r in results) == 0:
        raise vlib.ToolError("vacuous: no start that met a storage read error")
    if prop == "C02" and sum(r["rep"]["failed_storage_edges"] for r in results) == 0:
        raise vlib.ToolError("vacuous: no storage failure edge")
    if prop == "C02" and sum(r["rep"].get("effective_purge_failures", 0) for r in results) == 0:
        raise vlib.ToolError("vacuous: no purge that removes tombstones met a storage failure")
    return {
        "states": sum(r["mc"]["distinct"] for r in results), "transitions": sum(r["mc"]["generated"] for r in results),
        "traces_validated_against_impl": sum(r["rep"]["evaluations"] for r in results),
        "samples": samples[:5], "exhaustive": True, "drift_edges": sum(r["rep"]["drift"] for r in results),
        "configs": [dict(name=r["name"], constants=r["constants"], mc_distinct=r["mc"]["distinct"], mc_generated=r["mc"]["generated"],
                         replayed_edges=r["rep"]["evaluations"], by_kind=r["rep"]["by_kind"], crash_edges=r["rep"]["crash_edges"], failed_start_edges=r["rep"].get("failed_start_edges"),
                         failed_storage_edges=r["rep"]["failed_storage_edges"], effective_purges=r["rep"].get("effective_purges"),
                         effective_purge_failures=r["rep"].get("effective_purge_failures"), drift=r["rep"]["drift"]) for r in results],
        "checker_cmd": results[0]["mc"]["cmd"],
    }
