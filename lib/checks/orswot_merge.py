"""MC_OrswotMerge: replicas that apply, merge and repair.  Shared by C03 (merge laws) and C05 (difference)."""
import concurrent.futures
import os

import vlib

CONFIGS = {
    "MA": dict(Keys={1, 2}, Nodes={1, 2}, F=2, Times={0, 1, 2, 3}, Replicas={1, 2}, MaxOps=2, MaxMerges=2, Mode='"prefix"'),
    "ME": dict(Keys={1, 2}, Nodes={1, 2}, F=2, Times={0, 1, 2, 3}, Replicas={1, 2, 3}, MaxOps=2, MaxMerges=1, Mode='"prefix"'),
    "MW": dict(Keys={1, 2}, Nodes={1, 2}, F=3, Times={0, 1, 2}, Replicas={1, 2}, MaxOps=2, MaxMerges=2, Mode='"window"'),
    "MB": dict(Keys={1, 2}, Nodes={1, 2}, F=2, Times={0, 1, 2, 3}, Replicas={1, 2}, MaxOps=3, MaxMerges=1, Mode='"prefix"'),
    "MC": dict(Keys={1, 2}, Nodes={1, 2}, F=3, Times={0, 1, 2}, Replicas={1, 2}, MaxOps=3, MaxMerges=1, Mode='"window"'),
    "MF": dict(Keys={1, 2}, Nodes={1, 2}, F=2, Times={0, 1, 2, 3}, Replicas={1, 2, 3}, MaxOps=3, MaxMerges=0, Mode='"prefix"'),
    # one key, three replicas, three operations: the smallest universe in which merge ORDER matters
    "MK3": dict(Keys={1}, Nodes={1, 2}, F=2, Times={0, 1, 2}, Replicas={1, 2, 3}, MaxOps=3, MaxMerges=0, Mode='"prefix"'),
    "MK4": dict(Keys={1}, Nodes={1, 2}, F=3, Times={0, 1, 2}, Replicas={1, 2, 3}, MaxOps=3, MaxMerges=0, Mode='"window"'),
    # three origin nodes
    "M3N": dict(Keys={1, 2}, Nodes={1, 2, 3}, F=2, Times={0, 1, 2}, Replicas={1, 2}, MaxOps=2, MaxMerges=1, Mode='"prefix"'),
    "M3K": dict(Keys={1}, Nodes={1, 2, 3}, F=2, Times={0, 1, 2}, Replicas={1, 2, 3}, MaxOps=3, MaxMerges=0, Mode='"prefix"'),
    "MG": dict(Keys={1, 2}, Nodes={1, 2}, F=2, Times={0, 3, 4}, Replicas={1, 2}, MaxOps=3, MaxMerges=2, Mode='"prefix"'),
}
# merging only (C03), single-source sets, three operations of two origin nodes spanning more than the forgiveness period: the delete of
# one node's document by the other node followed, more than F later, by another operation of the deleting node.  No repair
# transitions and no C05 laws: a repair through the one source would itself break the gap-free order the property presupposes.
CONFIGS["ML1"] = dict(Keys={1, 2}, Nodes={1, 2}, F=1, Times={0, 2}, Replicas={1, 2}, MaxOps=3, MaxMerges=1, Mode='"prefix"', Sources={0}, Only="C03")
# C08's local facts on sets reached through merges (WithPurge): one origin, stamps inside one window, three operations
# (single-source sets, OrSWotSet<1>: the cut-off does not wait for a second source)
CONFIGS["MP"] = dict(Keys={1, 2}, Nodes={1}, F=3, Times={0, 1, 2, 3}, Replicas={1, 2}, MaxOps=3, MaxMerges=1, Mode='"window"', Sources={0})
CONFIGS["MQ"] = dict(Keys={1, 2}, Nodes={1, 2}, F=2, Times={0, 1, 2, 3}, Replicas={1, 2}, MaxOps=2, MaxMerges=2, Mode='"prefix"')
PURGE_TIERS = {"quick": ["MP", "MQ"], "thorough": ["MP", "MQ", "MG"]}
TIERS = {"quick": ["MA", "ME", "MW", "MK3", "MK4", "ML1"], "thorough": ["MA", "ME", "MW", "MK3", "MK4", "ML1", "MB", "MC", "MF", "MG", "M3N", "M3K"]}
INVARIANTS = ["C03_Commutative", "C03_Idempotent", "C03_Associative", "C03_MutualMerge",
              "C05_DiffExact", "C05_OneExchange", "C05_MutualRepair", "WellFormedInv"]


def _one(ctx, binary, name, with_purge=False):
    c = dict(CONFIGS[name])
    only = c.pop("Only", None)
    srcs = c.get("Sources", {0, 1})
    consts = dict(c, Sources=srcs, FixD6=True, RepairSrc=max(srcs), WithPurge=with_purge, NoRepair=bool(only))
    invs = ["C08_StillRefused", "WellFormedInv"] if with_purge else [i for i in INVARIANTS if only is None or i.startswith(only) or i == "WellFormedInv"]
    mc_cfg = vlib.cfg_text(constants=dict(consts, EmitEdges=False), invariants=invs,
                           properties=["C08_PurgeInvisible"] if with_purge else (), view="MCView")
    mc, mc_text = vlib.run_tlc(ctx, "MC_OrswotMerge", mc_cfg, "mc_" + name, workers=5, extra=["-coverage", "1"],
                               timeout=3000, xmx="8g")
    mc_ok = vlib.require_clean_mc(ctx, mc, mc_text, "MC_OrswotMerge/" + name)
    gen_cfg = vlib.cfg_text(constants=dict(consts, EmitEdges=True), view="MCView", action_constraints=["PrintEdge"])
    out = ctx.path("replay_%s.json" % name)
    consumer = [binary, "replay-merge", "--input", "-", "--out", out, "--passthrough", ctx.path("gen_%s.tlc" % name),
                "--f", str(c["F"]), "--keys", ",".join(map(str, sorted(c["Keys"]))), "--repair-src", str(max(srcs)), "--sources", str(len(srcs)),
                "--times", ",".join(map(str, sorted(c["Times"]))), "--nodes", ",".join(map(str, sorted(c["Nodes"])))] + (["--no-laws", "1"] if with_purge else []) + (["--merge-laws-only", "1"] if only else [])
    gen, gen_text = vlib.tlc_pipe(ctx, "MC_OrswotMerge", gen_cfg, "gen_" + name, consumer, timeout=4000, xmx="8g")
    if gen["consumer_exit"] != 0 or not os.path.exists(out):
        raise vlib.ToolError("replayer failed on config %s (exit %s)" % (name, gen["consumer_exit"]))
    if gen["distinct"] is None or gen["errors"]:
        raise vlib.ToolError("generation run failed on config %s:\n%s" % (name, gen_text[-3000:]))
    rep = vlib.load_json(out)
    if rep["evaluations"] + 1 != gen["generated"] or rep["distinct_states"] != gen["distinct"]:
        raise vlib.ToolError("config %s: replayed %d edges / %d states but TLC generated %d / %d" % (
            name, rep["evaluations"], rep["distinct_states"], gen["generated"], gen["distinct"]))
    return dict(name=name, mc=mc, mc_ok=mc_ok, gen=gen, rep=rep,
                constants={k: sorted(v) if isinstance(v, set) else v for k, v in c.items()})


def run_all(ctx, with_purge=False, prop=None):
    """prop: the property the run is for (configurations marked Only=<other property> are left out)"""
    binary = vlib.build_harness(ctx, "h-crdt")
    results = []
    with concurrent.futures.ThreadPoolExecutor(max_workers=3) as ex:
        futs = [ex.submit(_one, ctx, binary, n, with_purge) for n in (PURGE_TIERS if with_purge else TIERS)[ctx.tier]
                if CONFIGS[n].get("Only") in (None, prop)]
        for f in concurrent.futures.as_completed(futs):
            r = f.result()
            ctx.log("config %s: MC %d distinct / %d generated (%s); replayed %d edges, laws on %d states, %d violations, drift %d" % (
                r["name"], r["mc"]["distinct"], r["mc"]["generated"],
                "ok" if r["mc_ok"] else "VIOLATED " + ",".join(r["mc"]["violated"]),
                r["rep"]["evaluations"], r["rep"]["law_evaluations"], r["rep"]["violation_count"], r["rep"]["drift"]))
            results.append(r)
    results.sort(key=lambda r: r["name"])
    return results


def judge(ctx, results, prop):
    samples = []
    for r in results:
        real = [v for v in r["rep"]["violations"] if v.get("property") == prop]
        mc_bad = [v for v in r["mc"]["violated"] if v.startswith(prop) or (v == "WellFormedInv" and prop != "C08")]
        if mc_bad and not real:
            raise vlib.ToolError("config %s: TLC reports %s on the faithful layer but the real code shows no violation: "
                                 "the model misrepresents the code" % (r["name"], mc_bad))
        for v in real[:3]:
            ctx.violations.append({"engine": "h-crdt replay-merge", "config": r["name"], "constants": r["constants"],
                                   "why": v["why"][:6], "path": v.get("path"), "edge": v.get("edge"), "live": v.get("live")})
        samples += r["rep"]["samples"][:2]
    if prop == "C08" and (sum(r["rep"]["purge_edges"] for r in results) == 0 or sum(r["rep"]["by_kind"].get("merge", 0) for r in results) == 0):
        raise vlib.ToolError("vacuous: no purge / no merge transition")
    if prop == "C05" and sum(r["rep"]["nonempty_diffs"] for r in results) == 0:
        raise vlib.ToolError("vacuous: every difference was empty")
    if sum(r["rep"]["by_kind"].get("merge", 0) + r["rep"]["by_kind"].get("repair", 0) for r in results) == 0:
        raise vlib.ToolError("vacuous: no merge/repair transition")
    return {
        "states": sum(r["mc"]["distinct"] for r in results),
        "transitions": sum(r["mc"]["generated"] for r in results),
        "traces_validated_against_impl": sum(r["rep"]["evaluations"] for r in results),
        "samples": samples[:5], "exhaustive": True,
        "drift_edges": sum(r["rep"]["drift"] for r in results),
        "law_evaluations_on_real_sets": sum(r["rep"]["law_evaluations"] for r in results),
        "configs": [dict(name=r["name"], constants=r["constants"], mc_distinct=r["mc"]["distinct"],
                         mc_generated=r["mc"]["generated"], mc_wall_s=r["mc"]["wall_s"], gen_wall_s=r["gen"]["wall_s"],
                         replayed_edges=r["rep"]["evaluations"], by_kind=r["rep"]["by_kind"],
                         nonempty_diffs=r["rep"]["nonempty_diffs"], purge_edges=r["rep"].get("purge_edges"),
                         effective_purges=r["rep"].get("effective_purges"), refused_probes=r["rep"].get("refused_probes"),
                         drift=r["rep"]["drift"]) for r in results],
        "checker_cmd": results[0]["mc"]["cmd"],
    }


def replay_file(ctx, path, prop):
    raise vlib.ToolError("replay of merge-model violations: re-run `bin/check %s`; the replay file lists the operation "
                         "path (issue/apply/merge/repair steps) that reaches the violating state" % prop)
