"""MC_OrswotOps: model checking + edge-complete replay on the real OrSWotSet.
Shared by C04 (last-writer-wins per key) and C08 (local purge clauses)."""
import concurrent.futures
import json
import os

import vlib

# name -> constants of MC_OrswotOps.  Model time unit = 3600 s / F.
CONFIGS = {
    # two sources, everything inside one window: the C04 core
    "A": dict(Keys={1, 2}, Nodes={1, 2}, Sources={0, 1}, F=2, Times={0, 1, 2}, Counters={0}, MaxOps=10),
    # one source, times up to 3: purges become effective
    "B": dict(Keys={1, 2}, Nodes={1, 2}, Sources={0}, F=2, Times={0, 1, 2, 3}, Counters={0}, MaxOps=10),
    # two sources, times up to 3, at most 4 operations
    "C": dict(Keys={1, 2}, Nodes={1, 2}, Sources={0, 1}, F=2, Times={0, 1, 2, 3}, Counters={0}, MaxOps=4),
    # counters decide (same time, counters 0/1), far-apart times: purge through both sources
    "D": dict(Keys={1, 2}, Nodes={1, 2}, Sources={0, 1}, F=2, Times={0, 3}, Counters={0, 1}, MaxOps=5),
    # two sources, far-apart times: purges through both sources become effective
    "P": dict(Keys={1, 2}, Nodes={1, 2}, Sources={0, 1}, F=2, Times={0, 3, 4}, Counters={0}, MaxOps=4),
    # the same universe as A with re-delivery of operations (duplication), at most 4 deliveries
    "AD": dict(Keys={1, 2}, Nodes={1, 2}, Sources={0, 1}, F=2, Times={0, 1, 2}, Counters={0}, MaxOps=4, AllowDup=True),
    # three origin nodes (quick), stamps that differ in counter only (quick)
    "N3": dict(Keys={1, 2}, Nodes={1, 2, 3}, Sources={0, 1}, F=2, Times={0, 1, 2}, Counters={0}, MaxOps=3),
    "D3": dict(Keys={1, 2}, Nodes={1, 2}, Sources={0, 1}, F=2, Times={0, 3}, Counters={0, 1}, MaxOps=3),
    # thorough: three keys / three nodes
    "E": dict(Keys={1, 2, 3}, Nodes={1, 2}, Sources={0, 1}, F=2, Times={0, 1, 2}, Counters={0}, MaxOps=5),
    "G": dict(Keys={1, 2}, Nodes={1, 2, 3}, Sources={0, 1}, F=2, Times={0, 1, 2, 3}, Counters={0}, MaxOps=4),
    "H": dict(Keys={1, 2}, Nodes={1, 2}, Sources={0, 1}, F=3, Times={0, 1, 2, 3, 4}, Counters={0}, MaxOps=4),
}
# the real resolution: one model time unit = 4 ms (the stamp's own), F = 900 000 units = the real 3600 s; times sit on the
# cut-off itself and one tick either side of it
CONFIGS["T4"] = dict(Keys={1, 2}, Nodes={1, 2}, Sources={0, 1}, F=900000, Times={0, 1, 900001, 900002}, Counters={0}, MaxOps=4)
CONFIGS["T4S"] = dict(Keys={1, 2}, Nodes={1, 2}, Sources={0}, F=900000, Times={0, 1, 899999, 900000, 900001}, Counters={0}, MaxOps=4)
TIERS = {"quick": ["A", "AD", "B", "C", "P", "N3", "D3", "T4", "T4S"], "thorough": ["A", "AD", "B", "C", "P", "N3", "D3", "D", "E", "G", "H", "T4", "T4S"]}

INVARIANTS = ["C04_LWW", "C08_StillRefused", "WellFormedInv"]
PROPERTIES = ["C04_Return", "C08_PurgeInvisible"]


def _one(ctx, binary, name):
    consts = dict(CONFIGS[name])
    consts["FixD6"] = True
    consts.setdefault("AllowDup", False)
    # (M) model checking of the faithful layer against the oracle layer
    mc_cfg = vlib.cfg_text(constants=dict(consts, EmitEdges=False), invariants=INVARIANTS,
                           properties=PROPERTIES, view="MCView")
    mc, mc_text = vlib.run_tlc(ctx, "MC_OrswotOps", mc_cfg, "mc_" + name, workers=4, extra=["-coverage", "1"],
                               timeout=1500, xmx="6g")
    mc_ok = vlib.require_clean_mc(ctx, mc, mc_text, "MC_OrswotOps/" + name)
    # (G) every edge replayed on the real code
    gen_cfg = vlib.cfg_text(constants=dict(consts, EmitEdges=True), view="MCView",
                            action_constraints=["PrintEdge"])
    out = ctx.path("replay_%s.json" % name)
    c = CONFIGS[name]
    consumer = [binary, "replay-ops", "--input", "-", "--out", out,
                "--passthrough", ctx.path("gen_%s.tlc" % name),
                "--sources", str(len(c["Sources"])), "--f", str(c["F"]),
                "--keys", ",".join(map(str, sorted(c["Keys"]))),
                "--nodes", ",".join(map(str, sorted(c["Nodes"]))),
                "--times", ",".join(map(str, sorted(c["Times"]))),
                "--counters", ",".join(map(str, sorted(c["Counters"])))]
    gen, gen_text = vlib.tlc_pipe(ctx, "MC_OrswotOps", gen_cfg, "gen_" + name, consumer, timeout=2400, xmx="6g")
    if gen["consumer_exit"] != 0 or not os.path.exists(out):
        raise vlib.ToolError("replayer failed on config %s (exit %s)" % (name, gen["consumer_exit"]))
    if gen["distinct"] is None or gen["errors"]:
        raise vlib.ToolError("generation run failed on config %s:\n%s" % (name, gen_text[-3000:]))
    rep = vlib.load_json(out)
    if rep["evaluations"] + 1 != gen["generated"]:
        raise vlib.ToolError("config %s: replayed %d edges but TLC generated %d states" %
                             (name, rep["evaluations"], gen["generated"]))
    return dict(name=name, mc=mc, mc_ok=mc_ok, gen=gen, rep=rep, constants={k: sorted(v) if isinstance(v, set) else v
                                                                                for k, v in dict(c, AllowDup=c.get("AllowDup", False)).items()})


def run_ops(ctx):
    binary = vlib.build_harness(ctx, "h-crdt")
    names = TIERS[ctx.tier]
    results = []
    with concurrent.futures.ThreadPoolExecutor(max_workers=3) as ex:
        futs = {ex.submit(_one, ctx, binary, n): n for n in names}
        for f in concurrent.futures.as_completed(futs):
            r = f.result()
            ctx.log("config %s: MC %d distinct / %d generated (%s), replayed %d edges, %d violations, drift %d" % (
                r["name"], r["mc"]["distinct"], r["mc"]["generated"],
                "ok" if r["mc_ok"] else "VIOLATED " + ",".join(r["mc"]["violated"]),
                r["rep"]["evaluations"], r["rep"]["violation_count"], r["rep"]["drift"]))
            results.append(r)
    results.sort(key=lambda r: r["name"])
    return results


def judge(ctx, results, prop, vacuity):
    """Collects the violations of `prop` from the replays; cross-checks with the MC runs."""
    own_inv = {"C04": {"C04_LWW", "C04_Return"}, "C08": {"C08_StillRefused", "C08_PurgeInvisible"}}[prop]
    total_states = sum(r["mc"]["distinct"] for r in results)
    total_trans = sum(r["mc"]["generated"] for r in results)
    replayed = sum(r["rep"]["evaluations"] for r in results)
    drift = sum(r["rep"]["drift"] for r in results)
    samples = []
    for r in results:
        real = [v for v in r["rep"]["violations"] if v.get("property") == prop]
        n_real = len(real)
        mc_bad = [v for v in r["mc"]["violated"] if v in own_inv or v == "WellFormedInv"]
        if mc_bad and not n_real:
            raise vlib.ToolError("config %s: TLC reports %s on the faithful layer but the real code shows no "
                                 "violation on any edge: the model misrepresents the code" % (r["name"], mc_bad))
        for v in real[:3]:
            ctx.violations.append({"engine": "h-crdt replay-ops", "config": r["name"], "constants": r["constants"],
                                   "why": v.get("why"), "path": v.get("path"), "from": v.get("from"),
                                   "edge": v.get("edge"), "probe": v.get("probe"), "observed": v.get("observed")})
        samples += r["rep"]["samples"][:2]
    for key, what in vacuity:
        if sum(r["rep"].get(key, 0) for r in results) == 0:
            raise vlib.ToolError("vacuous run: %s" % what)
    cov = {
        "states": total_states,
        "transitions": total_trans,
        "traces_validated_against_impl": replayed,
        "samples": samples[:6],
        "exhaustive": True,
        "drift_edges": drift,
        "configs": [dict(name=r["name"], constants=r["constants"], mc_distinct=r["mc"]["distinct"],
                         mc_generated=r["mc"]["generated"], mc_depth=r["mc"]["depth"],
                         mc_wall_s=r["mc"]["wall_s"], gen_wall_s=r["gen"]["wall_s"],
                         replayed_edges=r["rep"]["evaluations"], clean_edges=r["rep"]["clean_edges"],
                         purge_edges=r["rep"]["purge_edges"], refused_probes=r["rep"]["refused_probes"],
                         effective_purges=r["rep"].get("effective_purges"),
                         by_kind=r["rep"]["by_kind"], drift=r["rep"]["drift"],
                         real_forgiveness_period_s=r["rep"]["forgiveness_period_s"]) for r in results],
        "checker_cmd": results[0]["mc"]["cmd"],
    }
    return cov


def replay_file(ctx, path, prop):
    """Re-executes one reported violation (operation path + failing edge) on the current tree."""
    v = vlib.load_json(path)
    binary = vlib.build_harness(ctx, "h-crdt")
    c = v["constants"]
    out = ctx.path("replay_one.json")
    vlib.run_harness(ctx, [binary, "replay-ops", "--script", path, "--out", out,
                           "--sources", str(len(c["Sources"])), "--f", str(c["F"]),
                           "--keys", ",".join(map(str, c["Keys"])), "--nodes", ",".join(map(str, c["Nodes"])),
                           "--times", ",".join(map(str, c["Times"])), "--counters", ",".join(map(str, c["Counters"]))])
    rep = vlib.load_json(out)
    bad = [x for x in rep["violations"] if x.get("property") == prop]
    for x in bad:
        ctx.violations.append(dict(v, observed=x.get("observed"), why=x.get("why")))
    cov = {"states": 1, "transitions": 1, "traces_validated_against_impl": 1, "samples": [v.get("edge")],
           "replay_of": path}
    return vlib.finish(ctx, "model_checking", cov, ["replay of one recorded violation"])
