"""Recorded task-distributor events (hooks in replication/distributor.rs) -> the NDJSON Trace_Distributor.tla reads."""
import json
import os


def normalise(files, out_path):
    sections = []
    keyspaces = set()
    for path in files:
        per = {}
        order = []
        with open(path) as f:
            for line in f:
                if '"dist_' not in line:
                    continue
                ev = json.loads(line)
                if ev.get("ev") not in ("dist_enq", "dist_batch"):
                    continue
                d = ev["dist"]
                if d not in per:
                    per[d] = []
                    order.append(d)
                per[d].append(ev)
        for d in order:
            sections.append((os.path.basename(path), d, sorted(per[d], key=lambda e: e["seq"])))

    def items(a):
        return ["%d@%d.%d.%d" % (k, ts[0], ts[1], ts[2]) for k, ts in a]
    lines = []
    enq = batches = 0
    for name, d, evs in sections:
        lines.append({"ev": "reset", "file": name, "dist": d})
        for ev in evs:
            if ev["ev"] == "dist_enq":
                enq += 1
                keyspaces.add(ev["ks"])
                lines.append({"ev": "enq", "seq": ev["seq"], "kind": ev["kind"], "ks": ev["ks"], "items": items(ev["items"])})
            else:
                batches += 1
                for g in ev["modified"] + ev["removed"]:
                    keyspaces.add(g["ks"])
                lines.append({"ev": "batch", "seq": ev["seq"],
                              "modified": [{"ks": g["ks"], "items": items(g["items"])} for g in ev["modified"]],
                              "removed": [{"ks": g["ks"], "items": items(g["items"])} for g in ev["removed"]],
                              "members": ev["members"]})
    with open(out_path, "w") as out:
        out.write(json.dumps({"ev": "header", "keyspaces": sorted(keyspaces)}) + "\n")
        for ln in lines:
            out.write(json.dumps(ln, separators=(",", ":")) + "\n")
    return {"distributors": len(sections), "mutations_handed_in": enq, "batches": batches, "keyspaces": len(keyspaces)}
