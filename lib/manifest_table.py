"""The content of MANIFEST.json (bin/mkmanifest turns it into the file)."""

NOT_YET = "no check registered yet for this property (the machinery is being built in the order of DESIGN.md section 12); nothing is claimed"
NOT_APPLICABLE = {}

NOTES = ("Model-based verification with explicit TLA+ specifications (spec/*.tla). Each check runs TLC on the faithful "
         "model with the property as invariant/action property, replays TLC-generated behaviours on the real code built "
         "from /repo's working tree (G) and/or validates traces recorded from the real code with TLC (V). "
         "Exit 0 held / 1 VIOLATION / 2 tool error. See DESIGN.md.")

ENGINES = [
    {"name": "h-sim", "path": "harness/h-sim", "serves_properties": ["C14"],
     "kind_free_text": "turmoil simulation harness (datacake-rpc feature `simulation`), built on its own so the feature is not unified into the other crates"},
    {"name": "h-ec", "path": "harness/h-ec", "serves_properties": ["C01", "C02", "C05", "C06", "C07", "C08", "C17", "C18", "C19"],
     "kind_free_text": "Rust conformance harness for datacake-eventual-consistency and the storage backends"},
    {"name": "h-node", "path": "harness/h-node", "serves_properties": ["C11", "C15", "C16"],
     "kind_free_text": "Rust conformance harness for datacake-node: selector actor, membership watcher, clock actor"},
    {"name": "h-rpc", "path": "harness/h-rpc", "serves_properties": ["C12", "C13", "C14"],
     "kind_free_text": "Rust conformance harness for datacake-rpc: real Server/RpcClient on loopback, frame mutation recorder, fault-injecting TCP relay (link up / held / cut, replies stopped half-way)"},
    {"name": "tlc", "path": "/opt/veriftools/tla/tla2tools.jar", "serves_properties": [],
     "kind_free_text": "explicit-state model checker for the TLA+ modules in spec/"},
    {"name": "h-crdt", "path": "harness/h-crdt", "serves_properties": ["C03", "C04", "C05", "C08", "C09", "C10"],
     "kind_free_text": "Rust conformance harness: replays TLC-generated edges/behaviours on the real datacake-crdt types, records traces"},
]

_OPS_NOTE = ("Trusted: TLC, the TLA+ transcription of the oracle layer (LWW per key written from the statement), the JSON edge "
             "protocol and the mapping of model time units to multiples of 3600 s / F. Bounded universes; distinct timestamps.")

CHECKS = {
    "C04": dict(
        engine="tlc + h-crdt",
        technique="TLC exhaustive model checking of MC_OrswotOps + edge-complete replay of the state graph on the real OrSWotSet (one configuration at the stamp's own resolution of 4 ms, times on the cut-off and one tick either side) + TLC trace validation of every keyspace actor of the repository's own test suites and of long-lived actors under random request streams",
        text=("TLC explores every arrival order of inserts/deletes (1 and 2 sources, bounded keys/origins/times) on the faithful "
              "model with LWW-per-key, return-value and will_apply invariants; then every transition of the bounded state graph is "
              "re-executed on the real OrSWotSet<N> and get()/return value/will_apply are compared with the specification's oracle. "
              "Exhaustive within the bound, and bound to the code on every edge. In the other direction the repository's own eventual-consistency, "
              "sqlite and lmdb test suites are run with the guarded hooks on and every mutation every keyspace actor handles is validated against "
              "Trace_KeyspaceActor.tla (same operators as Keyspace.tla)."),
        design_ref="DESIGN.md section 7 C04 and 14.2",
        note=_OPS_NOTE),
    "C08": dict(
        engine="tlc + h-crdt",
        technique="TLC exhaustive model checking (purge enabled in every state) + edge-complete replay on the real OrSWotSet + cluster behaviours replayed on real nodes with TLC trace validation of their keyspace actors + TLC trace validation of long random request streams (purges, storage failures, clock jumps) on long-lived real actors",
        text=("Global clause: Cluster.tla with Purge enabled at any moment and time advancing under the timeliness guard converges to last-writer-wins over "
              "all issued operations (the never-purging outcome), exhaustively for a small config and by simulation with real-node replay beyond. "
              "Local clauses: on every reachable set of the bounded universes a purge leaves get() unchanged, removes only tombstones, "
              "and afterwards every operation of the deleting node not newer than the purged delete is refused by will_apply and both "
              "mutators on every source - checked by TLC on the faithful model and re-checked on the real code on every edge."),
        design_ref="DESIGN.md section 7 C08",
        note=_OPS_NOTE + " The global clause uses Cluster.tla with global time, bounded skew and the timeliness guard (exhaustive small config + simulation with real-node replay). The local clauses are also decided on sets reached through merges and repairs (MC_OrswotMerge with purge on any replica at any moment, including single-source sets), and 'still refused' is probed from what the real set purged, one operation later as well."),
    "C09": dict(
        engine="tlc + h-crdt",
        technique="TLC exhaustive model checking of MC_HLC over boundary grids + edge-complete replay on the real HLCTimestamp + TLC trace validation of random runs",
        text=("HLC.tla transcribes send/recv with the real constants (drift 1 025 000 x 4 ms, counter max 65 535); TLC checks the C09 action "
              "properties for every interleaving of send/recv with arbitrary non-monotonic wall-clock readings and remote stamps drawn from "
              "boundary grids; every edge is re-executed on the real HLCTimestamp with an injected wall clock and judged from observables "
              "(result > everything issued/accepted before, own node id, drift bound, failure leaves the clock untouched); random runs of the "
              "real clock are validated by Trace_HLC.tla."),
        design_ref="DESIGN.md section 7 C09",
        note="Trusted: TLC, the wall-clock injection hook, grids (not all u64 values). Times below 2^32 s."),
    "C10": dict(
        engine="tlc + h-crdt",
        technique="TLC enumeration of boundary grids / text classes on HLCCodec.tla, one implementation test per vector, TLC trace validation of random u64s and texts",
        text=("HLCCodec.tla defines packing (16-bit limbs), accessors, Display and FromStr; TLC checks round trips and order preservation on the "
              "specification over boundary grids and emits one vector per case (960 stamps, 32 400 pairs, 12 612 texts) which the harness runs on "
              "the real code (accessors, from_u64, text, rkyv archive, comparison, parse under catch_unwind); random u64s, bit-flipped pairs and "
              "mutated texts are logged and validated by Trace_Codec.tla."),
        design_ref="DESIGN.md section 7 C10",
        note="Grid + random samples with the specification as oracle; not a proof over all 2^64 values. Trusted: TLC, the limb arithmetic of the spec."),
    "C03": dict(
        engine="tlc + h-crdt",
        technique="TLC exhaustive model checking of MC_OrswotMerge (merge laws as invariants) + replay of every transition and law evaluation on real OrSWotSet replicas",
        text=("Replicas apply gap-free prefixes (or in-window subsets) of a global operation log, merge and repair each other; TLC checks "
              "commutativity, associativity, idempotence and mutual-merge indistinguishability on the faithful transcription of merge() in "
              "every reachable state; every transition is re-executed on real OrSWotSet<2> replicas (zero drift expected) and the same laws "
              "are evaluated with the real merge() on every distinct state."),
        design_ref="DESIGN.md section 7 C03",
        note="Bounded: 2 keys, 2 origins, 2-3 replicas, <= 3 operations, <= 2 merge/repair transitions; distinct timestamps."),
    "C05": dict(
        engine="tlc + h-crdt",
        technique="TLC exhaustive model checking of MC_OrswotMerge (DiffSpec oracle, one-exchange and mutual-repair invariants) + replay on real OrSWotSet replicas + Cluster.tla without direct replication (every difference repaired by exchanges) replayed on real nodes through the real poller code",
        text=("For every ordered pair of reachable replica states TLC compares the faithful diff() with DiffSpec written from the statement, "
              "checks that applying the difference (removals first / modifications first, the way the keyspace actor applies batches) leaves "
              "nothing to fetch and that mutual repair equalises live ids; the harness repeats all three clauses with the real diff(), "
              "will_apply() and mutators on every distinct state."),
        design_ref="DESIGN.md section 7 C05",
        note="Same bounds as C03. The poller level of the exchange (handle_removals / handle_modified / begin_keyspace_sync) is bound by the cluster component: behaviours without any direct replication replayed on real nodes in the three modes described for C01; every diff a real keyspace actor answered is validated against DiffSpec by Trace_KeyspaceActor.tla. Single real poller rounds of 1 .. 166 668 documents (50 001 / 100 001 / 150 001 modified ones: the poller's fetch limit and its multiples, plus one) and exchanges with one fault in them: a refused repair write, a refused read behind a fetch, a repair write that takes longer than the progress watcher waits (Poller.tla: Sync timeout, then LateLand / LateDrop) - none of these may count as done."),
    "C12": dict(
        engine="tlc + h-rpc",
        technique="TLC model checking of a toy bit-level framing model + TLC trace validation of exhaustive per-frame mutations run through the real DataView::using, a real server and a real client",
        text=("RpcFrame.tla states the acceptance rule (length >= fixed part + trailer, checksum matches) and checks at toy scale (real CRC-3) "
              "that it refuses every single-bit flip and every short frame and that one request/reply exchange over a damaging network never runs a "
              "handler on a refused frame. The harness produces real frames with to_view_bytes, applies every bit flip, truncation and small "
              "extension, feeds them to the real DataView::using (catch_unwind), posts damaged frames to a real server counting handler runs, and "
              "round-trips values and handler errors through the real client; Trace_RpcFrame.tla validates every event against the rule."),
        design_ref="DESIGN.md section 7 C12",
        note="Per-frame exhaustive up to 2 KiB (4 KiB thorough), sampled above; value space sampled; message types include archives of alignment 1 and 2 with sizes that are not a multiple of four, and messages carrying one collection of 6 .. 20 000 owning elements (the serializer's working memory grows with the element count); bursts of several hundred requests in flight at once on one connection and on connections of their own (each caller gets the reply to its own request). Memory safety itself is not observed (section 11)."),
    "C13": dict(
        engine="tlc + h-rpc",
        technique="TLC exhaustive enumeration of add/remove histories on RpcRegistry.tla + replay of every history on a real Server with real clients",
        text=("RpcRegistry.tla models services -> handler keys and the handler table with add/remove; TLC checks served <=> registered after every step "
              "for all 7^L histories over four service types (two sharing a message type, one with two, one registering under another's name) and emits every history with the oracle's expectation "
              "per step; each is replayed on a fresh real Server on loopback and all six (service, message) pairs are probed after every step."),
        design_ref="DESIGN.md section 7 C13",
        note="L = 4 quick / 5 thorough; a second run adds requests held inside their handler; a third run adds pairs of registry changes made at the same time by two threads (action Par: either order, pairs whose orders agree) on a server that also holds 64 bystander services. Handler-key hash collisions are outside the model."),
    "C15": dict(
        engine="tlc + h-node",
        technique="TLC enumeration (exhaustive + simulated) of membership-update/selection histories, replayed on the real selector actor, outcomes validated by TLC against the postcondition Allowed of Selector.tla",
        text=("Selector.tla states Required(layout, level) and Allowed(result) from the property statement (count-only); TLC enumerates every history "
              "of SetNodes/Select steps up to the length bound over layouts of up to 4 data centres x 4 nodes (and simulates longer ones); each history "
              "is replayed on a fresh real selector actor with the local node in four different positions (rotated member lists, local data centre sorting first or last), and every distinct (live layout, level, outcome) is validated by Trace_Selector.tla, which "
              "reports every outcome that is not allowed."),
        design_ref="DESIGN.md section 7 C15",
        note="History-dependence lives in the implementation (cursors, cache, stale data centres), which is why histories are enumerated although the oracle is history-free. Random DC choice sampled by repetition."),
    "C16": dict(
        engine="tlc + h-node",
        technique="TLC exhaustive model checking of Membership.tla (snapshots -> deltas -> latest-value channel -> subscriber -> task distributor / replication cycle) + replay of every behaviour on the real watch_membership_changes task and a real WatchStream subscriber + replay of the read-at-once behaviours on the real store watcher, task distributor and replication cycle with real peers",
        text=("Membership.tla models snapshot sequence -> delta computation -> latest-value channel -> subscriber; TLC checks for every snapshot sequence "
              "(join, leave, address change, rejoin), subscription point and read placement that a caught-up subscriber holds exactly the live "
              "membership (modulo the two listed known findings) and that every delta reports departures with the address they had; every behaviour "
              "is replayed on the real watcher task and a real subscriber, comparing delta contents and the accumulated map."),
        design_ref="DESIGN.md section 7 C16",
        note="Known findings C16-late-subscriber and C16-skipped-delta (latest-value channel of deltas) are recorded in known_findings.json; any other mismatch is a violation. Chitchat's own failure detection is outside the model. The consumers of the events are part of the model (DistTick / PollRound: the store's watcher hands every change to the task distributor and the replication cycle) and are bound by a second replay: the real store watcher, task distributor and replication cycle over a harness-built node handle, with real peer servers; judged by the distributor's live members after its drain, by which peers' storages received the batch built at that tick, and by the replication cycle's live members at the start of its round (keyspace-tracker contents are reported as drift only). Beyond the statement: wait_for_nodes / wait_for_members is specified in WaitFor.tla (model checked; the variation that is content with any one of the nodes is told apart) and the calls of real ChitchatNodes made around every join and departure are judged by Trace_MembershipSource.tla; a difference there is reported as drift, not as a C16 verdict."),
    "C17": dict(
        engine="tlc + h-ec",
        technique="TLC exhaustive exploration of the reference model Storage.tla + replay of every transition on MemStore, SQLite (memory and file) and LMDB with read-back comparison",
        text=("Storage.tla is the map-based reference model of the Storage trait (upsert puts, upsert tombstones, remove_tombstones, reopen). TLC "
              "enumerates every call from every reachable state (2 500 states, 272 900 transitions); each transition is re-executed on the real "
              "backends in fresh keyspaces with boundary ids / timestamps / payloads, and iter_metadata, get, multi_get and the keyspace list are "
              "compared with the model's prediction; persistent backends are closed and reopened on the reopen edges (LMDB: new handle and real environment close)."),
        design_ref="DESIGN.md section 7 C17",
        note="Value space (u64 ids, payload bytes) covered by rotating boundary values, not exhaustively. Quick tier samples every 8th edge on SQLite/LMDB. Bulk calls may list an id twice (the last version stays). LMDB environments are never closed in-process (unsafe while datacake-lmdb's background thread exits); reopen edges are judged in-process on a new handle and by a fresh process opening the files; long LMDB runs are split over child processes. Random call sequences from all four backends are validated by Trace_Storage.tla; they include a bulk write larger than the LMDB backend's map: a refused bulk write must leave exactly the documents it reports as written (event put_failed), also after the reopen that follows."),
    "C02": dict(
        engine="tlc + h-ec",
        technique="TLC exhaustive model checking of Keyspace.tla (actor + storage with every storage outcome) + edge-complete replay on a real KeyspaceActor over a fault-injecting MemStore + long random request streams on long-lived real actors (set vs storage after every request, TLC trace validation of the recorded events)",
        text=("Keyspace.tla models each actor message as will_apply filter -> storage call (ok / failed with nothing written / failed part-way with the reported ids "
              "written) -> set update, with arbitrary timestamps, both sources, re-deliveries and bulk requests carrying the same key twice; TLC checks the "
              "agreement invariant in every reachable state. Every transition is re-executed on a real actor put into the transition's source state; "
              "the set (Serialize reply) and storage (iter_metadata/get incl. bytes) are read back and must describe the same thing."),
        design_ref="DESIGN.md section 7 C02",
        note="Bounds: 2-4 keys, 1-2 origins, 2-4 time values, 2-5 requests, bulk size 2-3, one configuration starting on a storage that already holds tombstones; failed bulk calls report their successful ids in no particular order. MemStore behind the fault wrapper; backends' own fidelity is C17."),
    "C07": dict(
        engine="tlc + h-ec",
        technique="TLC exhaustive model checking of Keyspace.tla with crash points after and inside requests + edge-complete replay (real group abandoned, load_states_from_storage on the same storage) + TLC trace validation of restarts and of kills at a random moment (SIGKILL) on SQLite / LMDB",
        text=("Same model as C02 with Crash after any request and between the storage write and the set update of a single request, followed by Restart = "
              "load_states_from_storage. TLC checks that the rebuilt set is exactly what storage holds and that every acknowledged mutation is still "
              "visible; every crash edge is reproduced on the real code with a storage wrapper that parks the call after the inner write."),
        design_ref="DESIGN.md section 7 C07",
        note="Crash inside bulk requests is not enumerated in the model (single requests only) but exercised on the persistent backends: a real group over SQLite (file) / LMDB is killed (SIGKILL) at a random moment, between two requests or inside one (bulk requests of up to 3 000 documents), and a fresh process rebuilds; Trace_Crash.tla judges the rebuilt set against the storage's metadata scan and against the try / ack log of the killed writer (SIGKILL keeps what the OS has; power loss is out of reach). Persistent backends' reopen is covered by C17; convergence after restart by C01. After every request the node is also started with a storage read error (keyspace list / metadata scan, action FailedStart): the start must be refused, or what it built must be what storage holds."),
    "C19": dict(
        engine="tlc + h-ec",
        technique="TLC-generated population of set states (MC_OrswotOps state graph) transferred through the real ReplicationService/ReplicationClient; undecodable states injected by a fake server",
        text=("The specification supplies the population: every distinct reachable set state of the bounded universes is rebuilt on a real set, served by the real "
              "GetState handler and fetched by the real client; sender and receiver are compared on lookups, tombstones, accept/refuse decisions for every "
              "probe operation and the internal projection. Inflated states (up to 20 000 keys / 200 origins) and undecodable states complete the picture."),
        design_ref="DESIGN.md section 7 C19",
        note="The specification cannot prove anything about rkyv; it provides the states and the equality oracle (section 11)."),
    "C11": dict(
        engine="tlc + h-node",
        technique="TLC exhaustive model checking of ClockActor.tla (tasks, bounded FIFO channel, single actor over HLC.tla) + TLC trace validation of concurrent runs of the real Clock",
        text=("ClockActor.tla composes HLC.tla's send/recv with the channel and the actor loop; TLC checks distinctness, per-task monotonicity and "
              "'a stamp requested after a registration exceeds it' over every interleaving of three scripted tasks. The real Clock is then driven by "
              "2..8 tasks on current-thread and multi-thread runtimes; caller-side start/end events and actor-side hook events share one sequence "
              "number and Trace_ClockActor.tla re-checks the three clauses from sound order facts only."),
        design_ref="DESIGN.md section 7 C11",
        note="Real schedules are sampled (seeded), the model's are exhaustive for its scripts; two directed runs fill the clock's channel before a registration, three cross the actor's back-pressure limit with the clock ahead of the wall clock. HLC.tla itself is bound to the code by C09."),
    "C18": dict(
        engine="tlc + h-ec",
        technique="TLC exhaustive model checking of KeyspaceGroup.tla (steps of get_or_create_keyspace interleaved) + TLC trace validation of concurrent first-use rounds on the real group",
        text=("KeyspaceGroup.tla splits get_or_create_keyspace into read-locked lookup, spawn (after awaits) and write-locked install; TLC checks for every "
              "interleaving of up to 4 tasks that only one state is ever installed and that the state behind a later lookup holds every acknowledged "
              "mutation. Rounds of 2..8 tasks first-using a fresh keyspace run on the real group (current-thread runtime: every await is a deterministic "
              "switch point; multi-thread: sampled); acknowledged ids, the final set and the installation count (hook) are validated by Trace_KeyspaceGroup.tla."),
        design_ref="DESIGN.md section 7 C18",
        note="The current-thread rounds reproduce the double-creation deterministically on the pinned code; multi-thread rounds are a sample."),
    "C01": dict(
        engine="tlc + h-ec",
        technique="TLC exhaustive model checking of small Cluster.tla configs + TLC simulation of larger ones, every converged behaviour replayed on real nodes (real KeyspaceGroup/Clock/services over loopback RPC) step by step, with whole exchanges run by the real poller code, and with real poller rounds using each node's keyspace tracker; TLC trace validation of every keyspace actor of those nodes",
        text=("Cluster.tla composes the actor/set semantics (Actor.tla, Orswot.tla) into N nodes with direct and batch replication over a lossy, duplicating, "
              "reordering network and pairwise anti-entropy whose steps (GetState, Diff, removal half, Fetch, modification half) are independently enabled; "
              "the invariant says that once nothing is pending and every ordered pair completed an exchange started after the last operation, every node "
              "reads exactly the last-writer-wins documents. TLC checks it exhaustively for 2-3 operations and by simulation beyond; each converged "
              "behaviour is replayed step by step on real components and every node's reads (ids, timestamps, bytes) and set/storage agreement are compared "
              "with the specification's expectation."),
        design_ref="DESIGN.md section 7 C01",
        note="Exhaustive only for small bounds; simulation samples the rest. The poller's keyspace tracker is modelled (WithTracker) and bound through real poller rounds; the distributor's aggregation loop has its own specification (Distributor.tla, see C06). The progress watcher of begin_keyspace_sync polls every 2 ms in these runs (guarded hook). System level: two real DatacakeNode clusters driven through the public API at level None (peers learn through the real task distributor); all nodes must end with the same stamp, kind and bytes per document (Trace_Consistency.tla, event `final`), in three keyspaces (same ids with other contents; one keyspace that comes into being last). In tracked mode every behaviour also runs in a second keyspace that receives only what concerns the last key, so that the real poller rounds see keyspaces changing at different moments."),
    "C06": dict(
        engine="tlc + h-ec",
        technique="TLC exhaustive model checking of Consistency.tla + TLC trace validation of calls made through the public API of real loopback clusters with failing replicas",
        text=("Consistency.tla models one client write: any selection the Selector postcondition allows, any subset of replicas refusing or losing their reply, "
              "ack counting and the returned outcome; TLC checks 'Ok => readable on >= Required other nodes' and 'failure is honest'. Real clusters (chitchat "
              "membership, selector, RPC, distributor, poller) are driven through the public handle for every level x kind x refusing subset; each call's "
              "outcome and every node's storage right after it are validated by Trace_Consistency.tla against the same Required()."),
        design_ref="DESIGN.md section 7 C06",
        note="Layouts up to 5 nodes / 2-3 data centres. Lost replies only in the model. Timing-dependent facts are polled, not asserted at an instant. A few calls per cluster are made while one replica answers later than the advertised timeout. Inside the same clusters the task distributors (Distributor.tla) and keyspace actors are trace-validated; differences there are reported as drift, not as C06 verdicts."),
    "C14": dict(
        engine="tlc + h-sim + h-rpc",
        technique="TLC exhaustive model checking of RpcNet.tla + execution of the model's external schedules (and random ones) against the real client/server in a turmoil simulation and on real sockets through a fault-injecting TCP relay, outcomes validated by TLC",
        text=("RpcNet.tla models link state, the lazy connection, request timeouts and concurrent requests; TLC checks at-most-once execution, outcome "
              "classes and the timeout bound over every interleaving of fault events, sends and time, and emits every external schedule. A conductor "
              "task inside a turmoil simulation performs the schedules in simulated time against the real RpcClient/Server (fast and slow handler); "
              "Trace_RpcNet.tla validates every request's outcome (reply identity and payload, handler run count, elapsed time). The same schedules "
              "(a sample) and random ones run in real time against the real hyper transport through a TCP relay of the harness that holds or cuts the link "
              "and can stop a large reply half-way; RpcNet.tla models a reply as head and body and tells the pre-repair behaviour (timeout ending with the head) apart."),
        design_ref="DESIGN.md section 7 C14 and 14.2",
        note="Simulated network (turmoil 0.4) and loopback TCP through a relay. Quick tier runs every 80th model schedule plus 400 random ones in turmoil, every 320th plus 300 random ones on real sockets (real time: a timed request may be 2 s late; without a fault a request may time out honestly, never before its time); thorough every 12th plus 4000 / every 48th plus 3000. Every other request goes through a clone of the configured client. Request timeouts are 500 ms and 2 s in the model's schedules (shorter than / equal to the 2 s connect timeout), also 1 s and 3 s in the random ones."),
}
