"""Shared machinery of the /verif checks: TLC runner, harness builder, evidence
writer, known-finding matcher, violation reporting.  Python stdlib only."""
import json
import os
import re
import shutil
import subprocess
import sys
import time

VERIF = os.path.dirname(os.path.dirname(os.path.abspath(__file__)))
SPEC = os.path.join(VERIF, "spec")
HARNESS = os.path.join(VERIF, "harness")
WORK = os.path.join(VERIF, "work")
EVIDENCE = os.path.join(VERIF, "evidence")
REPLAYS = os.path.join(VERIF, "replays")
TLA_CP = "/opt/veriftools/tla/tla2tools.jar:/opt/veriftools/tla/CommunityModules-deps.jar"


class ToolError(Exception):
    """The machinery failed (TLC crash, build failure, vacuous run...): exit 2."""


class HarnessCrash(Exception):
    """A harness process that runs the real code in-process died (panic exit 101, abort, segfault...).  A crash of
    the code under test is data, not a tool error: it is reported as a violation.  Harnesses use exit code 2 for
    their own troubles (cannot bind a port, missing input...), which stays a tool error."""

    def __init__(self, cmd, code, tail):
        super().__init__("harness crashed (%s): %s" % (code, " ".join(cmd)))
        self.cmd = cmd
        self.code = code
        self.tail = tail


class Ctx:
    def __init__(self, prop, tier, seed):
        self.prop = prop
        self.tier = tier
        self.seed = seed
        self.t0 = time.time()
        alt = os.environ.get("VERIF_REPO")
        # (development aid: a run against another checkout keeps its scratch files apart, so that it can run next to a
        # run of the same check against /repo)
        self.work = os.path.join(WORK, prop) if not alt else os.path.join(WORK, "alt-" + os.path.abspath(alt).strip("/").replace("/", "_"), prop)
        shutil.rmtree(self.work, ignore_errors=True)
        os.makedirs(self.work, exist_ok=True)
        self.violations = []      # list of dicts (each becomes a replay file)
        self.known_hits = []      # list of (finding_id, text)
        self.coverage = {}
        self.assumptions = []
        self.notes = []
        self.replay_mode = False

    def log(self, *a):
        print("[%s %6.1fs]" % (self.prop, time.time() - self.t0), *a, flush=True)

    def path(self, name):
        return os.path.join(self.work, name)


# --------------------------------------------------------------------------- TLC

def cfg_text(spec="Spec", constants=None, invariants=(), properties=(), view=None,
             action_constraints=(), constraints=(), postcondition=None, init=None, next_=None,
             symmetry=None, substitutions=None):
    lines = []
    if init:
        lines += ["INIT %s" % init, "NEXT %s" % next_]
    else:
        lines.append("SPECIFICATION %s" % spec)
    if constants:
        lines.append("CONSTANTS")
        for k, v in constants.items():
            lines.append("  %s = %s" % (k, tla_value(v)))
    if substitutions:
        if not constants:
            lines.append("CONSTANTS")
        for k, v in substitutions.items():
            lines.append("  %s <- %s" % (k, v))
    if view:
        lines.append("VIEW %s" % view)
    if symmetry:
        lines.append("SYMMETRY %s" % symmetry)
    for c in constraints:
        lines.append("CONSTRAINT %s" % c)
    for c in action_constraints:
        lines.append("ACTION_CONSTRAINT %s" % c)
    if invariants:
        lines.append("INVARIANTS " + " ".join(invariants))
    if properties:
        lines.append("PROPERTIES " + " ".join(properties))
    if postcondition:
        lines.append("POSTCONDITION %s" % postcondition)
    lines.append("CHECK_DEADLOCK FALSE")
    return "\n".join(lines) + "\n"


def tla_value(v):
    if isinstance(v, bool):
        return "TRUE" if v else "FALSE"
    if isinstance(v, int):
        return str(v)
    if isinstance(v, str):
        return v                      # raw TLA+ text (model value or expression allowed in cfg)
    if isinstance(v, (set, frozenset)):
        return "{" + ", ".join(tla_value(x) for x in sorted(v, key=str)) + "}"
    if isinstance(v, (list, tuple)):
        return "<<" + ", ".join(tla_value(x) for x in v) + ">>"
    raise ValueError(v)


def tlc_cmd(module, cfg_path, metadir, workers=8, extra=(), xmx="8g", dfs_queue=False, xss=None):
    java = ["java", "-XX:+UseParallelGC", "-Xmx" + xmx]
    if xss:
        java.append("-Xss" + xss)
    if dfs_queue:
        java.append("-Dtlc2.tool.queue.IStateQueue=StateDeque")
    return java + ["-cp", TLA_CP, "tlc2.TLC", "-workers", str(workers), "-metadir", metadir,
                   "-cleanup", "-noGenerateSpecTE", "-config", cfg_path] + list(extra) + \
        [os.path.join(SPEC, module + ".tla")]


STAT_RE = re.compile(r"^(\d+) states generated, (\d+) distinct states found, (\d+) states left on queue")
DEPTH_RE = re.compile(r"depth of the complete state graph search is (\d+)")


def parse_tlc_output(text):
    """Extracts totals, errors and per-action coverage from TLC's messages."""
    out = {"generated": None, "distinct": None, "queue": None, "depth": None,
           "errors": [], "violated": [], "actions": {}, "finished": False}
    for line in text.splitlines():
        m = STAT_RE.match(line)
        if m:
            out["generated"], out["distinct"], out["queue"] = map(int, m.groups())
        m = DEPTH_RE.search(line)
        if m:
            out["depth"] = int(m.group(1))
        if line.startswith("Error:"):
            out["errors"].append(line)
            m = re.search(r"Invariant (\S+) is violated", line)
            if m:
                out["violated"].append(m.group(1))
            m = re.search(r"Action property (\S+) is violated", line)
            if m:
                out["violated"].append(m.group(1))
            if "Temporal properties were violated" in line:
                out["violated"].append("temporal")
        m = re.match(r"^<(\w+) line (\d+), col \d+ to line \d+, col \d+ of module (\w+)>: (\d+):(\d+)", line)
        if m:
            name = m.group(1)
            key = "%s@%s:%s" % (name, m.group(3), m.group(2))
            out["actions"][key] = {"distinct": int(m.group(4)), "taken": int(m.group(5))}
        if line.startswith("Finished in") or "Model checking completed" in line:
            out["finished"] = True
    return out


def run_tlc(ctx, module, cfg, name, workers=8, timeout=900, extra=(), xmx="8g", env=None,
            dfs_queue=False, xss=None, stdout_to=None):
    """Runs TLC; returns (parsed, text).  `stdout_to`: file path to stream stdout to
    (for generation runs whose output is large); then text holds only the tail."""
    cfg_path = ctx.path(name + ".cfg")
    with open(cfg_path, "w") as f:
        f.write(cfg)
    metadir = ctx.path(name + ".md")
    cmd = tlc_cmd(module, cfg_path, metadir, workers, extra, xmx, dfs_queue, xss)
    e = dict(os.environ)
    if env:
        e.update(env)
    t0 = time.time()
    out_path = stdout_to or ctx.path(name + ".out")
    with open(out_path, "w") as f:
        try:
            p = subprocess.run(cmd, stdout=f, stderr=subprocess.STDOUT, timeout=timeout, env=e, cwd=ctx.work)
        except subprocess.TimeoutExpired:
            raise ToolError("TLC timed out after %ss on %s" % (timeout, name))
    shutil.rmtree(metadir, ignore_errors=True)
    with open(out_path, errors="replace") as f:
        text = f.read() if not stdout_to else tail_text(out_path)
    parsed = parse_tlc_output(text)
    parsed["wall_s"] = round(time.time() - t0, 1)
    parsed["exit"] = p.returncode
    parsed["cmd"] = " ".join(cmd)
    return parsed, text


def tail_text(path, n=200000):
    with open(path, "rb") as f:
        f.seek(0, 2)
        size = f.tell()
        f.seek(max(0, size - n))
        return f.read().decode(errors="replace")


def tlc_pipe(ctx, module, cfg, name, consumer_cmd, timeout=1800, xmx="8g", workers=1, extra=()):
    """Runs a generation TLC run and pipes its stdout into `consumer_cmd` (a harness
    replayer that writes TLC's own messages to ctx.path(name+'.tlc'))."""
    cfg_path = ctx.path(name + ".cfg")
    with open(cfg_path, "w") as f:
        f.write(cfg)
    metadir = ctx.path(name + ".md")
    cmd = tlc_cmd(module, cfg_path, metadir, workers, extra, xmx)
    t0 = time.time()
    tlc = subprocess.Popen(cmd, stdout=subprocess.PIPE, stderr=subprocess.STDOUT, cwd=ctx.work)
    cons = subprocess.Popen(consumer_cmd, stdin=tlc.stdout, cwd=ctx.work)
    tlc.stdout.close()
    try:
        cons.wait(timeout=timeout)
        tlc.wait(timeout=60)
    except subprocess.TimeoutExpired:
        tlc.kill()
        cons.kill()
        raise ToolError("generation/replay timed out after %ss on %s" % (timeout, name))
    shutil.rmtree(metadir, ignore_errors=True)
    side = ctx.path(name + ".tlc")
    text = open(side, errors="replace").read() if os.path.exists(side) else ""
    parsed = parse_tlc_output(text)
    parsed["wall_s"] = round(time.time() - t0, 1)
    parsed["exit"] = tlc.returncode
    parsed["consumer_exit"] = cons.returncode
    parsed["cmd"] = " ".join(cmd)
    if cons.returncode not in (0, 2):
        raise HarnessCrash(consumer_cmd, cons.returncode, ["(the replayer died while executing TLC-generated behaviours; see %s)" % ctx.work])
    return parsed, text


def require_clean_mc(ctx, parsed, text, what):
    """A model-checking run on the faithful layer must finish without error."""
    if parsed["violated"]:
        return False
    if parsed["errors"] or parsed["distinct"] is None:
        tail = "\n".join(text.splitlines()[-40:])
        raise ToolError("TLC failed on %s:\n%s" % (what, tail))
    return True


def require_actions(parsed, names, what):
    """Vacuity guard: every named action must have been taken at least once."""
    taken = {}
    for key, v in parsed["actions"].items():
        nm = key.split("@")[0]
        taken[nm] = taken.get(nm, 0) + v["taken"]
    missing = [n for n in names if taken.get(n, 0) == 0]
    if missing:
        raise ToolError("vacuous run (%s): actions never taken: %s" % (what, missing))
    return taken


# --------------------------------------------------------------------------- harness

def harness_dir():
    """The harness workspace to build.  Normally /verif/harness (path dependencies on /repo).  For development
    only, VERIF_REPO=<clean or patched copy of the repository> builds a scratch copy of the harness whose path
    dependencies point there, so that experiments never touch /repo's working tree."""
    repo = os.environ.get("VERIF_REPO")
    if not repo:
        return HARNESS
    repo = os.path.abspath(repo)
    alt = os.path.join(WORK, "harness-" + repo.strip("/").replace("/", "_"))
    os.makedirs(alt, exist_ok=True)
    subprocess.run(["rsync", "-a", "--delete", "--exclude", "target", HARNESS + "/", alt + "/"], check=True)
    for root, _, files in os.walk(alt):
        if "target" in root.split(os.sep):
            continue
        for f in files:
            if f == "Cargo.toml":
                fp = os.path.join(root, f)
                txt = open(fp).read()
                if '"/repo/' in txt:
                    open(fp, "w").write(txt.replace('"/repo/', '"%s/' % repo))
    return alt


def build_harness(ctx, package, extra_args=()):
    t0 = time.time()
    hd = harness_dir()
    cmd = ["cargo", "build", "-p", package] + list(extra_args)
    env = dict(os.environ)
    env["CARGO_NET_OFFLINE"] = "true"
    p = subprocess.run(cmd, cwd=hd, stdout=subprocess.PIPE, stderr=subprocess.STDOUT, env=env, text=True)
    if p.returncode != 0:
        raise ToolError("harness build failed (%s):\n%s" % (package, p.stdout[-6000:]))
    ctx.log("built %s in %.1fs%s" % (package, time.time() - t0, "" if hd == HARNESS else " (against %s)" % os.environ["VERIF_REPO"]))
    return os.path.join(hd, "target", "debug", package)


def run_harness(ctx, cmd, timeout=1800, stdin=None, env=None):
    """Runs a harness command.  Exit 2 = tool error.  Any other failure is a crash of the process that runs the code under
    test: the same command is run once more; a crash that repeats is reported (HarnessCrash -> violation), one that does
    not is noted in the evidence as an unreproduced crash (a verdict needs something that can be replayed)."""
    e = dict(os.environ)
    if env:
        e.update(env)
    for attempt in (1, 2):
        try:
            p = subprocess.run(cmd, cwd=ctx.work, stdout=subprocess.PIPE, stderr=subprocess.PIPE, timeout=timeout,
                               text=True, stdin=stdin if attempt == 1 else None, env=e)
        except subprocess.TimeoutExpired:
            raise ToolError("harness timed out: %s" % " ".join(cmd))
        if p.returncode == 0:
            return p.stdout
        if p.returncode == 2:
            raise ToolError("harness failed (%d): %s\n%s" % (p.returncode, " ".join(cmd), (p.stdout + p.stderr)[-4000:]))
        lines = [l for l in (p.stdout + p.stderr).splitlines() if l.strip() and not l.startswith("  ") and "stack backtrace" not in l]
        if attempt == 1 and stdin is None:
            ctx.log("the harness process crashed (exit %s); running the same command once more" % p.returncode)
            ctx.notes.append("unreproduced crash candidate: %s exited with %s: %s" % (" ".join(cmd[:2]), p.returncode, lines[-2:]))
            continue
        raise HarnessCrash(cmd, p.returncode, lines[-12:])


def load_json(path):
    with open(path) as f:
        return json.load(f)


# --------------------------------------------------------------------------- findings

def known_findings():
    path = os.path.join(VERIF, "known_findings.json")
    if not os.path.exists(path):
        return {"findings": [], "fixed": []}
    return load_json(path)


def findings_for(prop):
    return [f for f in known_findings().get("findings", []) if f["property"] == prop]


# --------------------------------------------------------------------------- verdict

def write_evidence(ctx, level, coverage, assumptions, violations):
    os.makedirs(EVIDENCE, exist_ok=True)
    ev = {
        "property_id": ctx.prop,
        "tier": ctx.tier,
        "seed": ctx.seed,
        "level": level,
        "coverage": coverage,
        "assumptions": assumptions,
        "wall_s": round(time.time() - ctx.t0, 1),
        "violations": violations,
    }
    with open(os.path.join(EVIDENCE, ctx.prop + ".json"), "w") as f:
        json.dump(ev, f, indent=1, sort_keys=True, default=str)
        f.write("\n")


def finish(ctx, level, coverage, assumptions):
    """Writes evidence, replay files, prints verdict lines, returns the exit code."""
    os.makedirs(REPLAYS, exist_ok=True)
    for fid, text in ctx.known_hits:
        print("KNOWN-FINDING: property=%s %s %s" % (ctx.prop, fid, text))
    coverage = dict(coverage)
    coverage["known_findings_hit"] = [fid for fid, _ in ctx.known_hits]
    if ctx.notes:
        coverage["notes"] = list(ctx.notes)
    if not ctx.replay_mode and not os.environ.get("VERIF_REPO"):
        write_evidence(ctx, level, coverage, assumptions, len(ctx.violations))
    if not ctx.violations:
        ctx.log("OK: property held on everything explored (%s tier)" % ctx.tier)
        return 0
    shown = 0
    for i, v in enumerate(ctx.violations[:5]):
        path = os.path.join(REPLAYS, "%s-%s-%d.json" % (ctx.prop, "rerun" if ctx.replay_mode else ctx.tier, i))
        v = dict(v)
        v.setdefault("property", ctx.prop)
        v["seed"] = ctx.seed
        v["tier"] = ctx.tier
        with open(path, "w") as f:
            json.dump(v, f, indent=1, default=str)
        print("VIOLATION property=%s replay=%s" % (ctx.prop, path))
        shown += 1
    if len(ctx.violations) > shown:
        print("(%d further violations not written out)" % (len(ctx.violations) - shown))
    return 1


# --------------------------------------------------------------------------- trace validation (V)

def validate_trace(ctx, module, constants, trace_path, name, timeout=900, extra_env=None, xmx="4g", invariants=(),
                   substitutions=None):
    """Runs a Trace_* module over an NDJSON file (env TRACE).  Returns
    dict(accepted, rejected (payload of the first unmatched event or None), states, wall_s)."""
    cfg = cfg_text(constants=constants, postcondition="Accepted", invariants=invariants, substitutions=substitutions)
    env = {"TRACE": trace_path}
    if extra_env:
        env.update(extra_env)
    parsed, text = run_tlc(ctx, module, cfg, name, workers=1, timeout=timeout, env=env, dfs_queue=True,
                           xss="1g", xmx=xmx)
    rejected = None
    fails = []
    drift = None
    for line in text.splitlines():
        if line.startswith('<<"DRIFT", '):
            drift = json.loads(json.loads(line[len('<<"DRIFT", '):-2]))
        if line.startswith('<<"FAILS", '):
            fails = json.loads(json.loads(line[len('<<"FAILS", '):-2]))["events"]
        if line.startswith('<<"REJECTED", '):
            try:
                rejected = json.loads(json.loads(line[len('<<"REJECTED", '):-2]))
            except Exception:
                rejected = {"raw": line}
    accepted = rejected is None and parsed["distinct"] is not None and "Error:" not in text
    if not accepted and rejected is None:
        raise ToolError("trace validation of %s failed without a REJECTED line:\n%s" % (name, "\n".join(text.splitlines()[-30:])))
    return {"accepted": accepted, "rejected": rejected, "fails": fails, "drift": drift, "states": parsed["distinct"],
            "wall_s": parsed["wall_s"], "cmd": parsed["cmd"]}


def run_tlaps(ctx, module, extra_modules=()):
    """Optional support (never the only support of a claim): proves spec/proofs/<module>.tla with tlapm.
    Returns a dict for the evidence: status proved / unproved / timeout."""
    import re
    d = ctx.path("tlaps_" + module)
    shutil.rmtree(d, ignore_errors=True)
    os.makedirs(d)
    shutil.copy(os.path.join(SPEC, "proofs", module + ".tla"), d)
    for m in extra_modules:
        shutil.copy(os.path.join(SPEC, m + ".tla"), d)
    try:
        p = subprocess.run(["tlapm", "--cleanfp", "--threads", "4", module + ".tla"], cwd=d, stdout=subprocess.PIPE,
                           stderr=subprocess.STDOUT, text=True, timeout=900)
    except subprocess.TimeoutExpired:
        ctx.log("TLAPS timed out on %s; the lemma is optional support, the claim stays at model-checking level" % module)
        return {"module": module, "status": "timeout"}
    m = re.search(r"All (\d+) obligations proved", p.stdout)
    f = re.search(r"(\d+)/(\d+) obligations failed", p.stdout)
    if m:
        ctx.log("TLAPS: all %s obligations of %s.tla proved" % (m.group(1), module))
        return {"module": module, "status": "proved", "obligations": int(m.group(1)), "checker_cmd": "tlapm --cleanfp %s.tla" % module}
    ctx.log("TLAPS did not prove %s.tla (%s); optional support only" % (module, f.group(0) if f else "no result"))
    return {"module": module, "status": "unproved", "detail": f.group(0) if f else p.stdout[-300:]}


def count_lines(path):
    n = 0
    with open(path, "rb") as f:
        for _ in f:
            n += 1
    return n
