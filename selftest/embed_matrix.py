#!/usr/bin/env python3
"""embed_matrix.py: replaces the block between <!-- matrix:begin --> and <!-- matrix:end --> of DESIGN.md with a summary of
selftest/matrix.json (the full table is selftest/matrix.md)."""
import json
import os

VERIF = os.path.dirname(os.path.dirname(os.path.abspath(__file__)))
rows = json.load(open(os.path.join(VERIF, "selftest", "matrix.json")))
stored = sorted(os.listdir(os.path.join(VERIF, "seeded")))
seeds = [r for r in rows if r["kind"] == "seed"]
muts = [r for r in rows if r["kind"] == "mutant"]
caught = [r for r in seeds if r["caught_by"]]
by_owner = [r for r in caught if r["id"][:3] in r["caught_by"]]
by_neighbour = [r for r in caught if r["id"][:3] not in r["caught_by"]]
not_caught = [r for r in seeds if not r["caught_by"]]
no_result = [s for s in stored if s not in {r["id"] for r in seeds}]
mc = [r for r in muts if r["caught_by"]]
pres = [r for r in muts if not r["caught_by"] and r["note"]]
text = []
text.append("Merged result of all runs (`selftest/run*_results.json`, merged by `selftest/matrix.py`; the full table with one row per change is "
            "`selftest/matrix.md`, and every `seeded/<id>/meta.json` lists the checks that were run against it under `checks_run`): "
            "%d seeded changes are stored, %d of them have a recorded run of the quick tier (as it stood at the time of the run named in `checks_run`); %d of those are caught "
            "(%d by the check that owns the property, %d by a neighbouring check: %s)." % (
                len(stored), len(seeds), len(caught), len(by_owner), len(by_neighbour),
                ", ".join("%s by %s" % (r["id"], "/".join(r["caught_by"])) for r in by_neighbour) or "none"))
if not_caught:
    text.append("Not caught or not decided in their last recorded run: %s." % ", ".join("%s (%s)" % (r["id"], r["verdict"]) for r in not_caught))
if no_result:
    text.append("Stored without a recorded run in these files (their runs are described in the text above): %s." % ", ".join(no_result))
text.append("Mutants: %d of %d are caught; the other %d are the property-preserving ones (%s)." % (
    len(mc), len(muts), len(pres), ", ".join(r["id"].split("_")[0] for r in pres)))
p = os.path.join(VERIF, "DESIGN.md")
s = open(p).read()
a = s.index("<!-- matrix:begin -->") + len("<!-- matrix:begin -->")
b = s.index("<!-- matrix:end -->")
s = s[:a] + "\n" + "\n".join(text) + "\n\n" + s[b:]
open(p, "w").write(s)
print("\n".join(text))
