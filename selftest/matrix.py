#!/usr/bin/env python3
"""matrix.py <results.json> [<results.json> ...]: merges self-test result files (later files override earlier ones per
patch), writes selftest/matrix.md (the table of DESIGN.md section 14.5), selftest/matrix.json, and fills
`checks_run` of every seeded/<id>/meta.json."""
import json
import os
import sys

VERIF = os.path.dirname(os.path.dirname(os.path.abspath(__file__)))

# changes that do not break any listed property (judged by reading the code; the checks are right to stay quiet)
PRESERVING = {
    "m03": "dead code: `merge` walks its log with `self.entries` emptied first, so a tombstone of the log never meets a live entry there; "
           "own entries newer than a remote tombstone are handled by the leftovers loop",
    "m05": "the cut-off moves to the newest source: operations are refused earlier, never later, and purged tombstones stay covered; "
           "within the properties' timeliness premise nothing observable changes (shows as drift in C04 / C08 evidence)",
    "m07": "the removed drift check of `recv` is repeated a few lines further down on max(clock, wall, message)",
    "m08": "made to preserve C10: parsing accepts both hex cases",
    "m21": "single removals repaired through the consistency source only make the read-repair source lag, which keeps tombstones longer "
           "(never shorter); reads, convergence and purging stay within the properties",
    "m28": "the keyspace tracker decides which synchronisations may be skipped, not who is addressed: an entry kept for a departed peer is "
           "never consulted again unless the peer comes back, and then the stamps it announces are new ones (shows as drift in C16's evidence)",
    "m29": "a joined entry for an id that is already held only arrives together with the `left` entry of the same id, which is applied first",
    "m22": "the two halves of a batch commute: every entry goes through will_apply with its own stamp (shows as drift only)",
}


def short(name):
    return name.replace(".diff", "").replace("_seed", "")


def main():
    merged = {}
    for path in sys.argv[1:]:
        for rec in json.load(open(path)):
            merged[short(rec["patch"])] = dict(rec, source=os.path.basename(path))
    rows = []
    for key in sorted(merged, key=lambda k: (not k.startswith("C"), k)):
        rec = merged[key]
        checks = rec.get("checks", {})
        caught = sorted(c for c, v in checks.items() if v["exit"] == 1)
        quiet = sorted(c for c, v in checks.items() if v["exit"] == 0)
        broken = sorted(c for c, v in checks.items() if v["exit"] not in (0, 1))
        kind = "seed" if key.startswith("C") else "mutant"
        tag = key.split("_")[0]
        what = ""
        if kind == "seed":
            meta_path = os.path.join(VERIF, "seeded", key, "meta.json")
            if os.path.exists(meta_path):
                meta = json.load(open(meta_path))
                what = meta["summary"].split(". ")[0][:230]
                meta["checks_run"] = [{"check": c, "tier": "quick", "exit": v["exit"], "wall_s": v.get("wall_s"),
                                       "first_lines": v.get("lines", [])[:1], "run": rec["source"]} for c, v in sorted(checks.items())]
                json.dump(meta, open(meta_path, "w"), indent=1)
        else:
            what = key.split("_", 1)[1].replace("_", " ")
        verdict = ("caught by " + ", ".join(caught)) if caught else ("tool error in " + ", ".join(broken) if broken else
                                                                    ("not caught" if tag not in PRESERVING else "quiet (property-preserving)"))
        if rec.get("error"):
            verdict = "not run: " + rec["error"][:80]
        rows.append({"id": key, "kind": kind, "what": what, "caught_by": caught, "quiet": quiet, "tool_error": broken,
                     "verdict": verdict, "note": PRESERVING.get(tag, "")})
    json.dump(rows, open(os.path.join(VERIF, "selftest", "matrix.json"), "w"), indent=1)
    with open(os.path.join(VERIF, "selftest", "matrix.md"), "w") as f:
        f.write("| change | what it does | checks run (quick tier) | result |\n|---|---|---|---|\n")
        for r in rows:
            ran = ", ".join("%s→%s" % (c, "VIOLATION" if c in r["caught_by"] else ("ok" if c in r["quiet"] else "exit 2"))
                            for c in sorted(r["caught_by"] + r["quiet"] + r["tool_error"]))
            res = r["verdict"] + ((": " + r["note"]) if r["note"] else "")
            f.write("| %s | %s | %s | %s |\n" % (r["id"], r["what"].replace("|", "/"), ran, res.replace("|", "/")))
    n_seed = sum(1 for r in rows if r["kind"] == "seed")
    n_seed_c = sum(1 for r in rows if r["kind"] == "seed" and r["caught_by"])
    n_mut = sum(1 for r in rows if r["kind"] == "mutant")
    n_mut_c = sum(1 for r in rows if r["kind"] == "mutant" and r["caught_by"])
    print("seeds caught %d/%d, mutants caught %d/%d (%d of the rest judged property-preserving)" % (
        n_seed_c, n_seed, n_mut_c, n_mut, sum(1 for r in rows if r["kind"] == "mutant" and not r["caught_by"] and r["note"])))


if __name__ == "__main__":
    main()
