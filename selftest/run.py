#!/usr/bin/env python3
"""Self-test of the checks: applies each patch of a list to /repo's working tree, runs the owning
checks (quick tier), undoes the patch, and records exit codes.  Also (optionally) verifies in a scratch
worktree that the patched tree compiles and still passes the unit tests of the crates it touches.

usage: selftest/run.py [--verify-tests] [--only NAME_SUBSTR] [--out results.json] [--dir patches_dir] [--map map.json]
Never run two of these (or any check) at the same time: they share /repo's working tree."""
import argparse
import json
import os
import subprocess
import sys
import time

VERIF = os.path.dirname(os.path.dirname(os.path.abspath(__file__)))
MAP = {   # the owning check first; a second one only where it is cheap and informative
    "m01": ["C05"], "m02": ["C04"], "m03": ["C03"], "m04": ["C04"], "m05": ["C08"],
    "m06": ["C09", "C11"], "m07": ["C09"], "m08": ["C10"], "m09": ["C10"], "m10": ["C12"], "m11": ["C13"],
    "m12": ["C14"], "m13": ["C15"], "m14": ["C15", "C06"], "m15": ["C16"], "m16": ["C11"], "m17": ["C02"],
    "m18": ["C02"], "m19": ["C07"], "m20": ["C06"], "m21": ["C01"], "m22": ["C01"], "m23": ["C17"],
    "m24": ["C17"], "m25": ["C18"], "m26": ["C01"],
    "m27": ["C16"], "m28": ["C16"], "m29": ["C16"], "m30": ["C16"], "m31": ["C01"], "m32": ["C05"], "m33": ["C05"],
}
PRESERVING = {"m08"}


def sh(cmd, **kw):
    return subprocess.run(cmd, shell=isinstance(cmd, str), stdout=subprocess.PIPE, stderr=subprocess.STDOUT, text=True, **kw)


def crates_of(patch_text):
    return sorted({l.split()[1].split("/")[1] for l in patch_text.splitlines() if l.startswith("--- a/")})


def main():
    ap = argparse.ArgumentParser()
    ap.add_argument("--verify-tests", action="store_true")
    ap.add_argument("--only", default="")
    ap.add_argument("--out", default=os.path.join(VERIF, "selftest", "results.json"))
    ap.add_argument("--dir", default=os.path.join(VERIF, "selftest", "patches"))
    ap.add_argument("--map", default="")
    args = ap.parse_args()
    args.dir = os.path.abspath(args.dir)
    args.out = os.path.abspath(args.out)
    mapping = dict(MAP)
    if args.map:
        mapping.update(json.load(open(args.map)))
    if sh("git -C /repo status --porcelain").stdout.strip():
        print("/repo is dirty, refusing to run")
        return 2
    results = []
    if os.path.exists(args.out):
        results = json.load(open(args.out))
    done = {r["patch"] for r in results}
    for name in sorted(os.listdir(args.dir)):
        if not name.endswith(".diff") or name in done or not any(o in name for o in args.only.split(",")):
            continue
        key = name.split("_")[0]
        path = os.path.join(args.dir, name)
        text = open(path).read()
        rec = {"patch": name, "checks": {}, "preserving": key in PRESERVING}
        if args.verify_tests:
            wt = "/tmp/mut"
            sh("git -C %s checkout -- ." % wt)
            a = sh("git -C %s apply %s" % (wt, path))
            env = dict(os.environ, CARGO_TARGET_DIR=wt + "/target")
            ok = a.returncode == 0
            b = sh("cargo build --offline --workspace", cwd=wt, env=env) if ok else a
            rec["compiles"] = ok and b.returncode == 0
            tests_ok = rec["compiles"]
            if rec["compiles"]:
                for crate in crates_of(text):
                    t = sh("cargo test --offline -p %s --lib" % crate, cwd=wt, env=env)
                    tests_ok = tests_ok and t.returncode == 0
            rec["unit_tests_pass"] = tests_ok
            sh("git -C %s checkout -- ." % wt)
        a = sh("git -C /repo apply %s" % path)
        if a.returncode != 0:
            rec["error"] = "patch does not apply: " + a.stdout[-300:]
        else:
            try:
                for chk in mapping.get(key, []):
                    t0 = time.time()
                    r = sh([os.path.join(VERIF, "bin", "check"), chk, "--tier", "quick"], cwd=VERIF)
                    viol = [l for l in r.stdout.splitlines() if l.startswith("VIOLATION") or l.startswith("TOOL-ERROR")]
                    rec["checks"][chk] = {"exit": r.returncode, "wall_s": round(time.time() - t0), "lines": viol[:2]}
            finally:
                sh("git -C /repo checkout -- .")
        results.append(rec)
        json.dump(results, open(args.out, "w"), indent=1)
        print(name, rec.get("error") or {k: v["exit"] for k, v in rec["checks"].items()}, rec.get("compiles"), rec.get("unit_tests_pass"), flush=True)
    # evidence files were overwritten by runs on mutated trees: they must be regenerated on the clean tree
    print("NOTE: re-run the affected checks on the clean tree before committing evidence/")
    return 0


if __name__ == "__main__":
    sys.exit(main())
