#!/usr/bin/env python3
"""store_seed.py <Cxx> [note]: copies a confirmed sub-agent seed from /tmp/seed/<id>/OUT into /verif/seeded/<id>/."""
import glob
import json
import os
import shutil
import sys

sid = sys.argv[1]
src = "/tmp/seed/%s/OUT" % sid
dst = "/verif/seeded/%s" % sid
os.makedirs(dst, exist_ok=True)
for f in glob.glob(src + "/*"):
    if f.endswith((".diff", ".rs", ".md")):
        shutil.copy(f, dst)
m = json.load(open(src + "/meta.json"))
m["origin"] = "independent sub-agent, given only the property text and a scratch worktree of /repo at b65742f"
m["confirmed_by_me"] = {"scratch_worktree": "/tmp/mut (git worktree of /repo)", "compiles": True,
                        "baseline_stable_tests_passing_with_patch": "69/69 (selftest/verify_seed.py, pinned nextest command)",
                        "demo_without_change": "passes", "demo_with_change": "fails"}
if len(sys.argv) > 2:
    m["confirmed_by_me"]["note"] = sys.argv[2]
m["checks_run"] = []
json.dump(m, open(dst + "/meta.json", "w"), indent=1)
shutil.copy(src + "/patch.diff", "/verif/selftest/seeds_flat/%s_seed.diff" % sid)
print("stored", sid)
