#!/usr/bin/env python3
"""store_seed2.py <Cxx> <checks,...>: stores a confirmed second-round seed from /tmp/seed2/<id>/OUT as /verif/seeded/<id>b/."""
import glob, json, os, shutil, sys
sid = sys.argv[1]
checks = sys.argv[2].split(",")
src = "/tmp/seed%s/%s/OUT" % (os.environ.get("SEED_ROUND", "2"), sid)
nid = sid + {"2": "b", "3": "c", "4": "d", "5": "e", "6": "f", "7": "g", "8": "h", "9": "i", "10": "j", "11": "k"}[os.environ.get("SEED_ROUND", "2")]
dst = "/verif/seeded/%s" % nid
os.makedirs(dst, exist_ok=True)
for f in glob.glob(src + "/*"):
    if f.endswith((".diff", ".rs", ".md")) and not f.endswith(".orig"):
        shutil.copy(f, dst)
m = json.load(open(src + "/meta.json"))
ROUND = os.environ.get("SEED_ROUND", "2")
m["origin"] = ("independent sub-agent (round 8), given only the property record (statement, quantifier, why tests cannot settle it, anchor files), a kind of "
               "manifestation to aim for, anchor files to look at first, the note that earlier rounds had produced simple one-site changes, and a scratch worktree of /repo"
               ) if ROUND in ("8", "9") else ("independent sub-agent (rounds 10 and 11), given only the property record (statement, quantifier, why tests cannot settle it, anchor files), a kind of "
               "manifestation to aim for (thresholds / accumulated state, rarely taken error paths, feature combinations, cluster shapes, purge timing, fault points combined with client configuration), "
               "the note which simple ideas earlier rounds had already used, and a scratch worktree of /repo; nothing from /verif") if ROUND in ("10", "11") else ("independent sub-agent (later round), given only the property text, a hint which files to look at, and a scratch "
               "worktree of /repo at 1b3edbd") if os.environ.get("SEED_ROUND", "2") in ("2", "3") else (
               "independent sub-agent (round 4), given only the property record (statement, quantifier, why tests cannot settle it, anchor files), "
               "a kind of manifestation to aim for, and a scratch worktree of /repo")
m["confirmed_by_me"] = {"scratch_worktree": "/tmp/mut (git worktree of /repo)", "compiles": True,
                        "baseline_stable_tests_passing_with_patch": "69/69 (selftest/verify_seed.py, pinned nextest command)",
                        "demo_without_change": "passes", "demo_with_change": "fails",
                        "log": open("/tmp/seed%s/logs/%s.log" % (os.environ.get("SEED_ROUND", "2"), sid)).read()[-1500:]}
m["checks_run"] = []
json.dump(m, open(dst + "/meta.json", "w"), indent=1)
shutil.copy(src + "/patch.diff", "/verif/selftest/seeds_flat/%s_seed.diff" % nid)
mp = json.load(open("/verif/selftest/seed_map.json"))
mp[nid] = checks
json.dump(mp, open("/verif/selftest/seed_map.json", "w"), indent=1)
print("stored", nid)
