#!/usr/bin/env python3
"""tries_to_results.py <round dir> <suffix letter> <out.json>: turns the log of selftest/try_round.sh (<round dir>/logs/try.out and
try_<id>_<check>.log; the last attempt per seed and check counts) into a result file selftest/matrix.py understands."""
import json
import os
import re
import sys

rd, suf, out = sys.argv[1], sys.argv[2], sys.argv[3]
last = {}
for line in open(os.path.join(rd, "logs", "try.out")):
    m = re.match(r"([Cm]\d\d[a-z]?) (C\d\d) -> exit (\d+)", line)
    if m:
        last[(m.group(1), m.group(2))] = int(m.group(3))
recs = {}
for (sid, chk), code in sorted(last.items()):
    log = os.path.join(rd, "logs", "try_%s_%s.log" % (sid, chk))
    lines = [l.strip() for l in open(log, errors="replace") if l.startswith("VIOLATION")] if os.path.exists(log) else []
    name = sid.rstrip("x")
    if name.startswith("m"):
        import glob
        patch = os.path.basename(glob.glob(os.path.join(os.path.dirname(os.path.abspath(__file__)), "patches", name + "_*.diff"))[0])
    else:
        patch = "%s%s_seed.diff" % (name, "" if suf == "-" else suf)
    rec = recs.setdefault(name, {"patch": patch, "checks": {}, "preserving": False})
    rec["checks"][chk] = {"exit": code, "lines": lines[:2], "how": "selftest/try_round.sh (scratch worktree of /repo with the change applied, VERIF_REPO)"}
json.dump(list(recs.values()), open(out, "w"), indent=1)
print(len(recs), "seeds")
