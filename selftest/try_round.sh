#!/bin/bash
# try_round.sh <round dir> <suffix> <id:check[,check]> ...  - runs the owning checks (quick tier) against a scratch worktree of /repo
# with the seeded change applied (never /repo itself; no evidence written), then removes the worktree and the harness copy.
R=$1; SUF=$2; shift 2
mkdir -p $R/logs
for spec in "$@"; do
  id=${spec%%:*}; checks=${spec#*:}
  wt=/tmp/wt/r$SUF$id
  rm -rf $wt; git -C /repo worktree prune
  git -C /repo worktree add -q --detach $wt HEAD || { echo "$id worktree failed" >> $R/logs/try.out; continue; }
  git -C $wt apply $R/$id/OUT/patch.diff || git -C $wt apply -3 $R/$id/OUT/patch.diff || { echo "$id patch does not apply" >> $R/logs/try.out; continue; }
  for chk in ${checks//,/ }; do
    (cd /verif && VERIF_REPO=$wt bin/check $chk --tier quick) > $R/logs/try_${id}_$chk.log 2>&1
    echo "$id $chk -> exit $? $(grep -c VIOLATION $R/logs/try_${id}_$chk.log) violation lines" >> $R/logs/try.out
  done
  git -C /repo worktree remove --force $wt
  rm -rf /verif/work/harness-tmp_wt_r$SUF$id /verif/work/alt-tmp_wt_r$SUF$id
done
