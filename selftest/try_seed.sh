#!/bin/bash
# try_seed.sh <patch.diff> <name> <check> [tier]: runs a check against a scratch worktree of /repo with the patch applied
# (development aid: /repo's working tree is not touched, no evidence is written).
set -e
patch=$(readlink -f "$1"); name=$2; chk=$3; tier=${4:-quick}
wt=/tmp/wt/$name
if [ ! -d "$wt" ]; then
  mkdir -p /tmp/wt
  git -C /repo worktree add -q --detach "$wt" HEAD
  git -C "$wt" apply "$patch"
fi
cd /verif && VERIF_REPO="$wt" bin/check "$chk" --tier "$tier"
