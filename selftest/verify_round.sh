#!/bin/bash
# verify_round.sh <round dir> <id> <dest dir of demo (relative)> <demo file> -- <test command...>
# Confirms a seeded change in the scratch worktree /tmp/mut: compiles, the 69 stable baseline tests pass with it,
# the demonstration passes without it and fails with it. Log: <round dir>/logs/<id>.log
R=$1; ID=$2; DEST=$3; DEMO=$4; shift 5
LOG=$R/logs/$ID.log; mkdir -p $R/logs
WT=${MUT_WT:-/tmp/mut}
[ -d $WT ] || git -C /repo worktree add -q --detach $WT HEAD
git -C $WT checkout -q --detach $(git -C /repo rev-parse HEAD); git -C $WT checkout -q -- .; git -C $WT clean -fdq -e target
export CARGO_TARGET_DIR=$WT/target CARGO_NET_OFFLINE=true
{
echo "== verify_seed"; python3 /verif/selftest/verify_seed.py $R/$ID/OUT/patch.diff
mkdir -p $WT/$DEST; cp $R/$ID/OUT/$DEMO $WT/$DEST/
[ -n "$PRE" ] && (cd $WT && eval "$PRE")
echo "== demo WITHOUT change"; (cd $WT && "$@" 2>&1 | grep -E "^test result|panicked at|^error" | head -30)
git -C $WT apply $R/$ID/OUT/patch.diff
echo "== demo WITH change"; (cd $WT && "$@" 2>&1 | grep -E "^test result|panicked at|^error" | head -30)
git -C $WT checkout -q -- .; git -C $WT clean -fdq -e target
} > $LOG 2>&1
echo "$ID done"; grep -E "compiles|NOT PASSING|test result|== demo" $LOG
