#!/usr/bin/env python3
"""verify_seed.py <patch.diff>: applies the patch in the scratch worktree /tmp/mut (never /repo), builds the
workspace and runs the pinned nextest command there, and reports whether all 69 stable baseline tests still pass."""
import json
import os
import subprocess
import sys
import xml.etree.ElementTree as ET

WT = os.environ.get("MUT_WT", "/tmp/mut")
patch = os.path.abspath(sys.argv[1])
env = dict(os.environ, CARGO_TARGET_DIR=WT + "/target", CARGO_NET_OFFLINE="true")
env.pop("RUSTFLAGS", None)


def sh(cmd):
    return subprocess.run(cmd, shell=True, cwd=WT, env=env, stdout=subprocess.PIPE, stderr=subprocess.STDOUT, text=True)


sh("git checkout -q -- .")
a = sh("git apply %s" % patch)
if a.returncode:
    print("patch does not apply:", a.stdout)
    sys.exit(2)
try:
    b = sh("cargo build --offline --workspace")
    if b.returncode:
        print("DOES NOT COMPILE\n", b.stdout[-1500:])
        sys.exit(1)
    sh("cargo nextest run --workspace --no-fail-fast --tool-config-file pb:/w/lib/nextest.toml --profile pb --test-threads 8 --offline")
    junit = WT + "/target/nextest/pb/junit.xml"
    passed = set()
    for suite in ET.parse(junit).getroot().iter("testsuite"):
        for case in suite.iter("testcase"):
            if not any(c.tag in ("failure", "error") for c in case):
                passed.add("%s::%s" % (suite.get("name"), case.get("name")))
    want = set(json.load(open("/root/.vp/BASELINE.json"))["stable_pass"])
    missing = sorted(want - passed)
    print("compiles: yes; stable baseline tests passing with the patch: %d/%d" % (len(want & passed), len(want)))
    for m in missing:
        print("  NOT PASSING:", m)
    sys.exit(0 if not missing else 1)
finally:
    sh("git checkout -q -- .")
