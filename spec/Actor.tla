-------------------------------- MODULE Actor --------------------------------
(* The keyspace actor's handlers as pure operators over (set, storage), for    *)
(* models that compose several nodes (Cluster.tla).  Same semantics as the     *)
(* actions of Keyspace.tla with the storage call succeeding:                   *)
(*   will_apply filter on the pre-state -> storage write -> set update,        *)
(*   bulk requests sorted by stamp before filtering/writing (code after fix).  *)
(* A state is a record [st |-> Orswot set, store |-> key -> NoneE | [ts,tomb]].*)
EXTENDS Orswot

NoneE == [absent |-> TRUE]
Entry(ts, tomb) == [ts |-> ts, tomb |-> tomb]
EmptyNode == [st |-> EmptySet, store |-> [k \in Keys |-> NoneE]]

\* on_set / on_del
ActSingle(s, isDel, src, k, ts) ==
  IF ~WillApply(s.st, k, ts) THEN s
  ELSE [st |-> (IF isDel THEN DeleteWS(s.st, src, k, ts) ELSE InsertWS(s.st, src, k, ts))[2],
        store |-> [s.store EXCEPT ![k] = Entry(ts, isDel)]]

\* stable sort of a sequence of <<k, ts>> by stamp
RECURSIVE ActSort(_)
ActSort(items) ==
  IF items = <<>> THEN <<>>
  ELSE LET i == CHOOSE i \in 1..Len(items) :
                  \A j \in 1..Len(items) : /\ ~Lt(items[j][2], items[i][2])
                                           /\ (items[j][2] = items[i][2] => i <= j)
       IN <<items[i]>> \o ActSort(SubSeq(items, 1, i - 1) \o SubSeq(items, i + 1, Len(items)))

RECURSIVE ActApply(_, _, _, _)
ActApply(s, src, items, isDel) ==
  IF items = <<>> THEN s
  ELSE LET e == items[1]
           st2 == (IF isDel THEN DeleteWS(s.st, src, e[1], e[2]) ELSE InsertWS(s.st, src, e[1], e[2]))[2]
       IN ActApply([st |-> st2, store |-> [s.store EXCEPT ![e[1]] = Entry(e[2], isDel)]], src, Tail(items), isDel)

\* on_multi_set / on_multi_del: items is a sequence of <<k, ts>>
ActBulk(s, isDel, src, items) ==
  LET sorted == ActSort(items)
      Keep[i \in 0..Len(sorted)] ==
        IF i = 0 THEN <<>> ELSE IF WillApply(s.st, sorted[i][1], sorted[i][2]) THEN Append(Keep[i - 1], sorted[i]) ELSE Keep[i - 1]
  IN ActApply(s, src, Keep[Len(sorted)], isDel)

\* on_purge_tombstones (storage succeeds)
ActPurge(s) ==
  LET r == Purge(s.st)
      keys == { p[1] : p \in r[1] }
  IN [st |-> r[2], store |-> [k \in Keys |-> IF k \in keys THEN NoneE ELSE s.store[k]]]

\* load_states_from_storage
ActRebuild(s) ==
  LET all == { <<k, s.store[k].ts, s.store[k].tomb>> : k \in { j \in Keys : s.store[j] # NoneE } }
      RECURSIVE Go(_, _)
      Go(acc, rest) ==
        IF rest = {} THEN acc
        ELSE LET e == CHOOSE x \in rest : \A y \in rest : Le(x[2], y[2])
             IN Go((IF e[3] THEN DeleteWS(acc, 0, e[1], e[2]) ELSE InsertWS(acc, 0, e[1], e[2]))[2], rest \ {e})
  IN [st |-> Go(EmptySet, all), store |-> s.store]

\* what reads return: key -> stamp of the live document, or None
Reads(s) == [k \in Keys |-> IF s.store[k] # NoneE /\ ~s.store[k].tomb THEN s.store[k].ts ELSE None]

\* C02 on one node
ActAgree(s) ==
  \A k \in Keys :
     /\ (s.st.ent[k] # None)  <=> (s.store[k] # NoneE /\ ~s.store[k].tomb)
     /\ (s.st.ent[k] # None)  => (s.store[k] # NoneE /\ s.store[k].ts = s.st.ent[k])
     /\ (s.st.dead[k] # None) <=> (s.store[k] # NoneE /\ s.store[k].tomb)
     /\ (s.st.dead[k] # None) => (s.store[k] # NoneE /\ s.store[k].ts = s.st.dead[k])
=============================================================================
