------------------------------ MODULE ClockActor ------------------------------
(* The node clock (datacake-node/src/clock.rs): any number of tasks share a   *)
(* `Clock` handle; requests travel over one bounded FIFO channel to a single   *)
(* actor that owns the HLC.                                                    *)
(*   get_time     : enqueue Get, wait for the reply                            *)
(*   register_ts  : enqueue Register(remote) and return (fire and forget);     *)
(*                  a stamp carrying the clock's own node id is dropped        *)
(* The actor handles one event per step with HLC.tla's send / recv; the wall   *)
(* clock it reads is an arbitrary input per step.                              *)
EXTENDS HLC, TLC

CONSTANTS Tasks, Script,   \* Script[t]: sequence of calls [op |-> "get"] or [op |-> "reg", ts |-> remote stamp]
          Walls, Self, Cap

VARIABLES clock, queue, pc, waiting, results, regDone, needGt
\* pc[t]      : index of the next call of task t
\* waiting[t] : TRUE while task t waits for the reply of a get_time
\* results[t] : stamps returned to task t, in order
\* regDone    : remote stamps whose register_ts call has returned
\* needGt[t]  : regDone as it was when task t's pending get_time started
vars == <<clock, queue, pc, waiting, results, regDone, needGt>>

Init ==
  /\ clock = <<0, 0, Self>>
  /\ queue = <<>>
  /\ pc = [t \in Tasks |-> 1]
  /\ waiting = [t \in Tasks |-> FALSE]
  /\ results = [t \in Tasks |-> <<>>]
  /\ regDone = {}
  /\ needGt = [t \in Tasks |-> {}]

CallGet(t) ==
  /\ pc[t] <= Len(Script[t]) /\ ~waiting[t] /\ Script[t][pc[t]].op = "get"
  /\ Len(queue) < Cap
  /\ queue' = Append(queue, [kind |-> "get", task |-> t])
  /\ waiting' = [waiting EXCEPT ![t] = TRUE]
  /\ needGt' = [needGt EXCEPT ![t] = regDone]
  /\ UNCHANGED <<clock, pc, results, regDone>>

CallRegister(t) ==
  /\ pc[t] <= Len(Script[t]) /\ ~waiting[t] /\ Script[t][pc[t]].op = "reg"
  /\ LET r == Script[t][pc[t]].ts
     IN IF r[3] = Self
        THEN UNCHANGED queue
        ELSE Len(queue) < Cap /\ queue' = Append(queue, [kind |-> "reg", ts |-> r])
  /\ regDone' = regDone \cup {Script[t][pc[t]].ts}
  /\ pc' = [pc EXCEPT ![t] = @ + 1]
  /\ UNCHANGED <<clock, waiting, results, needGt>>

\* run_clock, one event
ActorStep(w) ==
  /\ queue # <<>>
  /\ LET e == Head(queue)
     IN IF e.kind = "get"
        THEN LET r == HlcSend(clock, w)
             IN /\ r.ok                                   \* (the actor `expect`s success)
                /\ clock' = r.clock
                /\ results' = [results EXCEPT ![e.task] = Append(@, r.out)]
                /\ waiting' = [waiting EXCEPT ![e.task] = FALSE]
                /\ pc' = [pc EXCEPT ![e.task] = @ + 1]
        ELSE /\ clock' = HlcRecv(clock, w, e.ts).clock     \* failures are ignored, clock unchanged
             /\ UNCHANGED <<results, waiting, pc>>
  /\ queue' = Tail(queue)
  /\ UNCHANGED <<regDone, needGt>>

Next == (\E t \in Tasks : CallGet(t) \/ CallRegister(t)) \/ (\E w \in Walls : ActorStep(w))
Spec == Init /\ [][Next]_vars

----------------------------------------------------------------------------
\* C11
AllResults == UNION { { results[t][i] : i \in 1..Len(results[t]) } : t \in Tasks }
Count == LET RECURSIVE S(_) S(T) == IF T = {} THEN 0 ELSE LET t == CHOOSE x \in T : TRUE IN Len(results[t]) + S(T \ {t}) IN S(Tasks)
C11_Distinct == Cardinality(AllResults) = Count
C11_TaskMonotone == \A t \in Tasks : \A i \in 1..(Len(results[t]) - 1) : Lt(results[t][i], results[t][i + 1])
\* a stamp requested after a remote stamp was registered exceeds it, unless the remote stamp could not be
\* accepted (same node id, or further ahead of every wall clock reading than the drift)
Acceptable(r) == r[3] # Self /\ \A w \in Walls : r[1] - w <= Drift
C11_AfterRegister ==
  [][ \A t \in Tasks : (Len(results'[t]) > Len(results[t])) =>
        \A r \in needGt[t] : Acceptable(r) => Lt(r, results'[t][Len(results'[t])]) ]_vars
=============================================================================
