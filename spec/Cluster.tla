------------------------------- MODULE Cluster -------------------------------
(* A cluster of datacake nodes replicating one keyspace.                       *)
(*                                                                             *)
(* Per node: the keyspace actor's set and storage (Actor.tla), the largest     *)
(* time the node's hybrid clock has seen, and the task distributor's queue.    *)
(* Client operations (put / del / put_many / del_many) are applied locally     *)
(* through the consistency source, sent directly to every other node (a        *)
(* consistency level only selects which of those direct messages exist;        *)
(* "not sent" is the same as "lost") and queued for the next batch broadcast.  *)
(* The network is a bag: any message may be delivered, lost, delivered again   *)
(* later (duplication) and overtaken.  A batch is applied the way the handler  *)
(* does it: removals first, then modifications, as two actor messages.         *)
(* Anti-entropy between an ordered pair (n pulls from p) is a sequence of      *)
(* independently enabled steps, exactly the poller's:                          *)
(*    GetState -> Diff -> { RemovalHalf || Fetch -> ApplyModified } -> Finish  *)
(* Fetch reads the peer's storage as it is at that moment.                     *)
(* Time: `now` is the global time; node clocks may run ahead of it by up to    *)
(* MaxSkew.  With Purge enabled, `Tick` advances time subject to the           *)
(* timeliness guard of C08 (see TimelyToAdvance).                              *)
EXTENDS Actor, TLC, Json

CONSTANTS CNodes,     \* cluster node ids (= origin ids, a subset of Nodes)
          Times,      \* time values operations may carry
          MaxOps, MaxDup,
          MaxExch,    \* bound on the number of repair exchanges started
          WithBatch, WithBulk, WithRestart, WithPurge,
          NoDirect,     \* TRUE: no direct replication messages and no batches at all: repair exchanges do all the work
          WithTracker,  \* TRUE: the poller skips a peer whose keyspace change stamp equals the one of its last successful sync
          SplitGetState, \* TRUE: the peer's GetState handler is two steps (read the change stamp, then serialize the state), other
                         \* requests may reach the peer's keyspace actor in between
          StampLast,    \* FALSE: the code's order (stamp first).  TRUE only to show that the other order breaks C01_TrackerFixpoint
          MaxSkew,
          EmitTrace, MinOpsToEmit

VARIABLES node,    \* n -> [st, store]
          clk,     \* n -> largest time the node's clock has issued or received
          ops,     \* set of issued operations [k, ts, del]
          net,     \* set of messages in flight
          queue,   \* n -> sequence of mutations waiting for the next batch
          rep,     \* <<n, p>> -> state of n's repair exchange against p
          done,    \* <<n, p>> -> an exchange that started after the last operation has completed
          chg,     \* n -> the keyspace's change counter (inc_change_timestamp; tracked only WithTracker)
          trk,     \* <<n, p>> -> p's change counter at n's last successful sync against p (KeyspaceTracker), 0 = none
          seen,    \* n -> the <<k, ts>> items that were presented to n's keyspace actor (tracked only WithPurge)
          dups, exch, now, hist
vars == <<node, clk, ops, net, queue, rep, done, chg, trk, seen, dups, exch, now, hist>>
MCView == [node |-> node, clk |-> clk, ops |-> ops, net |-> net, queue |-> queue, rep |-> rep, done |-> done, chg |-> chg, trk |-> trk, seen |-> seen, dups |-> dups, exch |-> exch, now |-> now]

Pairs == { p \in CNodes \X CNodes : p[1] # p[2] }
Idle == [phase |-> "idle"]

Init ==
  /\ node = [n \in CNodes |-> EmptyNode]
  /\ clk = [n \in CNodes |-> 0]
  /\ ops = {}
  /\ net = {}
  /\ queue = [n \in CNodes |-> <<>>]
  /\ rep = [p \in Pairs |-> Idle]
  /\ done = [p \in Pairs |-> FALSE]
  /\ chg = [n \in CNodes |-> 1]
  /\ trk = [p \in Pairs |-> 0]
  /\ seen = [n \in CNodes |-> {}]
  /\ dups = 0
  /\ exch = 0
  /\ now = 0
  /\ hist = <<>>

\* inc_change_timestamp: single requests bump the counter only when they were applied, bulk requests always
Bump(n, before, after, bulk) == chg' = IF WithTracker /\ (bulk \/ before # after) THEN [chg EXCEPT ![n] = @ + 1] ELSE chg
Log(e) == hist' = IF EmitTrace THEN Append(hist, e) ELSE hist
SetOfSeq(q) == { q[i] : i \in 1..Len(q) }
See(n, its) == seen' = IF WithPurge THEN [seen EXCEPT ![n] = @ \cup its] ELSE seen

----------------------------------------------------------------------------
\* client operations

\* the keys of one operation, as the sequence of <<k, ts>> the actor / payload carries
ItemsOf(keys, ts) ==
  LET RECURSIVE S(_) S(K) == IF K = {} THEN <<>> ELSE LET k == CHOOSE x \in K : \A y \in K : x <= y IN << <<k, ts>> >> \o S(K \ {k})
  IN S(keys)

Issue(n, isDel, keys, t) ==
  LET ts == <<t, 0, n>>
      items == ItemsOf(keys, ts)
      bulk == Cardinality(keys) > 1
      local == IF bulk THEN ActBulk(node[n], isDel, 0, items) ELSE ActSingle(node[n], isDel, 0, items[1][1], ts)
      msg(to) == [to |-> to, kind |-> IF bulk THEN "multi" ELSE "single", del |-> isDel, items |-> items, cts |-> t,
                  removed |-> <<>>, modified |-> <<>>]
  IN /\ Cardinality(ops) < MaxOps
     /\ t > clk[n]                              \* the clock never goes back, and moves past everything it received
     /\ t >= now /\ t <= now + MaxSkew           \* node clocks run at most MaxSkew ahead of global time
     /\ node' = [node EXCEPT ![n] = local]
     /\ clk' = [clk EXCEPT ![n] = t]
     /\ ops' = ops \cup { [k |-> k, ts |-> ts, del |-> isDel] : k \in keys }
     /\ net' = IF NoDirect THEN net ELSE net \cup { msg(to) : to \in CNodes \ {n} }
     /\ queue' = IF WithBatch /\ ~NoDirect THEN [queue EXCEPT ![n] = Append(@, [del |-> isDel, items |-> items])] ELSE queue
     /\ done' = [p \in Pairs |-> FALSE]
     /\ rep' = [p \in Pairs |-> IF rep[p].phase = "idle" THEN rep[p] ELSE [rep[p] EXCEPT !.fresh = FALSE]]
     /\ See(n, SetOfSeq(items))
     /\ Bump(n, node[n], local, bulk)
     /\ UNCHANGED <<trk, dups, exch, now>>
     /\ Log([a |-> "issue", n |-> n, del |-> isDel, keys |-> keys, t |-> t])

\* the distributor's tick: everything queued goes out as one batch to every other node
BatchTick(n) ==
  LET Cat(isDel) == LET RECURSIVE C(_) C(q) == IF q = <<>> THEN <<>> ELSE (IF q[1].del = isDel THEN q[1].items ELSE <<>>) \o C(Tail(q))
                    IN C(queue[n])
      msg(to) == [to |-> to, kind |-> "batch", del |-> FALSE, items |-> <<>>, cts |-> clk[n],
                  removed |-> Cat(TRUE), modified |-> Cat(FALSE)]
  IN /\ WithBatch /\ queue[n] # <<>>
     /\ net' = IF NoDirect THEN net ELSE net \cup { msg(to) : to \in CNodes \ {n} }
     /\ queue' = [queue EXCEPT ![n] = <<>>]
     /\ UNCHANGED <<node, clk, ops, rep, done, chg, trk, seen, dups, exch, now>>
     /\ Log([a |-> "tick", n |-> n])

----------------------------------------------------------------------------
\* the network

ApplyMsg(s, m) ==
  CASE m.kind = "single" -> ActSingle(s, m.del, 0, m.items[1][1], m.items[1][2])
    [] m.kind = "multi"  -> ActBulk(s, m.del, 0, m.items)
    [] m.kind = "batch"  -> IF m.removed = <<>> THEN s ELSE ActBulk(s, TRUE, 0, m.removed)     \* first half: removals
    [] m.kind = "batch2" -> IF m.modified = <<>> THEN s ELSE ActBulk(s, FALSE, 0, m.modified)   \* second half

\* a batch whose removals were applied stays in flight as "batch2" until its modifications are applied
After(m) == IF m.kind = "batch" THEN {[m EXCEPT !.kind = "batch2"]} ELSE {}

Deliver(m, keep) ==
  /\ m \in net
  /\ keep => (dups < MaxDup /\ m.kind # "batch2")
  /\ node' = [node EXCEPT ![m.to] = ApplyMsg(@, m)]
  /\ clk' = [clk EXCEPT ![m.to] = IF m.cts > @ THEN m.cts ELSE @]
  /\ net' = (IF keep THEN net ELSE net \ {m}) \cup After(m)
  /\ dups' = IF keep THEN dups + 1 ELSE dups
  /\ See(m.to, IF m.kind = "batch" THEN SetOfSeq(m.removed) ELSE IF m.kind = "batch2" THEN SetOfSeq(m.modified) ELSE SetOfSeq(m.items))
  /\ Bump(m.to, node[m.to], ApplyMsg(node[m.to], m), m.kind # "single")
  /\ UNCHANGED <<ops, queue, rep, done, trk, exch, now>>
  /\ Log([a |-> "deliver", m |-> m, keep |-> keep])

Lose(m) ==
  /\ m \in net /\ m.kind # "batch2"
  /\ net' = net \ {m}
  /\ UNCHANGED <<node, clk, ops, queue, rep, done, chg, trk, seen, dups, exch, now>>
  /\ Log([a |-> "lose", m |-> m])

----------------------------------------------------------------------------
\* anti-entropy: n pulls from p

SyncClocks(n, p) == LET m == IF clk[n] > clk[p] THEN clk[n] ELSE clk[p] IN [clk EXCEPT ![n] = m, ![p] = m]

GetState(n, p) ==
  /\ ~SplitGetState
  /\ rep[<<n, p>>].phase = "idle"
  /\ exch < MaxExch
  /\ WithTracker => trk[<<n, p>>] # chg[p]       \* the poll says p's keyspace changed since the last sync
  /\ exch' = exch + 1
  /\ rep' = [rep EXCEPT ![<<n, p>>] = [phase |-> "got", snap |-> node[p].st, fresh |-> TRUE, lu |-> chg[p]]]
  /\ clk' = SyncClocks(n, p)                   \* request and reply carry the clocks' stamps (register_ts on both sides)
  /\ UNCHANGED <<node, ops, net, queue, done, chg, trk, seen, dups, now>>
  /\ Log([a |-> "getstate", n |-> n, p |-> p])

\* replication_impl.rs, Handler<GetState>: `keyspace.send(LastUpdated)` and `keyspace.send(Serialize)` are two requests to
\* the peer's keyspace actor; a mutation may be handled between them.  The stamp is read first, so what the poller will
\* remember as synchronised is never newer than the state it was handed.
ReadStamp(n, p) ==
  /\ SplitGetState
  /\ rep[<<n, p>>].phase = "idle"
  /\ exch < MaxExch
  /\ WithTracker => trk[<<n, p>>] # chg[p]
  /\ exch' = exch + 1
  /\ rep' = [rep EXCEPT ![<<n, p>>] = [phase |-> "stamped", fresh |-> TRUE, lu |-> chg[p], snap |-> node[p].st]]
  /\ clk' = SyncClocks(n, p)
  /\ UNCHANGED <<node, ops, net, queue, done, chg, trk, seen, dups, now>>
  /\ Log([a |-> "readstamp", n |-> n, p |-> p])

TakeState(n, p) ==
  LET r == rep[<<n, p>>]
  IN /\ r.phase = "stamped"
     /\ rep' = [rep EXCEPT ![<<n, p>>] = [phase |-> "got", fresh |-> r.fresh,
                                          snap |-> IF StampLast THEN r.snap ELSE node[p].st,
                                          lu |-> IF StampLast THEN chg[p] ELSE r.lu]]
     \* the reply carries the peer's clock; the request carried the caller's (when it was sent - taking the later reading
     \* here only leaves out schedules, a model time is a lower bound for what a node may issue next)
     /\ clk' = SyncClocks(n, p)
     /\ UNCHANGED <<node, ops, net, queue, done, chg, trk, seen, dups, exch, now>>
     /\ Log([a |-> "takestate", n |-> n, p |-> p])

DiffStep(n, p) ==
  LET r == rep[<<n, p>>]
      d == Diff(node[n].st, r.snap)
  IN /\ r.phase = "got"
     /\ rep' = [rep EXCEPT ![<<n, p>>] = [phase |-> "diffed", fresh |-> r.fresh, lu |-> r.lu, mods |-> d[1], rem |-> d[2],
                                          remDone |-> (d[2] = {}), fetched |-> "no", docs |-> {}, modDone |-> FALSE]]
     /\ UNCHANGED <<node, clk, ops, net, queue, done, chg, trk, seen, dups, exch, now>>
     /\ Log([a |-> "diff", n |-> n, p |-> p])

SeqOf(S) == LET RECURSIVE Q(_) Q(T) == IF T = {} THEN <<>> ELSE LET e == CHOOSE x \in T : \A y \in T : x[1] <= y[1] IN <<e>> \o Q(T \ {e}) IN Q(S)

RemovalHalf(n, p) ==
  LET r == rep[<<n, p>>]
  IN /\ r.phase = "diffed" /\ ~r.remDone
     /\ node' = [node EXCEPT ![n] = ActBulk(@, TRUE, 1, SeqOf(r.rem))]
     /\ rep' = [rep EXCEPT ![<<n, p>>].remDone = TRUE]
     /\ See(n, r.rem)
     /\ Bump(n, node[n], ActBulk(node[n], TRUE, 1, SeqOf(r.rem)), Cardinality(r.rem) > 1)
     /\ UNCHANGED <<clk, ops, net, queue, done, trk, dups, exch, now>>
     /\ Log([a |-> "removals", n |-> n, p |-> p])

\* the peer answers with the documents it holds NOW for the listed ids (live ones only)
Fetch(n, p) ==
  LET r == rep[<<n, p>>]
      ids == { e[1] : e \in r.mods }
  IN /\ r.phase = "diffed" /\ r.fetched = "no"
     /\ rep' = [rep EXCEPT ![<<n, p>>].fetched = "yes",
                           ![<<n, p>>].docs = { <<k, node[p].store[k].ts>> : k \in { j \in ids : node[p].store[j] # NoneE /\ ~node[p].store[j].tomb } }]
     /\ clk' = SyncClocks(n, p)
     /\ UNCHANGED <<node, ops, net, queue, done, chg, trk, seen, dups, exch, now>>
     /\ Log([a |-> "fetch", n |-> n, p |-> p])

ApplyModified(n, p) ==
  LET r == rep[<<n, p>>]
  IN /\ r.phase = "diffed" /\ r.fetched = "yes" /\ ~r.modDone
     /\ node' = [node EXCEPT ![n] = IF r.docs = {} THEN @ ELSE ActBulk(@, FALSE, 1, SeqOf(r.docs))]
     /\ rep' = [rep EXCEPT ![<<n, p>>].modDone = TRUE]
     /\ See(n, r.docs)
     /\ chg' = IF WithTracker /\ r.mods # {} THEN [chg EXCEPT ![n] = @ + 1] ELSE chg
     /\ UNCHANGED <<clk, ops, net, queue, done, trk, dups, exch, now>>
     /\ Log([a |-> "modified", n |-> n, p |-> p])

Finish(n, p) ==
  LET r == rep[<<n, p>>]
  IN /\ r.phase = "diffed" /\ r.remDone /\ r.modDone
     /\ rep' = [rep EXCEPT ![<<n, p>>] = Idle]
     /\ done' = [done EXCEPT ![<<n, p>>] = (@ \/ r.fresh)]
     /\ trk' = IF WithTracker THEN [trk EXCEPT ![<<n, p>>] = r.lu] ELSE trk
     /\ UNCHANGED <<node, clk, ops, net, queue, chg, seen, dups, exch, now>>
     /\ Log([a |-> "finish", n |-> n, p |-> p])

----------------------------------------------------------------------------
\* restart, purge, time

\* the node stops and starts again on its storage: the set is rebuilt, its exchanges and its batch queue are gone
Restart(n) ==
  /\ WithRestart
  /\ node' = [node EXCEPT ![n] = ActRebuild(@)]
  /\ rep' = [p \in Pairs |-> IF p[1] = n THEN Idle ELSE rep[p]]
  /\ queue' = [queue EXCEPT ![n] = <<>>]
  /\ trk' = [p \in Pairs |-> IF p[1] = n THEN 0 ELSE trk[p]]            \* the tracker lives in memory
  /\ chg' = IF WithTracker THEN [chg EXCEPT ![n] = @ + 1] ELSE chg       \* a fresh change stamp is drawn at load
  /\ UNCHANGED <<clk, ops, net, done, seen, dups, exch, now>>
  /\ Log([a |-> "restart", n |-> n])

PurgeAt(n) ==
  /\ WithPurge
  /\ node' = [node EXCEPT ![n] = ActPurge(@)]
  /\ UNCHANGED <<clk, ops, net, queue, rep, done, chg, trk, seen, dups, exch, now>>
  /\ Log([a |-> "purge", n |-> n])

\* C08's premise: every operation reaches every replica within less than the forgiveness period of its
\* timestamp.  Time may only advance to t if every operation that some node has not yet been presented
\* (directly, by batch or by a repair half - never by inference) stays younger than F at time t.
Presented(n, o) == <<o.k, o.ts>> \in seen[n]
TimelyToAdvance(t) == \A o \in ops : \A n \in CNodes : Presented(n, o) \/ t < o.ts[1] + F
TickTime ==
  /\ WithPurge
  /\ now + 1 \in Times
  /\ TimelyToAdvance(now + 1)
  /\ now' = now + 1
  /\ UNCHANGED <<node, clk, ops, net, queue, rep, done, chg, trk, seen, dups, exch>>
  /\ Log([a |-> "time", t |-> now + 1])

----------------------------------------------------------------------------
KeySets == IF WithBulk THEN (SUBSET Keys) \ {{}} ELSE { {k} : k \in Keys }

Next ==
  \/ \E n \in CNodes, d \in BOOLEAN, ks \in KeySets, t \in Times : Issue(n, d, ks, t)
  \/ \E n \in CNodes : BatchTick(n)
  \/ \E m \in net : Deliver(m, FALSE) \/ Deliver(m, TRUE) \/ Lose(m)
  \/ \E p \in Pairs : GetState(p[1], p[2]) \/ ReadStamp(p[1], p[2]) \/ TakeState(p[1], p[2]) \/ DiffStep(p[1], p[2]) \/ RemovalHalf(p[1], p[2])
                      \/ Fetch(p[1], p[2]) \/ ApplyModified(p[1], p[2]) \/ Finish(p[1], p[2])
  \/ \E n \in CNodes : Restart(n) \/ PurgeAt(n)
  \/ TickTime

Spec == Init /\ [][Next]_vars

----------------------------------------------------------------------------
\* properties

Quiet == /\ net = {}
         /\ \A n \in CNodes : queue[n] = <<>>
         /\ \A p \in Pairs : rep[p].phase = "idle"
AllExchanged == \A p \in Pairs : done[p]
Converged == Quiet /\ AllExchanged

\* C01 (and the global clause of C08 when Purge/TickTime are enabled): all nodes return the
\* last-writer-wins documents of everything that was issued
C01_Converges == Converged => \A n \in CNodes : Reads(node[n]) = LWWLive(ops)
\* the poller's fixpoint: nothing in flight and every tracker entry equals the peer's change stamp, so no exchange
\* would be started any more - then the cluster must have converged (the keyspace tracker never skips a needed sync)
TrackerIdle == /\ net = {} /\ \A n \in CNodes : queue[n] = <<>>
               /\ \A p \in Pairs : rep[p].phase = "idle" /\ trk[p] = chg[p[2]]
C01_TrackerFixpoint == (WithTracker /\ TrackerIdle) => \A n \in CNodes : Reads(node[n]) = LWWLive(ops)
\* C05 at cluster level: once every pair has exchanged, no node has anything left to fetch from any other
C05_NothingLeft == Converged => \A p \in Pairs : Diff(node[p[1]].st, node[p[2]].st) = <<{}, {}>>
\* C02 at cluster level: after every completed actor request set and storage agree on every node
C02_Agree == \A n \in CNodes : ActAgree(node[n])
\* used to show that the antecedent of C01 is reachable (expected to be violated)
NeverConverged == ~(Converged /\ ops # {})

\* (a CONSTRAINT: returning FALSE ends the simulated trace once a converged state has been emitted)
Emit == IF EmitTrace /\ Converged /\ ops # {} /\ Cardinality(ops) >= MinOpsToEmit
        THEN PrintT(<<"BEHAVIOUR", ToJson([hist |-> hist, ops |-> ops, expect |-> LWWLive(ops)])>>) /\ FALSE
        ELSE TRUE
=============================================================================
