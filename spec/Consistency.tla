----------------------------- MODULE Consistency -----------------------------
(* One client write (put / put_many / del / del_many) at consistency level L  *)
(* (datacake-eventual-consistency/src/lib.rs):                                *)
(*   select replicas -> stamp -> apply locally -> queue for the batch ->      *)
(*   send to every selected replica -> count acknowledgements:                *)
(*   Ok iff every selected replica acknowledged, otherwise                    *)
(*   ConsistencyFailure{responses, required = number selected}.               *)
(* A selected replica may refuse (storage error), or apply and lose its reply.*)
(* The selection is any result the Selector's postcondition allows.           *)
EXTENDS Selector, TLC

CONSTANTS Layouts

VARIABLES phase, layout, level, sel, refusing, silent, applied, acks, local, queued, result
vars == <<phase, layout, level, sel, refusing, silent, applied, acks, local, queued, result>>

Init == /\ phase = "start" /\ layout = <<>> /\ level = "None" /\ sel = {} /\ refusing = {} /\ silent = {}
        /\ applied = {} /\ acks = {} /\ local = FALSE /\ queued = FALSE /\ result = [kind |-> "none"]

\* select_nodes fails: nothing else happens (no local write)
SelectFails(l, lv) ==
  /\ phase = "start" /\ AllowedErr(l, lv)
  /\ layout' = l /\ level' = lv /\ phase' = "done" /\ result' = [kind |-> "notenough"]
  /\ UNCHANGED <<sel, refusing, silent, applied, acks, local, queued>>

\* selection succeeded; `bad` replicas refuse the write, `mute` replicas apply it but their reply is lost
Select(l, lv, s, bad, mute) ==
  /\ phase = "start"
  /\ s \subseteq Others(l) /\ Cardinality(s) >= Required(l, lv)
  /\ lv \in {"One", "Two", "Three"} => Cardinality(s) = Required(l, lv)
  /\ bad \subseteq Others(l) /\ mute \subseteq Others(l) \ bad
  /\ layout' = l /\ level' = lv /\ sel' = s /\ refusing' = bad /\ silent' = mute
  /\ local' = TRUE /\ queued' = TRUE                       \* local actor message, then Mutation registered
  /\ phase' = "fanout"
  /\ UNCHANGED <<applied, acks, result>>

FanOut ==
  /\ phase = "fanout"
  /\ applied' = sel \ refusing
  /\ acks' = sel \ (refusing \cup silent)
  /\ phase' = "count"
  /\ UNCHANGED <<layout, level, sel, refusing, silent, local, queued, result>>

Return ==
  /\ phase = "count"
  /\ result' = IF acks = sel THEN [kind |-> "ok"]
               ELSE [kind |-> "failure", responses |-> Cardinality(acks), required |-> Cardinality(sel)]
  /\ phase' = "done"
  /\ UNCHANGED <<layout, level, sel, refusing, silent, applied, acks, local, queued>>

Next == \/ \E l \in Layouts, lv \in Levels : SelectFails(l, lv)
        \/ \E l \in Layouts, lv \in Levels : \E s, bad, mute \in SUBSET Others(l) : Select(l, lv, s, bad, mute)
        \/ FanOut \/ Return
Spec == Init /\ [][Next]_vars

\* C06
C06_OkMeansReplicated ==
  (phase = "done" /\ result.kind = "ok") => /\ local
                                           /\ Cardinality(applied) >= Required(layout, level)
C06_FailureIsHonest ==
  (phase = "done" /\ result.kind = "failure") => /\ result.responses = Cardinality(acks)
                                                /\ result.responses < result.required
                                                /\ Cardinality(applied) >= result.responses
                                                /\ local /\ queued
=============================================================================
