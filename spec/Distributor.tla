---------------------------- MODULE Distributor ----------------------------
(* The task distributor of datacake-eventual-consistency                      *)
(* (src/replication/distributor.rs): callers hand it mutations and membership *)
(* changes through an unbounded FIFO channel; once per batching interval the  *)
(* service task drains the channel, applies the membership changes to its     *)
(* view of the live members, groups the mutations by keyspace into one        *)
(* BatchPayload (puts and deletes apart, documents in arrival order) and      *)
(* sends that batch to every live member.                                     *)
(*                                                                            *)
(*   chan    : the channel, a sequence of operations                          *)
(*   live    : the service's view of the live members                         *)
(*   batches : what has been sent so far, in order:                           *)
(*             [put : ks -> seq of items, del : ks -> seq of items, to : set] *)
(*   handed  : every item ever handed in, in hand-in order (history)          *)
(* An item is an opaque value (document id and stamp).                        *)
EXTENDS Naturals, Sequences, FiniteSets

CONSTANTS Keyspaces, Items, Nodes, MaxOps

VARIABLES chan, live, batches, handed
vars == <<chan, live, batches, handed>>

Mut(kind, ks, its) == [op |-> "mut", kind |-> kind, ks |-> ks, items |-> its]
IsPut(o) == o.op = "mut" /\ o.kind \in {"put", "mput"}
IsDel(o) == o.op = "mut" /\ o.kind \in {"del", "mdel"}

Init == chan = <<>> /\ live = {} /\ batches = <<>> /\ handed = <<>>

\* TaskDistributor::mutation
Hand(kind, ks, its) ==
  /\ Len(handed) < MaxOps
  /\ \A i \in 1..Len(its) : \A j \in 1..Len(handed) : handed[j] # its[i]     \* every item is handed in once
  /\ \A i, j \in 1..Len(its) : i # j => its[i] # its[j]
  /\ chan' = Append(chan, Mut(kind, ks, its))
  /\ handed' = handed \o its
  /\ UNCHANGED <<live, batches>>

\* TaskDistributor::membership_change
Membership(joined, left) ==
  /\ Len(chan) < MaxOps
  /\ chan' = Append(chan, [op |-> "members", joined |-> joined, left |-> left])
  /\ UNCHANGED <<live, batches, handed>>

\* the documents of the drained operations for one keyspace, in arrival order (register_mutation)
RECURSIVE Collect(_, _, _)
Collect(ops, ks, puts) ==
  IF ops = <<>> THEN <<>>
  ELSE (IF (IF puts THEN IsPut(ops[1]) ELSE IsDel(ops[1])) /\ ops[1].ks = ks THEN ops[1].items ELSE <<>>)
       \o Collect(Tail(ops), ks, puts)

\* the members after the drained membership changes, applied in order (left first, then joined, as the code does)
RECURSIVE LiveAfter(_, _)
LiveAfter(l, ops) ==
  IF ops = <<>> THEN l
  ELSE LiveAfter(IF ops[1].op = "members" THEN (l \ ops[1].left) \cup ops[1].joined ELSE l, Tail(ops))

BatchOf(ops, members) ==
  [put |-> [ks \in Keyspaces |-> Collect(ops, ks, TRUE)],
   del |-> [ks \in Keyspaces |-> Collect(ops, ks, FALSE)],
   to  |-> members]
IsEmptyBatch(b) == \A ks \in Keyspaces : b.put[ks] = <<>> /\ b.del[ks] = <<>>

\* one tick of the service: everything in the channel is drained; a batch goes out only if it carries something
Tick ==
  /\ chan # <<>>
  /\ LET l2 == LiveAfter(live, chan)
         b == BatchOf(chan, l2)
     IN /\ live' = l2
        /\ batches' = IF IsEmptyBatch(b) THEN batches ELSE Append(batches, b)
  /\ chan' = <<>>
  /\ UNCHANGED handed

Next ==
  \/ \E kind \in {"put", "del"}, ks \in Keyspaces, i \in Items : Hand(kind, ks, <<i>>)
  \/ \E kind \in {"mput", "mdel"}, ks \in Keyspaces, i, j \in Items : Hand(kind, ks, <<i, j>>)
  \/ \E n \in Nodes : Membership({n}, {}) \/ Membership({}, {n})
  \/ Tick
Spec == Init /\ [][Next]_vars

----------------------------------------------------------------------------
\* properties

SeqToSet(s) == { s[i] : i \in 1..Len(s) }
ItemsOfBatch(b) == UNION { SeqToSet(b.put[ks]) \cup SeqToSet(b.del[ks]) : ks \in Keyspaces }
InChan == UNION { SeqToSet(chan[i].items) : i \in { j \in 1..Len(chan) : chan[j].op = "mut" } }

\* every item handed in is either still queued or in exactly one batch, exactly once there; nothing else is ever sent
ExactlyOnce ==
  /\ \A i \in SeqToSet(handed) :
       LET where == { n \in 1..Len(batches) : i \in ItemsOfBatch(batches[n]) }
       IN IF i \in InChan THEN where = {} ELSE Cardinality(where) = 1
  /\ \A n \in 1..Len(batches) :
       /\ ItemsOfBatch(batches[n]) \subseteq SeqToSet(handed)
       /\ \A ks \in Keyspaces : Len(batches[n].put[ks]) + Len(batches[n].del[ks])
                                 = Cardinality(SeqToSet(batches[n].put[ks]) \cup SeqToSet(batches[n].del[ks]))

\* position of an item in the hand-in history
Pos(i) == CHOOSE p \in 1..Len(handed) : handed[p] = i
\* within a keyspace and a kind, items leave in the order they were handed in, also across batches
Ordered(s) == \A a, b \in 1..Len(s) : a < b => Pos(s[a]) < Pos(s[b])
FifoPerKeyspace ==
  \A ks \in Keyspaces :
    /\ \A n \in 1..Len(batches) : Ordered(batches[n].put[ks]) /\ Ordered(batches[n].del[ks])
    /\ \A n, m \in 1..Len(batches) : n < m =>
         /\ \A x \in SeqToSet(batches[n].put[ks]), y \in SeqToSet(batches[m].put[ks]) : Pos(x) < Pos(y)
         /\ \A x \in SeqToSet(batches[n].del[ks]), y \in SeqToSet(batches[m].del[ks]) : Pos(x) < Pos(y)
\* a batch is never empty
NoEmptyBatch == \A n \in 1..Len(batches) : ~IsEmptyBatch(batches[n])
=============================================================================
