------------------------------- MODULE Gossip -------------------------------
(* The gossip transport of a node (datacake-node/src/rpc/chitchat_transport.rs, *)
(* rpc/services/chitchat_impl.rs): chitchat's messages travel as RPC requests   *)
(* to the peer's ChitchatService, which puts (source address, message) into a   *)
(* bounded inbox with try_send - a full inbox drops the message, which gossip   *)
(* tolerates - and the node's chitchat socket takes them out in arrival order.  *)
(* `send` returns once the peer's service has answered, so a message is in the  *)
(* peer's inbox (or dropped) when its send returns.  A send to an address       *)
(* nobody listens on fails and delivers nothing.                                *)
(* Not a listed property; the membership snapshots of C16 are built from what   *)
(* this transport delivers.                                                     *)
EXTENDS Naturals, Sequences, FiniteSets, TLC

CONSTANTS Nodes,      \* nodes with a running server
          Ghost,      \* an address nobody listens on
          Cap,        \* inbox capacity
          MaxSends

VARIABLES inbox,      \* n -> sequence of [src, tag]
          sends,      \* number of sends so far (the tag of the next message)
          sentTo,     \* n -> the messages addressed to n whose send returned Ok, in order
          dropped,    \* messages dropped at a full inbox
          got         \* n -> the messages n's socket has received, in order
vars == <<inbox, sends, sentTo, dropped, got>>

Init ==
  /\ inbox = [n \in Nodes |-> <<>>]
  /\ sends = 0
  /\ sentTo = [n \in Nodes |-> <<>>]
  /\ dropped = {}
  /\ got = [n \in Nodes |-> <<>>]

Msg(a, t) == [src |-> a, tag |-> t]

\* GrpcConnection::send + ChitchatService::on_message
Send(a, b) ==
  /\ sends < MaxSends /\ a # b
  /\ sends' = sends + 1
  /\ IF b = Ghost
     THEN UNCHANGED <<inbox, sentTo, dropped>>                       \* the send fails, nothing is delivered
     ELSE /\ sentTo' = [sentTo EXCEPT ![b] = Append(@, Msg(a, sends + 1))]
          /\ IF Len(inbox[b]) < Cap
             THEN inbox' = [inbox EXCEPT ![b] = Append(@, Msg(a, sends + 1))] /\ UNCHANGED dropped
             ELSE dropped' = dropped \cup {Msg(a, sends + 1)} /\ UNCHANGED inbox
  /\ UNCHANGED got

\* GrpcConnection::recv
Recv(n) ==
  /\ inbox[n] # <<>>
  /\ got' = [got EXCEPT ![n] = Append(@, Head(inbox[n]))]
  /\ inbox' = [inbox EXCEPT ![n] = Tail(@)]
  /\ UNCHANGED <<sends, sentTo, dropped>>

Next == (\E a \in Nodes, b \in Nodes \cup {Ghost} : Send(a, b)) \/ (\E n \in Nodes : Recv(n))
Spec == Init /\ [][Next]_vars

----------------------------------------------------------------------------
\* what a node receives is what was sent to it, unchanged, in order, each message at most once,
\* minus what a full inbox dropped
RECURSIVE Without(_, _)
Without(s, D) == IF s = <<>> THEN <<>> ELSE (IF Head(s) \in D THEN <<>> ELSE <<Head(s)>>) \o Without(Tail(s), D)
G_Delivery == \A n \in Nodes : got[n] \o inbox[n] = Without(sentTo[n], dropped)
G_Bounded == \A n \in Nodes : Len(inbox[n]) <= Cap
G_NothingFromNowhere == \A n \in Nodes : \A i \in 1..Len(got[n]) : got[n][i].src \in Nodes \ {n}
=============================================================================
