-------------------------------- MODULE HLC --------------------------------
(* Faithful layer for HLCTimestamp::send / ::recv (datacake-crdt/src/         *)
(* timestamp.rs).  A clock is a stamp <<time, counter, node>>; `time` and the *)
(* wall clock reading are in 4 ms units (the stamp's resolution; the code     *)
(* truncates the wall clock to it before use).  The wall clock is an input of *)
(* every call and may stall or jump backwards.                                *)
EXTENDS Timestamp, Integers

CONSTANTS Drift,       \* MAX_CLOCK_DRIFT in 4 ms units (4100 s = 1 025 000)
          CounterMax   \* 65 535

Max2(a, b) == IF a >= b THEN a ELSE b
SatSub(a, b) == IF a >= b THEN a - b ELSE 0

Fail(c, e) == [ok |-> FALSE, err |-> e, clock |-> c, out |-> None]

\* HLCTimestamp::send
HlcSend(c, wall) ==
  LET tsNew == Max2(c[1], wall)
  IN IF SatSub(tsNew, wall) > Drift THEN Fail(c, "ClockDrift")
     ELSE IF c[1] = tsNew /\ c[2] = CounterMax THEN Fail(c, "Overflow")
     ELSE LET cn == IF c[1] = tsNew THEN c[2] + 1 ELSE 0
              nc == <<tsNew, cn, c[3]>>
          IN [ok |-> TRUE, err |-> "", clock |-> nc, out |-> nc]

\* HLCTimestamp::recv
HlcRecv(c, wall, m) ==
  IF c[3] = m[3] THEN Fail(c, "DuplicatedNode")
  ELSE IF SatSub(m[1], wall) > Drift THEN Fail(c, "ClockDrift")
  ELSE LET tsNew == Max2(Max2(c[1], wall), m[1])
       IN IF SatSub(tsNew, wall) > Drift THEN Fail(c, "ClockDrift")
          ELSE LET both == tsNew = c[1] /\ tsNew = m[1]
                   base == IF both THEN Max2(c[2], m[2])
                           ELSE IF tsNew = c[1] THEN c[2]
                           ELSE IF tsNew = m[1] THEN m[2]
                           ELSE -1
               IN IF base = CounterMax THEN Fail(c, "Overflow")
                  ELSE LET nc == <<tsNew, base + 1, c[3]>>
                       IN [ok |-> TRUE, err |-> "", clock |-> nc, out |-> <<tsNew, base + 1, m[3]>>]

----------------------------------------------------------------------------
\* Property layer (C09), phrased over one call: pre-clock c, post-clock c2, the newest stamp
\* issued or accepted before (hi, possibly None), result r.

\* a successful send: new, own node id, not further ahead of the wall clock than the drift
SendOk(c, hi, wall, c2, out) ==
  /\ c2 = out
  /\ out[3] = c[3]
  /\ LtOpt(hi, out)
  /\ Lt(c, out)
  /\ out[1] - wall <= Drift
\* a successful recv: the clock moved past the message and past itself, keeps its node id
RecvOk(c, m, c2) ==
  /\ Lt(m, c2)
  /\ Lt(c, c2)
  /\ c2[3] = c[3]
\* any failure leaves the clock untouched
Failed(c, c2) == c2 = c
=============================================================================
