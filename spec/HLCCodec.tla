----------------------------- MODULE HLCCodec ------------------------------
(* The encodings of HLCTimestamp (datacake-crdt/src/timestamp.rs):            *)
(*   packed u64  = seconds:32 | fractional:8 | counter:16 | node:8            *)
(*   text        = "{seconds}-{fractional:0>4}-{counter:0>4X}-{node:0>4}"     *)
(*   FromStr     = splitn(4, '-'), u64 / u8 / u16 (radix 16) / u8 parsers     *)
(* TLC integers are 32 bit, so 32-bit seconds are a pair of 16-bit limbs      *)
(* <<hi, lo>> and the packed u64 is a 4-tuple of 16-bit limbs (most           *)
(* significant first); text is a sequence of one-character strings.           *)
(*                                                                            *)
(* A timestamp value is a record [s |-> <<hi, lo>>, f |-> 0..249,             *)
(* c |-> 0..65535, n |-> 0..255].                                             *)
EXTENDS Naturals, Sequences, FiniteSets

----------------------------------------------------------------------------
\* order

LexLt(a, b) ==   \* sequences of naturals of equal length
  \E i \in 1..Len(a) : a[i] < b[i] /\ \A j \in 1..(i - 1) : a[j] = b[j]

Fields(x) == <<x.s[1], x.s[2], x.f, x.c, x.n>>
\* the order the properties demand: (time at 4 ms resolution, counter, node)
TsLt(a, b) == LexLt(Fields(a), Fields(b))

----------------------------------------------------------------------------
\* packing: pack() / the accessors

Pack(x) == << x.s[1], x.s[2], x.f * 256 + (x.c \div 256), (x.c % 256) * 256 + x.n >>
Unpack(l) == [ s |-> <<l[1], l[2]>>, f |-> l[3] \div 256, c |-> (l[3] % 256) * 256 + (l[4] \div 256), n |-> l[4] % 256 ]
U64Lt(a, b) == LexLt(a, b)     \* comparison of the packed integers

----------------------------------------------------------------------------
\* decimal / hex text

DecDigits == <<"0", "1", "2", "3", "4", "5", "6", "7", "8", "9">>
HexUpper  == <<"0", "1", "2", "3", "4", "5", "6", "7", "8", "9", "A", "B", "C", "D", "E", "F">>
HexLower  == <<"0", "1", "2", "3", "4", "5", "6", "7", "8", "9", "a", "b", "c", "d", "e", "f">>
IsDec(ch) == \E i \in 1..10 : DecDigits[i] = ch
DecVal(ch) == (CHOOSE i \in 1..10 : DecDigits[i] = ch) - 1
IsHex(ch) == \E i \in 1..16 : HexUpper[i] = ch \/ HexLower[i] = ch
HexVal(ch) == (CHOOSE i \in 1..16 : HexUpper[i] = ch \/ HexLower[i] = ch) - 1

\* decimal digits of a small natural (< 2^31), no padding
RECURSIVE NatDec(_)
NatDec(v) == IF v < 10 THEN <<DecDigits[v + 1]>> ELSE NatDec(v \div 10) \o <<DecDigits[(v % 10) + 1]>>

\* decimal digits of a 32-bit value held in two 16-bit limbs: long division by ten
RECURSIVE LimbDec(_)
LimbDec(p) ==
  IF p[1] = 0 THEN NatDec(p[2])
  ELSE LET qhi == p[1] \div 10
           t   == (p[1] % 10) * 65536 + p[2]
       IN LimbDec(<<qhi, t \div 10>>) \o <<DecDigits[(t % 10) + 1]>>

RECURSIVE HexDigitsOf(_)
HexDigitsOf(v) == IF v < 16 THEN <<HexUpper[v + 1]>> ELSE HexDigitsOf(v \div 16) \o <<HexUpper[(v % 16) + 1]>>

PadLeft(s, width) == [i \in 1..(IF Len(s) >= width THEN 0 ELSE width - Len(s)) |-> "0"] \o s

\* Display
Format(x) == LimbDec(x.s) \o <<"-">> \o PadLeft(NatDec(x.f), 4) \o <<"-">>
             \o PadLeft(HexDigitsOf(x.c), 4) \o <<"-">> \o PadLeft(NatDec(x.n), 4)

----------------------------------------------------------------------------
\* FromStr

\* str::splitn(4, '-'): at most four fields, the last one keeps the remainder
RECURSIVE SplitN(_, _)
SplitN(s, n) ==
  IF n = 1 \/ ~(\E i \in 1..Len(s) : s[i] = "-") THEN <<s>>
  ELSE LET i == CHOOSE i \in 1..Len(s) : s[i] = "-" /\ \A j \in 1..(i - 1) : s[j] # "-"
       IN <<SubSeq(s, 1, i - 1)>> \o SplitN(SubSeq(s, i + 1, Len(s)), n - 1)

\* integer parsers of the standard library: optional leading '+', then one or more digits
StripPlus(s) == IF Len(s) > 0 /\ s[1] = "+" THEN Tail(s) ELSE s
WellFormedDec(s) == LET d == StripPlus(s) IN Len(d) > 0 /\ \A i \in 1..Len(d) : IsDec(d[i])
WellFormedHex(s) == LET d == StripPlus(s) IN Len(d) > 0 /\ \A i \in 1..Len(d) : IsHex(d[i])

RECURSIVE StripZeros(_)
StripZeros(d) == IF Len(d) > 1 /\ d[1] = "0" THEN StripZeros(Tail(d)) ELSE d

\* d <= m for canonical (no leading zeros) decimal digit strings
DecLe(d, m) == \/ Len(d) < Len(m)
               \/ Len(d) = Len(m) /\ (d = m \/ LexLt([i \in 1..Len(d) |-> DecVal(d[i])], [i \in 1..Len(m) |-> DecVal(m[i])]))

U32Max == <<"4", "2", "9", "4", "9", "6", "7", "2", "9", "5">>
U64Max == <<"1", "8", "4", "4", "6", "7", "4", "4", "0", "7", "3", "7", "0", "9", "5", "5", "1", "6", "1", "5">>

\* value of a canonical decimal string known to be <= 2^32 - 1, as two 16-bit limbs
RECURSIVE DecToLimbs(_, _)
DecToLimbs(d, acc) ==
  IF Len(d) = 0 THEN acc
  ELSE LET t == acc[2] * 10 + DecVal(d[1])
       IN DecToLimbs(Tail(d), <<acc[1] * 10 + (t \div 65536), t % 65536>>)

RECURSIVE DecToNat(_, _)
DecToNat(d, acc) == IF Len(d) = 0 THEN acc ELSE DecToNat(Tail(d), acc * 10 + DecVal(d[1]))
RECURSIVE HexToNat(_, _)
HexToNat(d, acc) == IF Len(d) = 0 THEN acc ELSE HexToNat(Tail(d), acc * 16 + HexVal(d[1]))

Err == [ok |-> FALSE]

\* add `carry` (0 or 1) to a 32-bit limb pair; <<65536, 0>> marks overflow past 2^32 - 1
AddCarry(p, carry) ==
  IF carry = 0 THEN p
  ELSE IF p[2] < 65535 THEN <<p[1], p[2] + 1>>
  ELSE <<p[1] + 1, 0>>

\* HLCTimestamp::from_str.  A text is accepted iff it has four fields that parse as
\* u64 / u8 / u16 (hex) / u8 and the resulting time fits the 32-bit seconds field;
\* a fractional part >= 250 (>= one second) carries into the seconds.
Parse(s) ==
  LET fs == SplitN(s, 4)
  IN IF Len(fs) < 4 THEN Err
     ELSE IF ~WellFormedDec(fs[1]) \/ ~WellFormedDec(fs[2]) \/ ~WellFormedHex(fs[3]) \/ ~WellFormedDec(fs[4]) THEN Err
     ELSE LET sd == StripZeros(StripPlus(fs[1]))
              fd == StripZeros(StripPlus(fs[2]))
              cd == StripZeros(StripPlus(fs[3]))
              nd == StripZeros(StripPlus(fs[4]))
          IN IF ~DecLe(sd, U64Max) \/ Len(fd) > 3 \/ Len(cd) > 4 \/ Len(nd) > 3 THEN Err
             ELSE IF DecToNat(fd, 0) > 255 \/ DecToNat(nd, 0) > 255 THEN Err
             ELSE IF ~DecLe(sd, U32Max) THEN Err               \* seconds beyond the 32-bit field
             ELSE LET f  == DecToNat(fd, 0)
                      s2 == AddCarry(DecToLimbs(sd, <<0, 0>>), f \div 250)
                  IN IF s2[1] > 65535 THEN Err                 \* the carry overflowed the seconds
                     ELSE [ok |-> TRUE, ts |-> [s |-> s2, f |-> f % 250, c |-> HexToNat(cd, 0), n |-> DecToNat(nd, 0)]]

----------------------------------------------------------------------------
\* C10 on the specification itself (checked by TLC over the grids)

Valid(x) == x.s[1] \in 0..65535 /\ x.s[2] \in 0..65535 /\ x.f \in 0..249 /\ x.c \in 0..65535 /\ x.n \in 0..255

RoundTrips(x) == /\ Unpack(Pack(x)) = x
                 /\ Parse(Format(x)) = [ok |-> TRUE, ts |-> x]
OrderPreserved(a, b) == U64Lt(Pack(a), Pack(b)) <=> TsLt(a, b)
=============================================================================
