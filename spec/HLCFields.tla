------------------------------ MODULE HLCFields ------------------------------
(* HLCTimestamp::send / ::recv once more, with the stamp's time, counter and  *)
(* node as separate integers: the form the TLAPS lemmas of                    *)
(* proofs/HLCMonotone.tla are stated in.  MC_HLC checks on every transition   *)
(* of its grids that this form and HLC.tla's tuple form compute the same.     *)
EXTENDS Integers

CONSTANTS Drift, CounterMax

Max2(a, b) == IF a >= b THEN a ELSE b
SatSub(a, b) == IF a >= b THEN a - b ELSE 0

\* lexicographic order on (time, counter, node)
Lt(t1, c1, n1, t2, c2, n2) == t1 < t2 \/ (t1 = t2 /\ c1 < c2) \/ (t1 = t2 /\ c1 = c2 /\ n1 < n2)

\* HlcSend succeeded: new time and counter
SendOkPre(t, c, wall) ==
  LET tn == Max2(t, wall) IN SatSub(tn, wall) <= Drift /\ ~(t = tn /\ c = CounterMax)
SendTime(t, wall) == Max2(t, wall)
SendCounter(t, c, wall) == IF t = Max2(t, wall) THEN c + 1 ELSE 0

\* HlcRecv succeeded
RecvTime(t, wall, mt) == Max2(Max2(t, wall), mt)
RecvBase(t, c, wall, mt, mc) ==
  LET tn == RecvTime(t, wall, mt)
  IN IF tn = t /\ tn = mt THEN Max2(c, mc)
     ELSE IF tn = t THEN c
     ELSE IF tn = mt THEN mc
     ELSE -1
RecvOkPre(t, c, n, wall, mt, mc, mn) ==
  /\ n # mn
  /\ SatSub(mt, wall) <= Drift
  /\ SatSub(RecvTime(t, wall, mt), wall) <= Drift
  /\ RecvBase(t, c, wall, mt, mc) # CounterMax

=============================================================================
