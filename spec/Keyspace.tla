------------------------------ MODULE Keyspace ------------------------------
(* One keyspace actor (datacake-eventual-consistency/src/keyspace/actor.rs)   *)
(* with its replicated set and its storage, and the keyspace group's restart  *)
(* path (group.rs, load_states_from_storage).                                 *)
(*                                                                            *)
(*   st    : the OrSWotSet<2> (Orswot.tla)                                    *)
(*   store : key -> None | [ts, tomb]   what the Storage holds for this       *)
(*           keyspace (a document's bytes are determined by its stamp)        *)
(*                                                                            *)
(* One action per actor message, following the code's order                   *)
(*   will_apply filter -> storage call -> set update,                         *)
(* with every storage outcome the Storage contract allows: ok, failed with    *)
(* nothing written, failed part-way with exactly the reported ids written.    *)
(* Crash: the node stops after a request, or inside one (storage written, set *)
(* not yet updated); Restart rebuilds the set from storage metadata.          *)
(*                                                                            *)
(* SortBulk = TRUE is the code after the `fix:` that makes bulk requests write *)
(* storage in timestamp order (as the set is updated); FALSE is the pinned    *)
(* code, which wrote in message order.                                        *)
EXTENDS KeyspaceOps, TLC, Json

CONSTANTS Times, MaxReqs, SortBulk, WithCrash, WithBulk, WithUniform, EmitEdges,
          InitTombs   \* keys the storage already holds a tombstone for (stamp <<0, 0, first node>>) when the node starts

VARIABLES st, store,
          reg,     \* stamp -> "none" | "ins" | "del": what operation a stamp belongs to (stamps identify operations)
          reqs,    \* number of requests so far
          acked,   \* set of <<k, ts, isDel>> whose request returned Ok
          op
vars == <<st, store, reg, reqs, acked, op>>
MCView == [st |-> st, store |-> store, reg |-> reg, reqs |-> reqs, acked |-> acked]

Stamps == { <<t, 0, n>> : t \in Times, n \in Nodes }
NoneE == [absent |-> TRUE]
Entry(ts, tomb) == [ts |-> ts, tomb |-> tomb]

CanUse(ts, kind) == reg[ts] = "none" \/ reg[ts] = kind
Register(r, tss, kind) == [s \in Stamps |-> IF s \in tss THEN kind ELSE r[s]]

----------------------------------------------------------------------------
\* storage effects

\* write `items` (a sequence of <<k, ts>>) in order; later writes overwrite earlier ones
RECURSIVE WriteSeq(_, _, _)
WriteSeq(s, items, tomb) ==
  IF items = <<>> THEN s
  ELSE WriteSeq([s EXCEPT ![items[1][1]] = Entry(items[1][2], tomb)], Tail(items), tomb)

----------------------------------------------------------------------------
\* actor messages

\* on_set / on_del.  outcome: "ok" | "fail"
Single(isDel, src, k, ts, outcome) ==
  LET kind == IF isDel THEN "del" ELSE "ins"
      wa == WillApply(st, k, ts)
      written == wa /\ outcome = "ok"
  IN /\ CanUse(ts, kind)
     /\ reg' = Register(reg, {ts}, kind)
     /\ store' = IF written THEN [store EXCEPT ![k] = Entry(ts, isDel)] ELSE store
     /\ st' = SingleSt(st, isDel, src, k, ts, outcome)
     /\ acked' = IF (wa /\ outcome = "ok") \/ (~wa /\ ~BeforeSafe(st, ts)) THEN acked \cup {<<k, ts, isDel>>} ELSE acked
     /\ op' = [kind |-> IF isDel THEN "del" ELSE "set", src |-> src, items |-> << <<k, ts>> >>, outcome |-> outcome,
               written |-> IF written THEN {k} ELSE {}, ok |-> (~wa \/ outcome = "ok")]

\* on_multi_set / on_multi_del.  items: sequence of <<k, ts>>;
\* outcome "ok", or "fail" with W = the ids storage reports as written (exactly those are written)
Bulk(isDel, src, items, outcome, W) ==
  LET kind == IF isDel THEN "del" ELSE "ins"
      valid == BulkValid(st, items)
      toStorage == IF SortBulk THEN SortByTs(valid) ELSE valid
      wrote == IF outcome = "ok" THEN toStorage ELSE SeqFilter(toStorage, LAMBDA e : e[1] \in W)
  IN /\ \A i \in 1..Len(items) : CanUse(items[i][2], kind)
     /\ outcome = "fail" => W \subseteq { valid[i][1] : i \in 1..Len(valid) }
     /\ outcome = "ok" => W = {}
     /\ reg' = Register(reg, { items[i][2] : i \in 1..Len(items) }, kind)
     /\ store' = WriteSeq(store, wrote, isDel)
     /\ st' = BulkSt(st, isDel, src, items, outcome, W)
     /\ acked' = IF outcome = "ok" THEN acked \cup { <<items[i][1], items[i][2], isDel>> : i \in { j \in 1..Len(items) : ~BeforeSafe(st, items[j][2]) } } ELSE acked
     /\ op' = [kind |-> IF isDel THEN "mdel" ELSE "mset", src |-> src, items |-> items, outcome |-> outcome,
               written |-> IF outcome = "ok" THEN { valid[i][1] : i \in 1..Len(valid) } ELSE W, ok |-> outcome = "ok"]

\* on_purge_tombstones.  outcome "ok", or "fail" with W = the purged keys storage did remove
DoPurge(outcome, W) ==
  LET r == Purge(st)
      keys == { p[1] : p \in r[1] }
      removed == IF outcome = "ok" THEN keys ELSE W
  IN /\ outcome = "fail" => W \subseteq keys
     /\ outcome = "ok" => W = {}
     /\ store' = [k \in Keys |-> IF k \in removed THEN NoneE ELSE store[k]]
     /\ st' = PurgeSt(st, outcome, W)
     /\ UNCHANGED <<reg, acked>>
     /\ op' = [kind |-> "purge", outcome |-> outcome, written |-> removed, purged |-> keys, ok |-> outcome = "ok"]

\* KeyspaceGroup::load_states_from_storage for this keyspace: entries sorted by stamp, replayed through source 0
Rebuild(s) ==
  LET all == { <<k, s[k].ts, s[k].tomb>> : k \in { j \in Keys : s[j] # NoneE } }
      RECURSIVE Go(_, _)
      Go(acc, rest) ==
        IF rest = {} THEN acc
        ELSE LET e == CHOOSE x \in rest : \A y \in rest : Le(x[2], y[2])
                 r == IF e[3] THEN DeleteWS(acc, 0, e[1], e[2]) ELSE InsertWS(acc, 0, e[1], e[2])
             IN Go(r[2], rest \ {e})
  IN Go(EmptySet, all)

InitStamp == <<0, 0, CHOOSE n \in Nodes : \A m \in Nodes : n <= m>>
InitStore == [k \in Keys |-> IF k \in InitTombs THEN Entry(InitStamp, TRUE) ELSE NoneE]
Init ==
  /\ store = InitStore
  /\ st = IF InitTombs = {} THEN EmptySet ELSE Rebuild(InitStore)
  /\ reg = [s \in Stamps |-> IF InitTombs # {} /\ s = InitStamp THEN "del" ELSE "none"]
  /\ reqs = 0
  /\ acked = {}
  /\ op = [kind |-> "init"]

\* the node stops between requests and restarts on the same storage
CrashRestart ==
  /\ WithCrash
  /\ st' = Rebuild(store)
  /\ UNCHANGED <<store, reg, acked>>
  /\ op' = [kind |-> "restart", outcome |-> "after-request"]

\* the node stops between requests; the first start meets a storage read error (which = "list": the keyspace list,
\* "meta": the metadata scan of the keyspace) and is refused (load_states_from_storage returns the error, no node
\* comes up); the next start succeeds.  A start that reported success must have built what storage holds.
FailedStart(which) ==
  /\ WithCrash
  /\ st' = Rebuild(store)
  /\ UNCHANGED <<store, reg, acked>>
  /\ op' = [kind |-> "restart", outcome |-> "after-request", fail |-> which]

\* the node stops inside a single set/del request: storage written, set not updated; then restarts
CrashMid(isDel, src, k, ts) ==
  LET kind == IF isDel THEN "del" ELSE "ins"
      s2 == [store EXCEPT ![k] = Entry(ts, isDel)]
  IN /\ WithCrash
     /\ CanUse(ts, kind)
     /\ WillApply(st, k, ts)
     /\ reg' = Register(reg, {ts}, kind)
     /\ store' = s2
     /\ st' = Rebuild(s2)
     /\ UNCHANGED acked
     /\ op' = [kind |-> IF isDel THEN "del" ELSE "set", src |-> src, items |-> << <<k, ts>> >>, outcome |-> "crash-mid",
               written |-> {k}, ok |-> FALSE]

Pairs == { <<k, ts>> : k \in Keys, ts \in Stamps }
\* bulk requests of two entries: different keys with any stamps (put_many gives all documents the
\* same stamp), or the same key twice with different stamps (a replication batch may carry both)
BulkItems == { <<a, b>> : a \in Pairs, b \in Pairs } \cap
             { p \in Pairs \X Pairs : p[1] # p[2] /\ (p[1][1] = p[2][1] => p[1][2] # p[2][2]) }

\* put_many / del_many as clients issue them: several different keys (in key order), one stamp for all
RECURSIVE KeySeq(_, _)
KeySeq(S, ts) == IF S = {} THEN <<>>
                 ELSE LET k == CHOOSE x \in S : \A y \in S : x <= y IN << <<k, ts>> >> \o KeySeq(S \ {k}, ts)
UniformItems == { KeySeq(S, ts) : S \in { T \in SUBSET Keys : Cardinality(T) >= 2 }, ts \in Stamps }

Next ==
  /\ reqs < MaxReqs
  /\ reqs' = reqs + 1
  /\ \/ \E d \in BOOLEAN, src \in Sources, k \in Keys, ts \in Stamps, o \in {"ok", "fail"} : Single(d, src, k, ts, o)
     \/ WithBulk /\ \E d \in BOOLEAN, src \in Sources, items \in BulkItems : Bulk(d, src, items, "ok", {})
     \/ WithBulk /\ \E d \in BOOLEAN, src \in Sources, items \in BulkItems, W \in SUBSET Keys : Bulk(d, src, items, "fail", W)
     \/ WithUniform /\ \E d \in BOOLEAN, src \in Sources, items \in UniformItems : Bulk(d, src, items, "ok", {})
     \/ WithUniform /\ \E d \in BOOLEAN, src \in Sources, items \in UniformItems, W \in SUBSET Keys : Bulk(d, src, items, "fail", W)
     \/ DoPurge("ok", {})
     \/ \E W \in SUBSET Keys : DoPurge("fail", W)
     \/ CrashRestart
     \/ \E w \in {"list", "meta"} : FailedStart(w)
     \/ \E d \in BOOLEAN, src \in Sources, k \in Keys, ts \in Stamps : CrashMid(d, src, k, ts)

Spec == Init /\ [][Next]_vars

----------------------------------------------------------------------------
\* C02: set and storage describe the same thing after every completed request
Agree(s, sto) ==
  \A k \in Keys :
     /\ (s.ent[k] # None)  <=> (sto[k] # NoneE /\ ~sto[k].tomb)
     /\ (s.ent[k] # None)  => (sto[k] # NoneE /\ sto[k].ts = s.ent[k])
     /\ (s.dead[k] # None) <=> (sto[k] # NoneE /\ sto[k].tomb)
     /\ (s.dead[k] # None) => (sto[k] # NoneE /\ sto[k].ts = s.dead[k])
C02_Agree == Agree(st, store)

\* C07: after a restart the rebuilt set is exactly what storage holds (Agree), and every
\* acknowledged mutation is still visible: the key holds that operation or a newer one
\* an acknowledged operation is visible if the key holds it or something newer; a delete (and what it
\* superseded) may also have been purged, which leaves the key absent
Visible(a) ==
  LET k == a[1]  ts == a[2]  isDel == a[3]
      absent == st.ent[k] = None /\ st.dead[k] = None
  IN \/ (st.ent[k] # None  /\ Le(ts, st.ent[k]))
     \/ (st.dead[k] # None /\ Le(ts, st.dead[k]))
     \/ (absent /\ isDel)
     \/ (absent /\ ~isDel /\ \E d \in acked : d[1] = k /\ d[3] /\ Lt(ts, d[2]))
C07_AckedVisible == \A a \in acked : Visible(a)
C07_RebuildExact == [][ op'.kind = "restart" \/ op'.outcome = "crash-mid" => Agree(st', store') ]_vars

WellFormedInv == WellFormed(st)

PrintEdge ==
  IF EmitEdges
  THEN /\ IF TLCGet(1) # MCView
          THEN PrintT(<<"FROM", ToJson([from |-> MCView])>>) /\ TLCSet(1, MCView)
          ELSE TRUE
       /\ PrintT(<<"EDGE", ToJson([to |-> MCView', op |-> op'])>>)
  ELSE TRUE
ASSUME TLCSet(1, [init |-> TRUE])
=============================================================================
