---------------------------- MODULE KeyspaceGroup ----------------------------
(* First use of a keyspace by several tasks at once                           *)
(* (datacake-eventual-consistency/src/keyspace/group.rs).                     *)
(* get_or_create_keyspace is modelled as its real steps:                      *)
(*   Lookup  : read-locked map lookup; a hit returns the installed mailbox    *)
(*   Spawn   : (after awaiting the clock) a new actor with an empty set is    *)
(*             spawned - the awaits let other tasks run in between            *)
(*   Install : write-locked insert into the map.  CheckUnderLock = TRUE is    *)
(*             the code after the `fix:` (an entry installed meanwhile wins   *)
(*             and is returned); FALSE is the pinned code, which replaced it  *)
(* then each task sends one mutation through the mailbox it was handed, and a *)
(* late lookup + Serialize observes the set peers would synchronise against.  *)
EXTENDS Naturals, FiniteSets, TLC

CONSTANTS Tasks, CheckUnderLock

VARIABLES installed,  \* 0 (no entry) or the id of the actor in the group's map
          actors,     \* actor id -> set of mutations (task ids) applied to that actor's set
          pc,         \* task -> "lookup" | "spawn" | "install" | "mutate" | "done"
          mine,       \* task -> the actor it spawned (0 = none)
          handed,     \* task -> the actor whose mailbox it was handed (0 = none yet)
          acked,      \* mutations acknowledged
          installs    \* how many distinct actors were ever put into the map
vars == <<installed, actors, pc, mine, handed, acked, installs>>

Ids == 1..Cardinality(Tasks)
Init ==
  /\ installed = 0
  /\ actors = [i \in Ids |-> {}]
  /\ pc = [t \in Tasks |-> "lookup"]
  /\ mine = [t \in Tasks |-> 0]
  /\ handed = [t \in Tasks |-> 0]
  /\ acked = {}
  /\ installs = 0

Lookup(t) ==
  /\ pc[t] = "lookup"
  /\ IF installed # 0
     THEN handed' = [handed EXCEPT ![t] = installed] /\ pc' = [pc EXCEPT ![t] = "mutate"]
     ELSE handed' = handed /\ pc' = [pc EXCEPT ![t] = "spawn"]
  /\ UNCHANGED <<installed, actors, mine, acked, installs>>

Spawn(t) ==
  /\ pc[t] = "spawn"
  /\ LET id == CHOOSE i \in Ids : \A u \in Tasks : mine[u] # i
     IN mine' = [mine EXCEPT ![t] = id]
  /\ pc' = [pc EXCEPT ![t] = "install"]
  /\ UNCHANGED <<installed, actors, handed, acked, installs>>

Install(t) ==
  /\ pc[t] = "install"
  /\ IF CheckUnderLock /\ installed # 0
     THEN /\ handed' = [handed EXCEPT ![t] = installed]      \* somebody else won: use theirs
          /\ UNCHANGED <<installed, installs>>
     ELSE /\ installed' = mine[t]                            \* insert (replaces an existing entry!)
          /\ installs' = installs + 1
          /\ handed' = [handed EXCEPT ![t] = mine[t]]
  /\ pc' = [pc EXCEPT ![t] = "mutate"]
  /\ UNCHANGED <<actors, mine, acked>>

Mutate(t) ==
  /\ pc[t] = "mutate"
  /\ actors' = [actors EXCEPT ![handed[t]] = @ \cup {t}]
  /\ acked' = acked \cup {t}
  /\ pc' = [pc EXCEPT ![t] = "done"]
  /\ UNCHANGED <<installed, mine, handed, installs>>

Next == \E t \in Tasks : Lookup(t) \/ Spawn(t) \/ Install(t) \/ Mutate(t)
Spec == Init /\ [][Next]_vars

\* C18: the set behind a later lookup contains every acknowledged mutation ...
Quiescent == \A t \in Tasks : pc[t] = "done"
C18_OneState == Quiescent => (installed # 0 /\ acked \subseteq actors[installed])
\* ... because only one instance is ever installed
C18_SingleInstall == installs <= 1
=============================================================================
