---------------------------- MODULE KeyspaceOps ----------------------------
(* What each keyspace actor message does to the actor's set                   *)
(* (datacake-eventual-consistency/src/keyspace/actor.rs), as pure operators   *)
(* over Orswot.tla states.  Shared by Keyspace.tla (model checking, replay)   *)
(* and Trace_KeyspaceActor.tla (validation of recorded actor traces), so both *)
(* bind the code to the same definitions.                                     *)
(*   outcome "ok"   : the storage call succeeded                              *)
(*   outcome "fail" : it failed; W = the ids storage reports as done          *)
EXTENDS Orswot

SeqFilter(items, P(_)) ==
  LET Acc[i \in 0..Len(items)] ==
        IF i = 0 THEN <<>> ELSE IF P(items[i]) THEN Append(Acc[i - 1], items[i]) ELSE Acc[i - 1]
  IN Acc[Len(items)]

\* stable sort of a sequence of <<k, ts>> by stamp (the actor's `valid_entries.sort_by_key(|e| e.1)`)
RECURSIVE SortByTs(_)
SortByTs(items) ==
  IF items = <<>> THEN <<>>
  ELSE LET i == CHOOSE i \in 1..Len(items) :
                  \A j \in 1..Len(items) : /\ ~Lt(items[j][2], items[i][2])
                                           /\ (items[j][2] = items[i][2] => i <= j)
       IN <<items[i]>> \o SortByTs(SubSeq(items, 1, i - 1) \o SubSeq(items, i + 1, Len(items)))

RECURSIVE ApplySeq(_, _, _, _)
ApplySeq(s, src, items, isDel) ==
  IF items = <<>> THEN s
  ELSE LET r == IF isDel THEN DeleteWS(s, src, items[1][1], items[1][2]) ELSE InsertWS(s, src, items[1][1], items[1][2])
       IN ApplySeq(r[2], src, Tail(items), isDel)

----------------------------------------------------------------------------
\* on_set / on_del: will_apply, then storage, then the set
SingleSt(s, isDel, src, k, ts, outcome) ==
  IF WillApply(s, k, ts) /\ outcome = "ok"
  THEN (IF isDel THEN DeleteWS(s, src, k, ts) ELSE InsertWS(s, src, k, ts))[2]
  ELSE s

\* on_multi_set / on_multi_del: the entries that pass will_apply (judged against the state before
\* the request), those that reach the set, in the order they reach it, and the resulting set
BulkValid(s, items) == SeqFilter(items, LAMBDA e : WillApply(s, e[1], e[2]))
BulkToSet(s, items, outcome, W) ==
  SortByTs(IF outcome = "ok" THEN BulkValid(s, items) ELSE SeqFilter(BulkValid(s, items), LAMBDA e : e[1] \in W))
BulkSt(s, isDel, src, items, outcome, W) == ApplySeq(s, src, BulkToSet(s, items, outcome, W), isDel)

\* on_purge_tombstones: purge, then storage; what storage did not remove is put back
PurgeSt(s, outcome, W) ==
  LET r == Purge(s)
  IN IF outcome = "ok" THEN r[2] ELSE AddRawTombstones(r[2], { p \in r[1] : p[1] \notin W })
=============================================================================
