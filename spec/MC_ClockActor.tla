---------------------------- MODULE MC_ClockActor ----------------------------
EXTENDS ClockActor
G == [op |-> "get"]
R(ts) == [op |-> "reg", ts |-> ts]
\* three tasks; remote stamps at / around the actor's time, one beyond the drift, one with the clock's own id
ScriptDef == [t \in Tasks |->
   CASE t = 1 -> << R(<<5, 3, 2>>), G, G >>
     [] t = 2 -> << G, R(<<7, 0, 3>>), G >>
     [] t = 3 -> << R(<<2000000, 0, 2>>), R(<<9, 9, 1>>), G >>]
ScriptDef2 == [t \in Tasks |->
   CASE t = 1 -> << G, G, G >>
     [] t = 2 -> << R(<<1, 65534, 2>>), G >>
     [] t = 3 -> << G, R(<<1, 0, 2>>) >>]
=============================================================================
