--------------------------- MODULE MC_Distributor ---------------------------
EXTENDS Distributor
MCView == <<chan, live, batches, handed>>
=============================================================================
