------------------------------ MODULE MC_HLC -------------------------------
(* One clock, arbitrary (non-monotonic) wall clock readings and arbitrary     *)
(* remote stamps from boundary grids around the real constants.  Decides C09 *)
(* on the faithful layer and emits every edge for replay on the real          *)
(* HLCTimestamp with an injected wall clock (G).                              *)
EXTENDS HLC, TLC, Json

CONSTANTS Walls,        \* wall clock readings (4 ms units)
          MsgTimes, MsgCounters, MsgNodes,
          InitTimes, InitCounters,
          Self,         \* the clock's node id
          MaxSteps,
          EmitEdges

VARIABLES clock, hi, steps, op
vars == <<clock, hi, steps, op>>
MCView == <<clock, hi, steps>>

Msgs == { <<t, c, n>> : t \in MsgTimes, c \in MsgCounters, n \in MsgNodes }

Init ==
  /\ clock \in { <<t, c, Self>> : t \in InitTimes, c \in InitCounters }
  /\ hi = None
  /\ steps = 0
  /\ op = [kind |-> "init"]

Send(w) ==
  LET r == HlcSend(clock, w)
  IN /\ clock' = r.clock
     /\ hi' = IF r.ok THEN MaxOpt(hi, r.out) ELSE hi
     /\ op' = [kind |-> "send", wall |-> w, pre |-> clock, hi |-> hi, ok |-> r.ok, err |-> r.err,
               out |-> r.out, post |-> r.clock]

Recv(w, m) ==
  LET r == HlcRecv(clock, w, m)
  IN /\ clock' = r.clock
     /\ hi' = IF r.ok THEN MaxOpt(hi, m) ELSE hi
     /\ op' = [kind |-> "recv", wall |-> w, msg |-> m, pre |-> clock, hi |-> hi, ok |-> r.ok, err |-> r.err,
               out |-> r.out, post |-> r.clock]

Next ==
  /\ steps < MaxSteps
  /\ steps' = steps + 1
  /\ \/ \E w \in Walls : Send(w)
     \/ \E w \in Walls, m \in Msgs : Recv(w, m)

Spec == Init /\ [][Next]_vars

C09_Step ==
  [][ /\ (op'.kind = "send" /\ op'.ok) => SendOk(clock, hi, op'.wall, clock', op'.out)
      /\ (op'.kind = "recv" /\ op'.ok) => RecvOk(clock, op'.msg, clock')
      /\ (op'.kind \in {"send", "recv"} /\ ~op'.ok) => Failed(clock, clock') ]_vars

\* everything issued or accepted so far is below the clock or equal to it
C09_HiBelowClock == hi # None => Le(hi, clock) \/ (hi[1] = clock[1] /\ hi[2] <= clock[2])

\* the field-wise form the TLAPS lemmas are stated in computes what HLC.tla computes (every transition of the grids)
F == INSTANCE HLCFields
C09_LemmaFormAgrees ==
  [][ /\ op'.kind = "send" =>
          /\ op'.ok = F!SendOkPre(clock[1], clock[2], op'.wall)
          /\ op'.ok => clock' = <<F!SendTime(clock[1], op'.wall), F!SendCounter(clock[1], clock[2], op'.wall), clock[3]>>
      /\ op'.kind = "recv" =>
          /\ op'.ok = F!RecvOkPre(clock[1], clock[2], clock[3], op'.wall, op'.msg[1], op'.msg[2], op'.msg[3])
          /\ op'.ok => clock' = <<F!RecvTime(clock[1], op'.wall, op'.msg[1]),
                                  F!RecvBase(clock[1], clock[2], op'.wall, op'.msg[1], op'.msg[2]) + 1, clock[3]>> ]_vars

PrintEdge == IF EmitEdges THEN PrintT(<<"EDGE", ToJson([op |-> op'])>>) ELSE TRUE
=============================================================================
