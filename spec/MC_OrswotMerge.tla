--------------------------- MODULE MC_OrswotMerge ---------------------------
(* Several replicas of one set.  A global log of operations with distinct     *)
(* stamps is grown step by step; replicas apply operations (Mode "prefix":    *)
(* gap-free prefixes of every origin's operations, in any cross-origin order; *)
(* Mode "window": any subset in any order, all stamps inside one forgiveness  *)
(* period), merge each other (`merge`) and repair from each other (`diff` +   *)
(* application through the read-repair source).  Decides C03 and C05 on the   *)
(* faithful layer; every transition is emitted for replay on real sets (G).   *)
EXTENDS Orswot, TLC, Json

CONSTANTS Times, Replicas, MaxOps, MaxMerges, Mode, RepairSrc, EmitEdges, NoRepair,
          WithPurge    \* TRUE: any replica may purge at any moment (C08's local facts on sets reached through merges)

VARIABLES log,     \* sequence of issued operations [k, ts, del], sorted by stamp (arrival order is decided by Apply)
          rep,     \* replica -> set state
          ap,      \* replica -> set of log indexes applied (directly, by merge or by repair)
          merges,  \* number of merge / repair transitions taken
          pm,      \* replica -> origin node -> greatest delete stamp of that node the replica has purged (or None)
          op
vars == <<log, rep, ap, merges, pm, op>>
MCView == [log |-> log, rep |-> rep, ap |-> ap, merges |-> merges, pm |-> pm]

Stamps == { <<t, 0, n>> : t \in Times, n \in Nodes }
UsedStamps == { log[i].ts : i \in 1..Len(log) }

Init ==
  /\ log = <<>>
  /\ rep = [r \in Replicas |-> EmptySet]
  /\ ap = [r \in Replicas |-> {}]
  /\ merges = 0
  /\ pm = [r \in Replicas |-> [n \in Nodes |-> None]]
  /\ op = [kind |-> "init"]

Issue(k, ts, del) ==
  /\ Len(log) < MaxOps
  /\ ts \notin UsedStamps
  /\ \A i \in 1..Len(log) : Lt(log[i].ts, ts)     \* the log is kept sorted by stamp (canonical form of a set of operations)
  /\ log' = Append(log, [k |-> k, ts |-> ts, del |-> del])
  /\ UNCHANGED <<rep, ap, merges, pm>>
  /\ op' = [kind |-> "issue", key |-> k, ts |-> ts, del |-> del]

CanApply(r, i) ==
  /\ i \notin ap[r]
  /\ Mode = "prefix" => \A j \in 1..(i - 1) : log[j].ts[3] = log[i].ts[3] => j \in ap[r]

Apply(r, i) ==
  LET o == log[i]
      res == IF o.del THEN DeleteWS(rep[r], 0, o.k, o.ts) ELSE InsertWS(rep[r], 0, o.k, o.ts)
  IN /\ i \in 1..Len(log)
     /\ CanApply(r, i)
     /\ rep' = [rep EXCEPT ![r] = res[2]]
     /\ ap' = [ap EXCEPT ![r] = @ \cup {i}]
     /\ UNCHANGED <<log, merges, pm>>
     /\ op' = [kind |-> "apply", r |-> r, key |-> o.k, ts |-> o.ts, del |-> o.del]

MergeInto(r, r2) ==
  /\ r # r2
  /\ merges < MaxMerges
  /\ rep' = [rep EXCEPT ![r] = Merge(rep[r], rep[r2])]
  /\ ap' = [ap EXCEPT ![r] = @ \cup ap[r2]]
  /\ merges' = merges + 1
  /\ UNCHANGED <<log, pm>>
  /\ op' = [kind |-> "merge", r |-> r, r2 |-> r2]

Repair(r, r2, remFirst) ==
  /\ ~NoRepair
  /\ r # r2
  /\ merges < MaxMerges
  /\ rep' = [rep EXCEPT ![r] = ApplyDiff(rep[r], rep[r2], RepairSrc, remFirst)]
  /\ ap' = [ap EXCEPT ![r] = @ \cup ap[r2]]
  /\ merges' = merges + 1
  /\ UNCHANGED <<log, pm>>
  /\ op' = [kind |-> "repair", r |-> r, r2 |-> r2, remFirst |-> remFirst]

\* OrSWotSet::purge_old_deletes on one replica, at any moment
PurgeAt(r) ==
  LET p == Purge(rep[r])
  IN /\ WithPurge
     /\ rep' = [rep EXCEPT ![r] = p[2]]
     /\ pm' = [pm EXCEPT ![r] = [n \in Nodes |->
                  LET mine == { q[2] : q \in { x \in p[1] : x[2][3] = n } }
                  IN IF mine = {} THEN pm[r][n] ELSE MaxOpt(pm[r][n], MaxOf(mine))]]
     /\ UNCHANGED <<log, ap, merges>>
     /\ op' = [kind |-> "purge", r |-> r]

Next ==
  \/ \E r \in Replicas : PurgeAt(r)
  \/ \E k \in Keys, ts \in Stamps, del \in BOOLEAN : Issue(k, ts, del)
  \/ \E r \in Replicas, i \in 1..MaxOps : Apply(r, i)
  \/ \E r, r2 \in Replicas : MergeInto(r, r2)
  \/ \E r, r2 \in Replicas, f \in BOOLEAN : Repair(r, r2, f)

Spec == Init /\ [][Next]_vars

----------------------------------------------------------------------------
\* C03: merge laws over the current replica states (view = live ids with stamps)

M == [p \in Replicas \X Replicas |-> Merge(rep[p[1]], rep[p[2]])]

C03_Commutative == \A i, j \in Replicas : i < j => Live(M[<<i, j>>]) = Live(M[<<j, i>>])
C03_Idempotent  == \A i, j \in Replicas :
                      /\ Live(Merge(rep[i], rep[i])) = Live(rep[i])
                      /\ Live(Merge(M[<<i, j>>], rep[j])) = Live(M[<<i, j>>])
                      /\ Live(Merge(M[<<i, j>>], rep[i])) = Live(M[<<i, j>>])
C03_Associative == \A i, j, k \in Replicas :
                      Live(Merge(M[<<i, j>>], rep[k])) = Live(Merge(rep[i], M[<<j, k>>]))
\* replicas that merged each other's states are indistinguishable by lookups
C03_MutualMerge == \A i, j \in Replicas : i # j => Live(Merge(rep[j], M[<<i, j>>])) = Live(M[<<i, j>>])

----------------------------------------------------------------------------
\* C05: the difference and its application

C05_DiffExact == \A i, j \in Replicas : i # j => Diff(rep[i], rep[j]) = DiffSpec(rep[i], rep[j])
C05_OneExchange == \A i, j \in Replicas : i # j => \A f \in BOOLEAN :
                      Diff(ApplyDiff(rep[i], rep[j], RepairSrc, f), rep[j]) = <<{}, {}>>
C05_MutualRepair == \A i, j \in Replicas : i < j => \A f, g \in BOOLEAN :
                      Live(ApplyDiff(rep[i], rep[j], RepairSrc, f)) = Live(ApplyDiff(rep[j], rep[i], RepairSrc, g))

WellFormedInv == \A r \in Replicas : WellFormed(rep[r])

----------------------------------------------------------------------------
\* C08 (local facts) on sets reached through applies, merges and repairs: a purge changes nothing that is live, and
\* whatever a replica has purged stays refused on it: every operation of the deleting node not newer than the purged delete
RefusedOn(s, k, ts) ==
  /\ ~WillApply(s, k, ts)
  /\ \A src \in Sources : /\ ~InsertWS(s, src, k, ts)[1] /\ Live(InsertWS(s, src, k, ts)[2]) = Live(s)
                          /\ ~DeleteWS(s, src, k, ts)[1] /\ Live(DeleteWS(s, src, k, ts)[2]) = Live(s)
C08_StillRefused ==
  \A r \in Replicas, n \in Nodes : pm[r][n] # None =>
     \A k \in Keys, ts \in Stamps : (ts[3] = n /\ Le(ts, pm[r][n])) => RefusedOn(rep[r], k, ts)
C08_PurgeInvisible == [][ op'.kind = "purge" => \A r \in Replicas : Live(rep'[r]) = Live(rep[r]) ]_vars

----------------------------------------------------------------------------
\* configurations that are about merging only (C03 on single-source sets, where a repair through the one source would itself
\* break the gap-free order the property presupposes) leave the repair transitions out: constant NoRepair
\* (G) edge emission.  `diffs` is the oracle's DiffSpec for every ordered pair of the target state.
PrintEdge ==
  IF EmitEdges
  THEN /\ IF TLCGet(1) # MCView
          THEN PrintT(<<"FROM", ToJson([from |-> MCView])>>) /\ TLCSet(1, MCView)
          ELSE TRUE
       /\ PrintT(<<"EDGE", ToJson([to |-> MCView', op |-> op',
               diffs |-> [p \in { q \in Replicas \X Replicas : q[1] # q[2] } |->
                            DiffSpec(rep'[p[1]], rep'[p[2]])]])>>)
  ELSE TRUE

ASSUME TLCSet(1, [init |-> TRUE])
=============================================================================
