SPECIFICATION Spec
CONSTANTS
  Keys = {1, 2}
  Nodes = {1, 2}
  Sources = {0, 1}
  F = 2
  FixD6 = FALSE
  Times = {0, 1, 2}
  Counters = {0}
  EmitEdges = FALSE
VIEW MCView
INVARIANTS C04_LWW C08_StillRefused WellFormedInv
PROPERTIES C04_Return C08_PurgeInvisible
CHECK_DEADLOCK FALSE
