--------------------------- MODULE MC_OrswotOps ---------------------------
(* One replica; inserts, deletes and purges in any arrival order through any *)
(* source.  Decides C04 and the local clauses of C08 on the faithful layer,  *)
(* and emits every edge of the bounded graph for replay on the real          *)
(* OrSWotSet (G).                                                            *)
EXTENDS Orswot, TLC, Json

CONSTANTS Times,      \* model time values
          Counters,   \* counter values
          MaxOps,     \* bound on the number of insert/delete operations (deliveries when AllowDup)
          AllowDup,   \* TRUE: an operation may be delivered again (same stamp, key and kind)
          EmitEdges   \* TRUE: print one EDGE line per transition

VARIABLES st,      \* faithful set state
          lww,     \* oracle: per key the greatest op presented so far ([ts, del] or None)
          seen,    \* oracle: per origin the newest stamp presented so far
          used,    \* stamps already used (the properties assume distinct stamps)
          ops,     \* the operations presented so far <<ts, key, kind>>: an operation may be delivered again (duplication)
          cnt,     \* number of deliveries so far
          clean,   \* TRUE while every presented op was inside the forgiveness window and nothing was purged
          pmax,    \* per node: greatest purged delete stamp (or None)
          op       \* history variable: the last transition (hidden by the VIEW)

vars == <<st, lww, seen, used, ops, cnt, clean, pmax, op>>
MCView == [st |-> st, lww |-> lww, seen |-> seen, used |-> used, ops |-> ops, cnt |-> cnt, clean |-> clean, pmax |-> pmax]

Stamps == { <<t, c, n>> : t \in Times, c \in Counters, n \in Nodes }

Init ==
  /\ st = EmptySet
  /\ lww = [k \in Keys |-> None]
  /\ seen = [n \in Nodes |-> None]
  /\ used = {}
  /\ ops = {}
  /\ cnt = 0
  /\ clean = TRUE
  /\ pmax = [n \in Nodes |-> None]
  /\ op = [kind |-> "init"]

\* the side condition of C04: strictly inside the window relative to the newest stamp of its origin
InWindow(ts) == seen[ts[3]] = None \/ ts[1] + F > seen[ts[3]][1]

Mutate(kind, s, k, ts) ==
  LET r  == IF kind = "insert" THEN InsertWS(st, s, k, ts) ELSE DeleteWS(st, s, k, ts)
      wa == WillApply(st, k, ts)
  IN /\ IF AllowDup
        THEN /\ (ts \notin used \/ <<ts, k, kind>> \in ops)   \* a fresh stamp, or the same operation delivered again
             /\ cnt < MaxOps
             /\ cnt' = cnt + 1
             /\ ops' = ops \cup {<<ts, k, kind>>}
        ELSE /\ ts \notin used
             /\ Cardinality(used) < MaxOps
             /\ UNCHANGED <<cnt, ops>>
     /\ st' = r[2]
     /\ used' = used \cup {ts}
     /\ lww' = [lww EXCEPT ![k] = IF @ = None \/ Lt(@.ts, ts) THEN [ts |-> ts, del |-> kind = "delete"] ELSE @]
     /\ seen' = [seen EXCEPT ![ts[3]] = MaxOpt(@, ts)]
     /\ clean' = (clean /\ InWindow(ts))
     /\ pmax' = pmax
     /\ op' = [kind |-> kind, src |-> s, key |-> k, ts |-> ts, ret |-> r[1], wa |-> wa]

DoPurge ==
  LET r == Purge(st)
  IN /\ st' = r[2]
     /\ pmax' = [n \in Nodes |->
                   LET mine == { p[2] : p \in { q \in r[1] : q[2][3] = n } }
                   IN IF mine = {} THEN pmax[n] ELSE MaxOpt(pmax[n], MaxOf(mine))]
     /\ clean' = (clean /\ r[1] = {})
     /\ UNCHANGED <<lww, seen, used, ops, cnt>>
     /\ op' = [kind |-> "purge", purged |-> r[1]]

Next ==
  \/ \E kind \in {"insert", "delete"}, s \in Sources, k \in Keys, ts \in Stamps : Mutate(kind, s, k, ts)
  \/ DoPurge

Spec == Init /\ [][Next]_vars

----------------------------------------------------------------------------
\* Property layer

ExpectedLive == [k \in Keys |-> IF lww[k] = None THEN None ELSE IF lww[k].del THEN None ELSE lww[k].ts]

\* C04: after every prefix of in-window operations get(k) is the last-writer-wins value
C04_LWW == clean => Live(st) = ExpectedLive

\* C04: return value = will_apply prediction = "the view of that key changed"  (action property)
C04_Return ==
  [][ (op'.kind \in {"insert", "delete"} /\ clean')
        => /\ op'.ret = op'.wa
           /\ op'.ret = (KeyView(st, op'.key) # KeyView(st', op'.key)) ]_vars

\* C08 local: a purge never changes live ids and removes only tombstones   (action property)
C08_PurgeInvisible ==
  [][ op'.kind = "purge"
        => /\ Live(st') = Live(st)
           /\ \A k \in Keys : st'.dead[k] = None \/ st'.dead[k] = st.dead[k] ]_vars

\* C08 local: after a purge, every operation of the deleting node that is not newer than
\* the purged delete is refused by will_apply and by both mutators, through every source
Refused(k, ts) ==
  /\ ~WillApply(st, k, ts)
  /\ \A s \in Sources : /\ ~InsertWS(st, s, k, ts)[1] /\ Live(InsertWS(st, s, k, ts)[2]) = Live(st)
                        /\ ~DeleteWS(st, s, k, ts)[1] /\ Live(DeleteWS(st, s, k, ts)[2]) = Live(st)
C08_StillRefused ==
  \A n \in Nodes : pmax[n] # None =>
     \A k \in Keys, ts \in Stamps : (ts[3] = n /\ Le(ts, pmax[n])) => Refused(k, ts)

WellFormedInv == WellFormed(st)

----------------------------------------------------------------------------
\* (G) edge emission: one line per transition of every distinct state

\* With one worker all transitions of a state are generated consecutively, so the
\* source state is printed once (FROM) and each transition after it (EDGE).
PrintEdge ==
  IF EmitEdges
  THEN /\ IF TLCGet(1) # MCView
          THEN PrintT(<<"FROM", ToJson([from |-> MCView])>>) /\ TLCSet(1, MCView)
          ELSE TRUE
       /\ PrintT(<<"EDGE", ToJson([to |-> MCView', op |-> op', live |-> ExpectedLive'])>>)
  ELSE TRUE

ASSUME TLCSet(1, [init |-> TRUE])
=============================================================================
