----------------------------- MODULE MC_RpcFrame ----------------------------
EXTENDS RpcFrame
ASSUME EveryFlipRefused
ASSUME ShortFramesRefused
ASSUME IntactAccepted
ASSUME RuleAgrees
=============================================================================
