--------------------------- MODULE MC_RpcRegistry ---------------------------
(* Three services: A and B register the same message type, C registers two.   *)
EXTENDS RpcRegistry
HandlesDef == [s \in Services |-> IF s = "C" THEN {"Ping", "Pong"} ELSE {"Ping"}]
=============================================================================
