--------------------------- MODULE MC_RpcRegistry ---------------------------
(* Four service types: A and B register the same message type under their own *)
(* names, C registers two, and A2 registers the other message type under A's  *)
(* name.                                                                      *)
EXTENDS RpcRegistry
HandlesDef == [s \in Services |-> IF s = "C" THEN {"Ping", "Pong"} ELSE IF s = "A2" THEN {"Pong"} ELSE {"Ping"}]
NameOfDef == [s \in Services |-> IF s = "A2" THEN "A" ELSE s]
=============================================================================
