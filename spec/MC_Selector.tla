----------------------------- MODULE MC_Selector ----------------------------
(* Enumerates histories of membership updates and selections for replay on    *)
(* the real selector actor (G); the outcomes are validated by Trace_Selector. *)
(* The invariant checks the oracle's own consistency: a level is satisfiable  *)
(* exactly when enough other nodes exist.                                     *)
EXTENDS Selector, TLC, Json

CONSTANTS MaxIdx, NumDCs, MaxLen, WithWait, EmitHist,
          SetAt   \* history positions (0-based) at which a membership update may happen

Layouts == { l \in [1..NumDCs -> SUBSET (1..MaxIdx)] : 1 \in l[1] }

VARIABLES hist, layout
vars == <<hist, layout>>

Init == hist = <<>> /\ layout = <<>>
SetNodes(l) == Len(hist) \in SetAt /\ hist' = Append(hist, [op |-> "set", layout |-> l]) /\ layout' = l
Select(lv)  == layout # <<>> /\ (Len(hist) \notin SetAt \/ SetAt = 0..(MaxLen - 1)) /\ hist' = Append(hist, [op |-> "select", level |-> lv]) /\ UNCHANGED layout
Wait        == WithWait /\ layout # <<>> /\ hist # <<>> /\ hist[Len(hist)].op = "select"
               /\ hist' = Append(hist, [op |-> "wait"]) /\ UNCHANGED layout
Next == Len(hist) < MaxLen /\ ((\E l \in Layouts : SetNodes(l)) \/ (\E lv \in Levels : Select(lv)) \/ Wait)
Spec == Init /\ [][Next]_vars

\* the oracle is consistent: some result is allowed iff an error is not
OracleConsistent ==
  \A lay \in Layouts : \A lv \in Levels :
     AllowedErr(lay, lv) <=> ~(\E S \in SUBSET Others(lay) : Cardinality(S) >= Required(lay, lv))
ASSUME OracleConsistent

Emit == IF EmitHist /\ Len(hist) = MaxLen /\ hist[Len(hist)].op # "set"
        THEN PrintT(<<"HIST", ToJson([hist |-> hist])>>) ELSE TRUE
=============================================================================
