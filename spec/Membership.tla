----------------------------- MODULE Membership -----------------------------
(* Membership change events (datacake-node/src/lib.rs):                       *)
(*   chitchat snapshots -> watch_membership_changes (two set differences over *)
(*   (node id, address) pairs) -> a latest-value watch channel carrying the   *)
(*   last delta -> subscribers (`membership_changes()` = WatchStream over a   *)
(*   clone of the receiver: first poll yields the current value) that apply   *)
(*   each delta they are handed: remove `left`, then insert `joined`.         *)
(*                                                                            *)
(* A snapshot maps every other node id to 0 (absent) or its address (1, 2).   *)
(* FixD4a = FALSE is the pinned code, which looked departed nodes up in the   *)
(* NEW snapshot (so `left` was empty for real departures and carried the new  *)
(* address for address changes).                                              *)
EXTENDS Naturals, Sequences, FiniteSets, TLC, Json

CONSTANTS Ids, Addrs, MaxPub, MaxSteps, FixD4a, EmitHist,
          WithConsumers   \* TRUE: the subscriber is the store's membership watcher, which hands every change it reads to
                          \* the task distributor and to the replication cycle (two FIFO channels drained at their ticks)

Snapshots == [Ids -> {0} \cup Addrs]
PairsOf(s) == { <<i, s[i]>> : i \in { j \in Ids : s[j] # 0 } }

VARIABLES cur,      \* the membership layer's current snapshot
          last,     \* the watcher's last_network_set (as a snapshot)
          chan,     \* the watch channel: [ver, joined, left]
          sub,      \* subscriber exists
          first,    \* its first poll (yields the current value) is still pending
          seen,     \* channel version the subscriber has consumed
          map,      \* the subscriber's accumulated members
          late,     \* it subscribed after two or more publishes (earlier deltas unreachable)
          skipped,  \* a publish overwrote a delta it had not read yet
          hist,     \* the behaviour so far (for replay)
          dq, pq,   \* changes handed to the task distributor / the replication cycle and not yet drained
          dmap,     \* the task distributor's live_members (whom the next batch is sent to)
          pmap,     \* the replication cycle's live_members (whom the next round polls)
          ptrk      \* the peers its keyspace tracker remembers
vars == <<cur, last, chan, sub, first, seen, map, late, skipped, hist, dq, pq, dmap, pmap, ptrk>>
cons == <<dq, pq, dmap, pmap, ptrk>>

Empty == [i \in Ids |-> 0]

Init ==
  /\ cur = Empty /\ last = Empty
  /\ chan = [ver |-> 0, joined |-> {}, left |-> {}]
  /\ sub = FALSE /\ first = FALSE /\ seen = 0
  /\ map = Empty
  /\ late = FALSE /\ skipped = FALSE
  /\ hist = <<>>
  /\ dq = <<>> /\ pq = <<>>
  /\ dmap = Empty /\ pmap = Empty /\ ptrk = {}

\* what the statement demands of a delta: everything that disappeared (or changed address) is
\* reported as left with the address it had; everything new (or re-addressed) as joined
ExpectedLeft(old, new)   == PairsOf(old) \ PairsOf(new)
ExpectedJoined(old, new) == PairsOf(new) \ PairsOf(old)

\* watch_membership_changes, one iteration
DeltaLeft(old, new) ==
  IF FixD4a THEN PairsOf(old) \ PairsOf(new)
  ELSE { <<p[1], new[p[1]]>> : p \in { q \in PairsOf(old) \ PairsOf(new) : new[q[1]] # 0 } }
DeltaJoined(old, new) == PairsOf(new) \ PairsOf(old)

Publish(s) ==
  /\ Len(hist) < MaxSteps
  /\ chan.ver < MaxPub
  /\ s # cur
  /\ cur' = s /\ last' = s
  /\ chan' = [ver |-> chan.ver + 1, joined |-> DeltaJoined(last, s), left |-> DeltaLeft(last, s)]
  /\ skipped' = (skipped \/ (sub /\ (first \/ seen < chan.ver) /\ chan.ver > 0))
  /\ UNCHANGED <<sub, first, seen, map, late>>
  /\ UNCHANGED cons
  /\ hist' = Append(hist, [op |-> "pub", snap |-> s,
                           left |-> ExpectedLeft(last, s), joined |-> ExpectedJoined(last, s)])

Subscribe ==
  /\ Len(hist) < MaxSteps
  /\ ~sub
  /\ sub' = TRUE /\ first' = TRUE
  /\ late' = (chan.ver >= 2)
  /\ UNCHANGED <<cur, last, chan, seen, map, skipped>>
  /\ UNCHANGED cons
  /\ hist' = Append(hist, [op |-> "sub"])

\* the subscriber applies a delta the way the distributor / poller do
ApplyDelta(m, d) ==
  LET m1 == [i \in Ids |-> IF \E p \in d.left : p[1] = i THEN 0 ELSE m[i]]
  IN [i \in Ids |-> IF \E p \in d.joined : p[1] = i THEN (CHOOSE p \in d.joined : p[1] = i)[2] ELSE m1[i]]

CaughtUp == sub /\ ~first /\ seen = chan.ver

Read ==
  /\ Len(hist) < MaxSteps
  /\ sub /\ (first \/ seen < chan.ver)
  /\ map' = ApplyDelta(map, chan)
  /\ seen' = chan.ver /\ first' = FALSE
  /\ UNCHANGED <<cur, last, chan, sub, late, skipped>>
  \* datacake-eventual-consistency/src/lib.rs watch_membership_changes: the change goes to both services
  /\ dq' = IF WithConsumers THEN Append(dq, chan) ELSE dq
  /\ pq' = IF WithConsumers THEN Append(pq, chan) ELSE pq
  /\ UNCHANGED <<dmap, pmap, ptrk>>
  /\ hist' = Append(hist, [op |-> "read", expect |-> cur, late |-> late, skipped |-> skipped])

\* everything a service finds in its channel at a tick, applied in arrival order
RECURSIVE Drain(_, _)
Drain(m, q) == IF q = <<>> THEN m ELSE Drain(ApplyDelta(m, Head(q)), Tail(q))
IdsOf(m) == { i \in Ids : m[i] # 0 }
RECURSIVE DrainTrk(_, _)
DrainTrk(t, q) == IF q = <<>> THEN t ELSE DrainTrk(t \ { p[1] : p \in Head(q).left }, Tail(q))

\* replication/distributor.rs: the tick drains the channel; a batch built at this tick goes to dmap'
DistTick ==
  /\ Len(hist) < MaxSteps
  /\ WithConsumers /\ dq # <<>>
  /\ dmap' = Drain(dmap, dq)
  /\ dq' = <<>>
  /\ UNCHANGED <<cur, last, chan, sub, first, seen, map, late, skipped, pq, pmap, ptrk>>
  /\ hist' = Append(hist, [op |-> "dtick"])

\* replication/poller.rs: the round drains the channel (a departed peer is forgotten by the keyspace tracker),
\* then polls every live member, which the tracker remembers from then on
PollRound ==
  /\ Len(hist) < MaxSteps
  /\ WithConsumers /\ (pq # <<>> \/ ptrk # IdsOf(pmap))
  /\ pmap' = Drain(pmap, pq)
  /\ ptrk' = DrainTrk(ptrk, pq) \cup IdsOf(Drain(pmap, pq))
  /\ pq' = <<>>
  /\ UNCHANGED <<cur, last, chan, sub, first, seen, map, late, skipped, dq, dmap>>
  /\ hist' = Append(hist, [op |-> "pround"])

Next == (\E s \in Snapshots : Publish(s)) \/ Subscribe \/ Read \/ DistTick \/ PollRound
Spec == Init /\ [][Next]_vars

----------------------------------------------------------------------------
\* C16

\* whenever the subscriber has read everything available it holds exactly the live membership
C16_AddsUp == CaughtUp => map = cur
\* the same, excluding behaviours that match a listed known finding (late subscriber / skipped delta)
C16_AddsUpModuloKnown == (CaughtUp /\ ~late /\ ~skipped) => map = cur
\* every departure is reported with the address the node had
C16_LeftReported ==
  [][ chan'.ver # chan.ver => /\ chan'.left = ExpectedLeft(last, cur')
                              /\ chan'.joined = ExpectedJoined(last, cur') ]_vars

\* the consumers: once the store's watcher has read everything and a service has drained its channel, the service
\* addresses exactly the live peers (same known findings as the subscriber they sit behind)
C16_ConsumersAddUp ==
  (WithConsumers /\ CaughtUp /\ ~late /\ ~skipped) => /\ (dq = <<>> => dmap = cur)
                                                       /\ (pq = <<>> => pmap = cur)
\* the keyspace tracker never remembers a peer the replication cycle no longer polls
C16_TrackerLive == ptrk \subseteq IdsOf(pmap)
\* whatever the subscriber holds, the consumers hold once drained (they apply the same deltas in the same order)
C16_ConsumersFollow == (dq = <<>> => dmap = map) /\ (pq = <<>> => pmap = map)

Emit == IF EmitHist /\ (Len(hist) = MaxSteps \/ (chan.ver = MaxPub /\ CaughtUp))
           /\ hist # <<>> /\ hist[Len(hist)].op = "read"
        THEN PrintT(<<"HIST", ToJson([hist |-> hist])>>) ELSE TRUE
\* generation for the consumers replay: the store's watcher reads a change as soon as it is published, so only
\* behaviours without a known finding are of interest, every one that ends in a read which caught up
NoKnown == ~late /\ ~skipped
EmitC == IF EmitHist /\ CaughtUp /\ hist # <<>> /\ hist[Len(hist)].op = "read"
         THEN PrintT(<<"HIST", ToJson([hist |-> hist])>>) ELSE TRUE
=============================================================================
