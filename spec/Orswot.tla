------------------------------ MODULE Orswot ------------------------------
(* Faithful layer for datacake-crdt/src/orswot.rs (OrSWotSet<N>) and the     *)
(* property-level oracles for C03/C04/C05/C08.                               *)
(*                                                                           *)
(* A set state is a record                                                   *)
(*   ent  : key -> stamp | None      `entries`                               *)
(*   dead : key -> stamp | None      `dead` (tombstones)                     *)
(*   mx   : source -> node -> stamp | None   `versions.nodes_max_stamps`     *)
(*   safe : node -> stamp | None     `versions.safe_last_stamps`             *)
(*                                                                           *)
(* Every operator below is a branch-by-branch transcription of the function  *)
(* named in its comment.  Deliberate deviations: none for distinct stamps;   *)
(* with equal stamps on different keys the order of tombstones inside        *)
(* `merge`'s stable sort depends on HashMap iteration order in the code and  *)
(* is fixed here to key order (irrelevant: keys are independent).            *)
(*                                                                           *)
(* FixD6 = TRUE  is the code after the `fix:` commit that makes the mutators *)
(*               refuse exactly what `will_apply` refuses.                   *)
(* FixD6 = FALSE is the code as originally pinned (kept so the self-test can *)
(*               show the checks catch the original defect).                 *)
EXTENDS Timestamp

CONSTANTS Keys,      \* document ids
          Nodes,     \* origin node ids (naturals)
          Sources,   \* source indexes 0..N-1
          F,         \* forgiveness period in model time units
          FixD6

EmptySet == [ent  |-> [k \in Keys |-> None],
             dead |-> [k \in Keys |-> None],
             mx   |-> [s \in Sources |-> [n \in Nodes |-> None]],
             safe |-> [n \in Nodes |-> None]]

\* HLCTimestamp::new(min.datacake_timestamp().saturating_sub(FORGIVENESS_PERIOD), min.counter(), min.node())
MinusF(a) == <<IF a[1] >= F THEN a[1] - F ELSE 0, a[2], a[3]>>

\* NodeVersions::compute_safe_last_stamp
ComputeSafe(mx, n) ==
  MinusF(MinOf({ IF mx[s][n] = None THEN <<0, 0, n>> ELSE mx[s][n] : s \in Sources }))

\* NodeVersions::is_ts_before_last_observed_event
BeforeSafe(st, ts) ==
  IF st.safe[ts[3]] = None THEN FALSE ELSE Lt(ts, st.safe[ts[3]])

\* NodeVersions::try_update_max_stamp  ->  <<accepted, st'>>
TryUpd(st, s, ts) ==
  LET n   == ts[3]
      old == st.mx[s][n]
  IN IF FixD6
     THEN IF BeforeSafe(st, ts)
          THEN <<FALSE, st>>
          ELSE LET mx2 == [st.mx EXCEPT ![s][n] = IF old = None THEN ts ELSE MaxTs(old, ts)]
               IN <<TRUE, [st EXCEPT !.mx = mx2, !.safe[n] = ComputeSafe(mx2, n)]>>
     ELSE LET rej == IF old = None THEN FALSE ELSE Lt(ts, old)
              mx2 == IF rej THEN st.mx ELSE [st.mx EXCEPT ![s][n] = ts]
          IN <<~rej, [st EXCEPT !.mx = mx2, !.safe[n] = ComputeSafe(mx2, n)]>>

\* OrSWotSet::will_apply
WillApply(st, k, ts) ==
  IF BeforeSafe(st, ts) THEN FALSE
  ELSE IF st.ent[k]  # None THEN Lt(st.ent[k], ts)
  ELSE IF st.dead[k] # None THEN Lt(st.dead[k], ts)
  ELSE TRUE

\* OrSWotSet::insert_with_source  ->  <<has_set, st'>>
InsertWS(st, s, k, ts) ==
  LET r   == TryUpd(st, s, ts)
      st1 == r[2]
  IN IF ~r[1] THEN <<FALSE, st1>>
     ELSE IF st1.dead[k] # None /\ Lt(ts, st1.dead[k]) THEN <<FALSE, st1>>
     ELSE LET st2 == [st1 EXCEPT !.dead[k] = None]
          IN IF st2.ent[k] = None \/ Lt(st2.ent[k], ts)
             THEN <<TRUE, [st2 EXCEPT !.ent[k] = ts]>>
             ELSE <<FALSE, st2>>

\* OrSWotSet::delete_with_source  ->  <<has_set, st'>>
DeleteWS(st, s, k, ts) ==
  LET r   == TryUpd(st, s, ts)
      st1 == r[2]
  IN IF ~r[1] THEN <<FALSE, st1>>
     ELSE IF st1.ent[k] # None /\ Le(ts, st1.ent[k]) THEN <<FALSE, st1>>   \* inserts win exact ties
     ELSE LET st2 == [st1 EXCEPT !.ent[k] = None]
          IN IF st2.dead[k] = None \/ Lt(st2.dead[k], ts)
             THEN <<TRUE, [st2 EXCEPT !.dead[k] = ts]>>
             ELSE <<FALSE, st2>>

\* OrSWotSet::purge_old_deletes  ->  <<purged (set of <<k, ts>>), st'>>
Purge(st) ==
  LET gone == { k \in Keys : st.dead[k] # None /\ BeforeSafe(st, st.dead[k]) }
  IN << { <<k, st.dead[k]>> : k \in gone },
        [st EXCEPT !.dead = [k \in Keys |-> IF k \in gone THEN None ELSE st.dead[k]]] >>

\* OrSWotSet::add_raw_tombstones (tombs: set of <<k, ts>>, at most one per key)
AddRawTombstones(st, tombs) ==
  [st EXCEPT !.dead = [k \in Keys |->
      IF \E p \in tombs : p[1] = k THEN (CHOOSE p \in tombs : p[1] = k)[2] ELSE st.dead[k]]]

\* OrSWotSet::check_self_then_insert_to
DiffCheck(self, k, ts) ==
  IF self.ent[k]  # None THEN Lt(self.ent[k], ts)
  ELSE IF self.dead[k] # None THEN Lt(self.dead[k], ts)
  ELSE ~BeforeSafe(self, ts)

\* OrSWotSet::diff  ->  <<changes, removals>>, each a set of <<k, ts>>
Diff(self, other) ==
  << { <<k, other.ent[k]>>  : k \in { k \in Keys : other.ent[k]  # None /\ DiffCheck(self, k, other.ent[k]) } },
     { <<k, other.dead[k]>> : k \in { k \in Keys : other.dead[k] # None /\ DiffCheck(self, k, other.dead[k]) } } >>

----------------------------------------------------------------------------
\* OrSWotSet::merge

\* log entries are <<k, ts, isDel>>; sort_by_key(ts) is stable: entries (key order) precede tombstones
LogLe(x, y) ==
  \/ Lt(x[2], y[2])
  \/ x[2] = y[2] /\ (~x[3] /\ y[3])
  \/ x[2] = y[2] /\ x[3] = y[3] /\ x[1] <= y[1]

\* one iteration of `for (key, ts, is_delete) in entries_log`; acc = [ent, dead, old]
MergeStep(acc, self, e) ==
  LET k == e[1]  ts == e[2]  isDel == e[3]
  IN IF isDel /\ BeforeSafe(self, ts) THEN acc
     ELSE IF isDel
          THEN IF acc.ent[k] # None /\ Lt(ts, acc.ent[k]) THEN acc
               ELSE [acc EXCEPT !.ent[k] = None, !.dead[k] = MaxOpt(@, ts)]
          ELSE LET t1   == IF acc.old[k] # None THEN MaxTs(ts, acc.old[k]) ELSE ts
                   acc1 == [acc EXCEPT !.old[k] = None]
               IN IF acc1.dead[k] # None /\ Lt(t1, acc1.dead[k]) THEN acc1
                  ELSE [acc1 EXCEPT !.dead[k] = None, !.ent[k] = t1]

RECURSIVE MergeFold(_, _, _)
MergeFold(acc, self, log) ==
  IF log = {} THEN acc
  ELSE LET e == CHOOSE x \in log : \A y \in log : LogLe(x, y)
       IN MergeFold(MergeStep(acc, self, e), self, log \ {e})

\* `for (key, ts) in old_entries` (keys independent, so done pointwise)
MergeLeftover(acc, other, k) ==
  LET ts == acc.old[k]
  IN IF ts = None THEN <<acc.ent[k], acc.dead[k]>>
     ELSE IF BeforeSafe(other, ts) THEN <<acc.ent[k], acc.dead[k]>>
     ELSE IF acc.dead[k] # None /\ Lt(ts, acc.dead[k]) THEN <<acc.ent[k], acc.dead[k]>>
     ELSE <<ts, None>>

\* NodeVersions::merge
MergeVersions(self, other) ==
  LET mx2 == [s \in Sources |-> [n \in Nodes |->
                IF other.mx[s][n] = None THEN self.mx[s][n]
                ELSE IF self.mx[s][n] # None /\ Lt(other.mx[s][n], self.mx[s][n]) THEN self.mx[s][n]
                ELSE other.mx[s][n]]]
      touched == { n \in Nodes : \E s \in Sources : other.mx[s][n] # None }
  IN [mx |-> mx2,
      safe |-> [n \in Nodes |-> IF n \in touched THEN ComputeSafe(mx2, n) ELSE self.safe[n]]]

Merge(self, other) ==
  LET log  == { <<k, other.ent[k], FALSE>> : k \in { k \in Keys : other.ent[k] # None } }
              \cup { <<k, other.dead[k], TRUE>> : k \in { k \in Keys : other.dead[k] # None } }
      acc0 == [ent |-> [k \in Keys |-> None], dead |-> self.dead, old |-> self.ent]
      acc  == MergeFold(acc0, self, log)
      v    == MergeVersions(self, other)
  IN [ent  |-> [k \in Keys |-> MergeLeftover(acc, other, k)[1]],
      dead |-> [k \in Keys |-> MergeLeftover(acc, other, k)[2]],
      mx   |-> v.mx,
      safe |-> v.safe]

----------------------------------------------------------------------------
\* How the keyspace actor applies a batch (on_multi_set / on_multi_del): filter with
\* will_apply on the state before the batch, sort by stamp, apply through `src`.
\* items: set of <<k, ts>>.  (Storage effects are modelled in Keyspace.tla.)
RECURSIVE ApplySorted(_, _, _, _)
ApplySorted(st, src, items, isDel) ==
  IF items = {} THEN st
  ELSE LET e == CHOOSE x \in items : \A y \in items : Le(x[2], y[2])
           r == IF isDel THEN DeleteWS(st, src, e[1], e[2]) ELSE InsertWS(st, src, e[1], e[2])
       IN ApplySorted(r[2], src, items \ {e}, isDel)
ApplyBatch(st, src, items, isDel) ==
  ApplySorted(st, src, { e \in items : WillApply(st, e[1], e[2]) }, isDel)

\* One repair exchange at the level of the set: the difference against `peer` applied through
\* source `src`, removals first or modifications first (poller.rs runs the two halves concurrently).
ApplyDiff(st, peer, src, removalsFirst) ==
  LET d == Diff(st, peer)
  IN IF removalsFirst
     THEN LET s1 == ApplyBatch(st, src, d[2], TRUE) IN ApplyBatch(s1, src, d[1], FALSE)
     ELSE LET s1 == ApplyBatch(st, src, d[1], FALSE) IN ApplyBatch(s1, src, d[2], TRUE)

----------------------------------------------------------------------------
\* Observables (what `get` and `default().diff(&set)` expose)

Live(st)  == [k \in Keys |-> st.ent[k]]                  \* get(k)
Tombs(st) == [k \in Keys |-> st.dead[k]]
\* the view of one key: <<"live", ts>>, <<"dead", ts>> or None
KeyView(st, k) == IF st.ent[k] # None THEN <<"live", st.ent[k]>>
                  ELSE IF st.dead[k] # None THEN <<"dead", st.dead[k]>>
                  ELSE None
\* a well-formed set never holds a key both live and tombstoned
WellFormed(st) == \A k \in Keys : ~(st.ent[k] # None /\ st.dead[k] # None)

----------------------------------------------------------------------------
\* Oracle layer (written from the property statements, independent of the code)

\* ops: set of records [k, ts, del].  LWW winner per key = the op with the greatest stamp.
LWWWinner(ops, k) ==
  LET mine == { o \in ops : o.k = k }
  IN IF mine = {} THEN None
     ELSE CHOOSE o \in mine : \A p \in mine : Le(p.ts, o.ts)
\* expected get(k): the winner's stamp if it is an insert, None otherwise
LWWLive(ops) == [k \in Keys |-> LET w == LWWWinner(ops, k)
                                IN IF w = None THEN None ELSE IF w.del THEN None ELSE w.ts]

\* C05 (i): what `a.diff(b)` must list, from the statement.
\*   key listed iff peer's insert/delete is strictly newer than what `a` holds for it, or,
\*   if `a` holds nothing, not older than `a`'s purge cut-off for that origin.
DiffSpecCheck(a, k, ts) ==
  LET mine == IF a.ent[k] # None THEN a.ent[k] ELSE a.dead[k]
  IN IF mine # None THEN Lt(mine, ts)
     ELSE a.safe[ts[3]] = None \/ ~Lt(ts, a.safe[ts[3]])
DiffSpec(a, b) ==
  << { <<k, b.ent[k]>>  : k \in { k \in Keys : b.ent[k]  # None /\ DiffSpecCheck(a, k, b.ent[k]) } },
     { <<k, b.dead[k]>> : k \in { k \in Keys : b.dead[k] # None /\ DiffSpecCheck(a, k, b.dead[k]) } } >>
=============================================================================
