------------------------------- MODULE Poller -------------------------------
(* The replication cycle's bookkeeping against one peer that holds several     *)
(* keyspaces (datacake-eventual-consistency/src/replication/poller.rs):        *)
(*   repair_members -> check_node_changes: poll_keyspace (the peer's change    *)
(*   stamp per keyspace), KeyspaceTracker::get_diff (keyspaces whose stamp     *)
(*   differs from the one remembered), one get_keyspace_diff task per such     *)
(*   keyspace (the peer's GetState handler: read the stamp, then serialize     *)
(*   the state - two questions to the keyspace actor, mutations may come in    *)
(*   between), all awaited; then begin_keyspace_sync per keyspace, one after   *)
(*   the other, each of which may fail; only a successful one is remembered    *)
(*   (KeyspaceTracker::set_keyspace with the stamp that came with the state).  *)
(* Contents are abstracted to a version number per keyspace: what matters here *)
(* is whether the tracker can ever say "nothing changed" while the local node  *)
(* lacks something (C01's poller fixpoint, per keyspace).                      *)
(* begin_keyspace_sync can also give up: its progress watcher sees no progress *)
(* for KEYSPACE_SYNC_TIMEOUT, the call returns an error, and the modification  *)
(* half (a spawned task) is "left to run": what it fetched may still land      *)
(* later, or be refused by the storage (`late`).  A sync given up is not       *)
(* remembered.                                                                 *)
(* StampLast / RememberPolled / RememberAll / RememberTimedOut /               *)
(* RememberPartial are NOT the code: each is a plausible variation that TLC    *)
(* shows to be unsound.                                                        *)
EXTENDS Naturals, FiniteSets, TLC

CONSTANTS Keyspaces, MaxMut, MaxRounds,
          StampLast,        \* the handler serializes first and reads the stamp afterwards
          RememberPolled,   \* the tracker remembers the stamp of the poll instead of the one that came with the state
          RememberAll,      \* one successful sync marks every polled keyspace as synchronised
          RememberTimedOut, \* a sync that was given up (no progress within the timeout) is remembered like a finished one
          RememberPartial   \* a sync that deliberately repairs only a part of the difference (a cap per round) is remembered all the same

VARIABLES chg,     \* peer: keyspace -> change stamp (0 = the keyspace does not exist yet)
          ver,     \* peer: keyspace -> content version
          trk,     \* local: keyspace -> stamp remembered (0 = none)
          seen,    \* local: keyspace -> content version incorporated
          phase,   \* "idle" | "polled" | "syncing"
          polled,  \* the stamps of the last poll
          todo,    \* keyspaces of this round whose state has still to be fetched
          got,     \* keyspace -> [lu, st] fetched in this round
          half,    \* keyspace -> stamp read, state not yet serialized (the handler between its two questions)
          late,    \* keyspace -> content version a modification half that was left to run may still write (0 = none)
          muts, rounds
vars == <<chg, ver, trk, seen, phase, polled, todo, got, half, late, muts, rounds>>

None == [lu |-> 0, st |-> 0]
Init ==
  /\ chg = [k \in Keyspaces |-> 0] /\ ver = [k \in Keyspaces |-> 0]
  /\ trk = [k \in Keyspaces |-> 0] /\ seen = [k \in Keyspaces |-> 0]
  /\ phase = "idle" /\ polled = [k \in Keyspaces |-> 0]
  /\ todo = {} /\ got = [k \in Keyspaces |-> None] /\ half = [k \in Keyspaces |-> 0]
  /\ late = [k \in Keyspaces |-> 0]
  /\ muts = 0 /\ rounds = 0

\* a request handled by the peer's keyspace actor: it changes the content and bumps the stamp, or (a bulk request that
\* applied nothing) only bumps the stamp
PeerMutate(k, changes) ==
  /\ muts < MaxMut
  /\ muts' = muts + 1
  /\ chg' = [chg EXCEPT ![k] = @ + 1]
  /\ ver' = IF changes THEN [ver EXCEPT ![k] = @ + 1] ELSE ver
  /\ UNCHANGED <<trk, seen, phase, polled, todo, got, half, late, rounds>>

\* check_node_changes: poll_keyspace + KeyspaceTracker::get_diff
Poll ==
  /\ phase = "idle" /\ rounds < MaxRounds
  /\ rounds' = rounds + 1
  /\ polled' = chg
  /\ todo' = { k \in Keyspaces : chg[k] # 0 /\ trk[k] # chg[k] }
  /\ got' = [k \in Keyspaces |-> None] /\ half' = [k \in Keyspaces |-> 0]
  /\ phase' = "polled"
  /\ UNCHANGED <<chg, ver, trk, seen, late, muts>>

\* the peer's GetState handler, first question (LastUpdated - or, in the unsound variation, Serialize)
ReadStamp(k) ==
  /\ phase = "polled" /\ k \in todo /\ half[k] = 0 /\ got[k] = None
  /\ half' = [half EXCEPT ![k] = IF StampLast THEN ver[k] + 1 ELSE chg[k]]       \* (+1: distinguishes "taken" from "not yet")
  /\ UNCHANGED <<chg, ver, trk, seen, phase, polled, todo, got, late, muts, rounds>>
\* second question; get_keyspace_diff returns (stamp, state)
TakeState(k) ==
  /\ phase = "polled" /\ k \in todo /\ half[k] # 0
  /\ got' = [got EXCEPT ![k] = IF StampLast THEN [lu |-> chg[k], st |-> half[k] - 1] ELSE [lu |-> half[k], st |-> ver[k]]]
  /\ todo' = todo \ {k}
  /\ half' = [half EXCEPT ![k] = 0]
  /\ UNCHANGED <<chg, ver, trk, seen, phase, polled, late, muts, rounds>>
\* all diff tasks have been awaited
StartSync ==
  /\ phase = "polled" /\ todo = {}
  /\ phase' = "syncing"
  /\ UNCHANGED <<chg, ver, trk, seen, polled, todo, got, half, late, muts, rounds>>

\* begin_keyspace_sync of one keyspace: "ok" = it repairs up to the state that was fetched, and is remembered; "fail" = a half
\* failed; "timeout" = the progress watcher gave up, the call returns an error and the modification half is left to run
Sync(k, out) ==
  /\ phase = "syncing" /\ got[k] # None
  /\ got' = [got EXCEPT ![k] = None]
  /\ seen' = IF out = "ok" /\ got[k].st > seen[k]
             THEN [seen EXCEPT ![k] = IF RememberPartial /\ got[k].st > seen[k] + 1 THEN got[k].st - 1 ELSE got[k].st]
             ELSE seen
  /\ late' = IF out = "timeout" /\ got[k].st > late[k] THEN [late EXCEPT ![k] = got[k].st] ELSE late
  /\ trk' = IF out = "fail" \/ (out = "timeout" /\ ~RememberTimedOut) THEN trk
            ELSE IF RememberAll THEN [j \in Keyspaces |-> IF polled[j] # 0 THEN polled[j] ELSE trk[j]]
            ELSE [trk EXCEPT ![k] = IF RememberPolled THEN polled[k] ELSE got[k].lu]
  /\ UNCHANGED <<chg, ver, phase, polled, todo, half, muts, rounds>>
\* the task that was left to run gets its write through after all (last writer wins: nothing newer is undone) ...
LateLand(k) ==
  /\ late[k] # 0
  /\ seen' = IF late[k] > seen[k] THEN [seen EXCEPT ![k] = late[k]] ELSE seen
  /\ late' = [late EXCEPT ![k] = 0]
  /\ UNCHANGED <<chg, ver, trk, phase, polled, todo, got, half, muts, rounds>>
\* ... or the storage refuses it / the fetch behind it fails
LateDrop(k) ==
  /\ late[k] # 0
  /\ late' = [late EXCEPT ![k] = 0]
  /\ UNCHANGED <<chg, ver, trk, seen, phase, polled, todo, got, half, muts, rounds>>
EndRound ==
  /\ phase = "syncing" /\ \A k \in Keyspaces : got[k] = None
  /\ phase' = "idle"
  /\ UNCHANGED <<chg, ver, trk, seen, polled, todo, got, half, late, muts, rounds>>

Next ==
  \/ \E k \in Keyspaces, c \in BOOLEAN : PeerMutate(k, c)
  \/ Poll \/ StartSync \/ EndRound
  \/ \E k \in Keyspaces : ReadStamp(k) \/ TakeState(k)
  \/ \E k \in Keyspaces, out \in {"ok", "fail", "timeout"} : Sync(k, out)
  \/ \E k \in Keyspaces : LateLand(k) \/ LateDrop(k)
Spec == Init /\ [][Next]_vars

----------------------------------------------------------------------------
\* the tracker never says "this keyspace has not changed" while the local node lacks some of it
TrackerSound == \A k \in Keyspaces : (trk[k] # 0 /\ trk[k] = chg[k]) => seen[k] = ver[k]
\* what is remembered never runs ahead of what the peer has announced
TrackerBehind == \A k \in Keyspaces : trk[k] <= chg[k]
=============================================================================
