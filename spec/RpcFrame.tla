------------------------------ MODULE RpcFrame ------------------------------
(* Framing of RPC payloads (datacake-rpc/src/rkyv_tooling): a frame is the    *)
(* archived body followed by a checksum trailer; `DataView::using` accepts a  *)
(* frame iff it is long enough to hold the fixed-size part of the message and *)
(* the trailer, and the trailer equals the checksum of the rest.              *)
(*                                                                            *)
(* Two layers:                                                                *)
(*  - `Accept(len, minLen, crcOk)`: the acceptance rule over the observables  *)
(*    the harness logs for real frames (used by Trace_RpcFrame);              *)
(*  - a toy-scale bit-level model (bodies of a few bits, CRC-3 with           *)
(*    polynomial x^3 + x + 1) of one request/reply exchange whose frames the  *)
(*    network may damage, checked exhaustively by TLC.                        *)
EXTENDS Naturals, Sequences, FiniteSets, TLC

\* the rule (trailer length TL: 4 bytes in the code, 3 bits in the toy model)
Accept(len, minLen, tl, crcOk) == len >= minLen + tl /\ crcOk

----------------------------------------------------------------------------
\* toy bit-level model

CONSTANTS MinLen,     \* fixed-size part of every message, in bits
          MaxBody,    \* longest body, in bits
          CheckLength \* TRUE: the code after the fix (length test); FALSE: checksum only

TL == 3
Bits == {0, 1}
Xor(a, b) == IF a = b THEN 0 ELSE 1

\* remainder of (bits ++ 000) modulo x^3 + x + 1, processed one bit at a time
RECURSIVE CrcStep(_, _)
CrcStep(reg, bits) ==
  IF bits = <<>> THEN reg
  ELSE LET fb == Xor(reg[1], Head(bits))
           r2 == <<Xor(reg[2], 0), Xor(reg[3], fb), fb>>    \* shift left, xor poly 011 when feedback
       IN CrcStep(<<r2[1], r2[2], r2[3]>>, Tail(bits))
Crc(bits) == CrcStep(<<0, 0, 0>>, bits)

Encode(body) == body \o Crc(body)
BodyOf(f) == SubSeq(f, 1, Len(f) - TL)
TrailerOf(f) == SubSeq(f, Len(f) - TL + 1, Len(f))
\* DataView::using on the toy frame
Accepts(f) ==
  /\ Len(f) >= TL
  /\ CheckLength => Len(f) >= MinLen + TL
  /\ TrailerOf(f) = Crc(BodyOf(f))
CrcOk(f) == Len(f) >= TL /\ TrailerOf(f) = Crc(BodyOf(f))

Bodies == UNION { [1..n -> Bits] : n \in MinLen..MaxBody }
Flip(f, i) == [f EXCEPT ![i] = 1 - @]

\* static facts about the framing (checked as ASSUMEs by TLC)
EveryFlipRefused    == \A b \in Bodies : \A i \in 1..Len(Encode(b)) : ~Accepts(Flip(Encode(b), i))
ShortFramesRefused  == \A b \in Bodies : \A n \in 0..(MinLen + TL - 1) : n <= Len(Encode(b)) => ~Accepts(SubSeq(Encode(b), 1, n))
IntactAccepted      == \A b \in Bodies : Accepts(Encode(b)) /\ BodyOf(Encode(b)) = b
\* the implementation rule agrees with the bit-level model
RuleAgrees          == \A b \in Bodies : \A n \in 0..Len(Encode(b)) :
                          LET f == SubSeq(Encode(b), 1, n)
                          IN Accepts(f) = Accept(Len(f), IF CheckLength THEN MinLen ELSE 0, TL, CrcOk(f))

----------------------------------------------------------------------------
\* one request / reply exchange over a network that may damage each frame once

VARIABLES phase,      \* "start", "sent", "replied", "done"
          sent,       \* the body the client sent
          wire,       \* the frame in flight
          dreq, drep, \* damage done to the request / reply frame: "none", "flip", "trunc", "ext"
          seen,       \* what the handler observed (or <<"none">>)
          runs,       \* handler executions
          reply,      \* the handler's reply body
          outcome     \* what the client observed: <<"ok", body>>, <<"invalid">>
vars == <<phase, sent, wire, dreq, drep, seen, runs, reply, outcome>>

Init == /\ phase = "start" /\ sent = <<>> /\ wire = <<>> /\ seen = <<"none">> /\ runs = 0
        /\ reply = <<>> /\ outcome = <<"none">> /\ dreq = "none" /\ drep = "none"

ClientSend(b) == /\ phase = "start" /\ phase' = "sent" /\ sent' = b /\ wire' = Encode(b)
                 /\ UNCHANGED <<seen, runs, reply, outcome, dreq, drep>>

\* the network damages the frame in flight (at most once per leg)
Damage == /\ \/ phase = "sent" /\ dreq = "none"
             \/ phase = "replied" /\ drep = "none"
          /\ \E kind \in {"flip", "trunc", "ext"} :
               /\ CASE kind = "flip"  -> \E i \in 1..Len(wire) : wire' = Flip(wire, i)
                    [] kind = "trunc" -> \E n \in 0..(Len(wire) - 1) : wire' = SubSeq(wire, 1, n)
                    [] kind = "ext"   -> \E x \in Bits : wire' = Append(wire, x)
               /\ IF phase = "sent" THEN dreq' = kind /\ drep' = drep ELSE drep' = kind /\ dreq' = dreq
          /\ UNCHANGED <<phase, sent, seen, runs, reply, outcome>>

\* the reply the handler computes: the request body reversed (any function would do)
ReplyFor(b) == [i \in 1..Len(b) |-> b[Len(b) + 1 - i]]

ServerHandle == /\ phase = "sent"
                /\ IF Accepts(wire)
                   THEN /\ seen' = BodyOf(wire) /\ runs' = runs + 1
                        /\ reply' = ReplyFor(BodyOf(wire)) /\ wire' = Encode(ReplyFor(BodyOf(wire)))
                        /\ phase' = "replied" /\ UNCHANGED outcome
                   ELSE /\ outcome' = <<"invalid">> /\ phase' = "done"
                        /\ UNCHANGED <<seen, runs, reply, wire>>
                /\ UNCHANGED <<sent, dreq, drep>>

ClientObserve == /\ phase = "replied"
                 /\ outcome' = IF Accepts(wire) THEN <<"ok", BodyOf(wire)>> ELSE <<"invalid">>
                 /\ phase' = "done"
                 /\ UNCHANGED <<sent, wire, seen, runs, reply, dreq, drep>>

Next == (\E b \in Bodies : ClientSend(b)) \/ Damage \/ ServerHandle \/ ClientObserve
Spec == Init /\ [][Next]_vars

\* C12 on the toy model
AtMostOnce == runs <= 1
\* an undamaged request reaches the handler unchanged; a bit flip or a cut below the fixed part never runs a handler
HandlerSeesWhatWasSent == (runs > 0 /\ dreq = "none") => seen = sent
NoHandlerOnDamagedFrame == (runs > 0) => /\ dreq # "flip"
                                        /\ Len(seen) >= (IF CheckLength THEN MinLen ELSE 0)
\* an undamaged reply reaches the client unchanged; a flipped reply is reported as invalid
ClientSeesReply == (phase = "done" /\ runs = 1) =>
                     /\ drep = "none" => outcome = <<"ok", reply>>
                     /\ drep = "flip" => outcome = <<"invalid">>
=============================================================================
