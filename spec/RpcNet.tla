------------------------------- MODULE RpcNet -------------------------------
(* One RPC client and one server over a network that can be partitioned or     *)
(* held and later repaired / released (datacake-rpc: net/client.rs,            *)
(* net/simulation.rs, client.rs; exercised in a turmoil simulation).           *)
(* The client opens its connection lazily (connect timeout 2 s), may use a      *)
(* per-request timeout (a number of ticks from TmoTicks, 0 = none; shorter,     *)
(* equal to and longer than the connect timeout) and may have several requests  *)
(* in flight.  Time advances in ticks of 500 ms; a request with a timeout of n  *)
(* ticks must be answered or timed out by tick n (timeouts are urgent),         *)
(* whether it is still connecting or already sent.                              *)
(* The model is deliberately permissive about WHICH failure a fault produces    *)
(* (a partition may break a request or merely delay it); C14 only demands that  *)
(* every outcome is the handler's reply for that very request, a connection     *)
(* error or a timeout, that no handler runs twice, and the timeout bound.       *)
(* A reply travels in two parts, its head and its body (client.rs: send_parts   *)
(* returns with the head, from_body reads the rest): a fault can land between   *)
(* the two.  BodyUncovered = TRUE is the code as it was before the repair       *)
(* (the timeout covered the head only, a body cut off was an internal error):   *)
(* TLC then finds C14_TimeoutBound and C14_Outcome violated.                    *)
EXTENDS Naturals, Sequences, FiniteSets, TLC, Json

CONSTANTS Reqs,        \* request ids
          TmoTicks,    \* the timeouts a request may be sent with, in ticks (0 = without timeout)
          MaxFaults, MaxTicks, EmitSched,
          BodyUncovered   \* TRUE: the unsound variation (timeout ends with the reply's head)

VARIABLES link,     \* "up" | "held" | "down"
          conn,     \* the lazy connection exists
          st,       \* r -> "idle" | "connecting" | "to_server" | "at_server" | "to_client" | "body" | "done"
          tmo,      \* r -> the timeout the request was sent with, in ticks (0 = none)
          age,      \* r -> ticks since it was sent
          out,      \* r -> "none" | "reply" | "ConnectionError" | "Timeout" (| "InternalError" in the unsound variation)
          runs,     \* r -> handler executions
          faults, ticks, faulted,
          sched     \* the external schedule so far (faults, sends, ticks) - replayed in turmoil
vars == <<link, conn, st, tmo, age, out, runs, faults, ticks, faulted, sched>>

Init ==
  /\ link = "up" /\ conn = FALSE
  /\ st = [r \in Reqs |-> "idle"] /\ tmo = [r \in Reqs |-> 0] /\ age = [r \in Reqs |-> 0]
  /\ out = [r \in Reqs |-> "none"] /\ runs = [r \in Reqs |-> 0]
  /\ faults = 0 /\ ticks = 0 /\ faulted = FALSE /\ sched = <<>>

Active(r) == st[r] \notin {"idle", "done"}
Ext(e) == sched' = Append(sched, e)

Fault(kind) ==
  /\ faults < MaxFaults
  /\ CASE kind = "partition" -> link' = "down"
       [] kind = "hold"      -> link' = "held"
       [] kind = "repair"    -> link # "up" /\ link' = "up"
       [] kind = "release"   -> link # "up" /\ link' = "up"
  /\ faults' = faults + 1 /\ faulted' = TRUE
  /\ Ext([e |-> kind])
  /\ UNCHANGED <<conn, st, tmo, age, out, runs, ticks>>

Send(r, withTimeout) ==
  /\ st[r] = "idle"
  /\ \A q \in Reqs : q < r => st[q] # "idle"                 \* requests are started in id order
  /\ st' = [st EXCEPT ![r] = IF conn THEN "to_server" ELSE "connecting"]
  /\ tmo' = [tmo EXCEPT ![r] = withTimeout]
  /\ Ext([e |-> "send", r |-> r, timeout |-> withTimeout])
  /\ UNCHANGED <<link, conn, age, out, runs, faults, ticks, faulted>>

Finish(r, o) == st' = [st EXCEPT ![r] = "done"] /\ out' = [out EXCEPT ![r] = o]

\* internal steps (not part of the external schedule)
ConnectOk(r) == /\ st[r] = "connecting" /\ link = "up" /\ conn' = TRUE /\ st' = [st EXCEPT ![r] = "to_server"]
                /\ UNCHANGED <<link, tmo, age, out, runs, faults, ticks, faulted, sched>>
ConnectFail(r) == /\ st[r] = "connecting" /\ (link = "down" \/ (link = "held" /\ age[r] >= 4)) /\ Finish(r, "ConnectionError")
                  /\ UNCHANGED <<link, conn, tmo, age, runs, faults, ticks, faulted, sched>>
ToServer(r) == /\ st[r] = "to_server" /\ link = "up" /\ st' = [st EXCEPT ![r] = "at_server"]
               /\ runs' = [runs EXCEPT ![r] = @ + 1]
               /\ UNCHANGED <<link, conn, tmo, age, out, faults, ticks, faulted, sched>>
Handle(r) == /\ st[r] = "at_server" /\ st' = [st EXCEPT ![r] = "to_client"]
             /\ UNCHANGED <<link, conn, tmo, age, out, runs, faults, ticks, faulted, sched>>
\* the reply's head reaches the client (send_parts returns) ...
ToClient(r) == /\ st[r] = "to_client" /\ link = "up" /\ st' = [st EXCEPT ![r] = "body"]
               /\ UNCHANGED <<link, conn, tmo, age, out, runs, faults, ticks, faulted, sched>>
\* ... then its body (from_body has read it to the end)
BodyArrives(r) == /\ st[r] = "body" /\ link = "up" /\ Finish(r, "reply")
                  /\ UNCHANGED <<link, conn, tmo, age, runs, faults, ticks, faulted, sched>>
Broken(r) == /\ st[r] \in {"to_server", "to_client", "at_server"} /\ faulted /\ Finish(r, "ConnectionError")
             /\ UNCHANGED <<link, conn, tmo, age, runs, faults, ticks, faulted, sched>>
\* the connection is cut while the body is read
BodyBroken(r) == /\ st[r] = "body" /\ faulted
                 /\ Finish(r, IF BodyUncovered THEN "InternalError" ELSE "ConnectionError")
                 /\ UNCHANGED <<link, conn, tmo, age, runs, faults, ticks, faulted, sched>>
TimeoutFires(r) == /\ Active(r) /\ tmo[r] > 0 /\ age[r] >= tmo[r] /\ Finish(r, "Timeout")
                   /\ (BodyUncovered => st[r] # "body")
                   /\ UNCHANGED <<link, conn, tmo, age, runs, faults, ticks, faulted, sched>>

Overdue == \E r \in Reqs : Active(r) /\ tmo[r] > 0 /\ age[r] >= tmo[r] /\ (BodyUncovered => st[r] # "body")
\* time only passes while no request can make progress (network and handler steps are fast)
CanProgress == \E r \in Reqs : \/ st[r] = "at_server"
                                \/ (link = "up" /\ st[r] \in {"connecting", "to_server", "to_client", "body"})
Tick ==
  /\ ticks < MaxTicks /\ ~Overdue /\ ~CanProgress
  /\ ticks' = ticks + 1
  /\ age' = [r \in Reqs |-> IF Active(r) THEN age[r] + 1 ELSE age[r]]
  /\ Ext([e |-> "tick"])
  /\ UNCHANGED <<link, conn, st, tmo, out, runs, faults, faulted>>

Next ==
  \/ \E k \in {"partition", "hold", "repair", "release"} : Fault(k)
  \/ \E r \in Reqs, t \in TmoTicks : Send(r, t)
  \/ \E r \in Reqs : ConnectOk(r) \/ ConnectFail(r) \/ ToServer(r) \/ Handle(r) \/ ToClient(r) \/ BodyArrives(r) \/ Broken(r) \/ BodyBroken(r) \/ TimeoutFires(r)
  \/ Tick
Spec == Init /\ [][Next]_vars

----------------------------------------------------------------------------
\* C14
C14_AtMostOnce == \A r \in Reqs : runs[r] <= 1
C14_Outcome == \A r \in Reqs : st[r] = "done" => out[r] \in {"reply", "ConnectionError", "Timeout"}
C14_ReplyMeansHandled == \A r \in Reqs : out[r] = "reply" => runs[r] = 1
C14_TimeoutBound == \A r \in Reqs : (Active(r) /\ tmo[r] > 0) => age[r] <= tmo[r]
C14_NoFaultNoFailure == \A r \in Reqs : (st[r] = "done" /\ ~faulted) => out[r] = "reply"

\* (G) maximal external schedules
Emit == IF EmitSched /\ ticks = MaxTicks /\ (\A r \in Reqs : st[r] # "idle")
        THEN PrintT(<<"SCHED", ToJson([sched |-> sched])>>) ELSE TRUE
=============================================================================
