---------------------------- MODULE RpcRegistry ----------------------------
(* The handler registry of a running RPC server (datacake-rpc/src/server.rs): *)
(*   services : service name -> set of handler keys (entry present iff the    *)
(*              name is in `present`)                                         *)
(*   handlers : the keys that currently have a handler                        *)
(* Several service types may register under one name (service_name() can be  *)
(* overridden); remove_service(name) removes whatever was added under it.     *)
(* A handler key is hash("/service/message"); the model uses the pair itself  *)
(* (the hash is assumed collision free on the names in use).                  *)
(* FixD1 = FALSE models the pinned code, whose remove_handlers kept exactly   *)
(* the removed service's handlers (retain predicate inverted).                *)
EXTENDS Naturals, Sequences, FiniteSets, TLC, Json

CONSTANTS Services,   \* service types (Rust types implementing RpcService)
          NameOf,     \* service type -> the name it registers under (two types may share a name)
          Handles,    \* service type -> set of message names it registers
          AllMsgs,    \* every message name a client may send
          MaxLen, FixD1, EmitHist,
          WithInFlight,  \* TRUE: requests may be held inside their handler while services are added / removed
          WithPar        \* TRUE: two registry changes may be made at the same time from two threads

VARIABLES services, present, handlers,
          held,     \* services that currently have a request blocked inside its handler (dispatched earlier)
          reg,      \* oracle: services added and not removed since
          hist,     \* the add/remove history
          exps      \* oracle: expected served (service, message) pairs after each step
vars == <<services, present, handlers, held, reg, hist, exps>>

Names == { NameOf[t] : t \in Services }
Keys(t) == { <<NameOf[t], m>> : m \in Handles[t] }

Init ==
  /\ services = [n \in Names |-> {}]
  /\ present = {}
  /\ held = {}
  /\ handlers = {}
  /\ reg = {}
  /\ hist = <<>>
  /\ exps = <<>>

\* what the statement demands
ExpectedServed(r) == { <<n, m>> \in Names \X AllMsgs : \E t \in r : NameOf[t] = n /\ m \in Handles[t] }

\* ServerState::add_handlers
Add(t) ==
  /\ services' = [services EXCEPT ![NameOf[t]] = (IF NameOf[t] \in present THEN @ ELSE {}) \cup Keys(t)]
  /\ present' = present \cup {NameOf[t]}
  /\ handlers' = handlers \cup Keys(t)
  /\ reg' = reg \cup {t}
  /\ hist' = Append(hist, <<"add", t>>)
  /\ exps' = Append(exps, ExpectedServed(reg'))
  /\ UNCHANGED held

\* ServerState::remove_handlers
Remove(s) ==
  /\ IF s \notin present
     THEN UNCHANGED <<services, present, handlers>>
     ELSE /\ services' = [services EXCEPT ![s] = {}]
          /\ present' = present \ {s}
          /\ handlers' = IF FixD1 THEN handlers \ services[s] ELSE handlers \cap services[s]
  /\ reg' = { t \in reg : NameOf[t] # s }
  /\ hist' = Append(hist, <<"remove", s>>)
  /\ exps' = Append(exps, ExpectedServed(reg'))
  /\ UNCHANGED held

\* Two registry changes made at the same time by two threads.  Each takes effect atomically (the maps are changed
\* under their locks), in one order or the other.  Only pairs whose two orders leave the same services registered are
\* taken (different names, or the same change twice): the statement then demands exactly that outcome.
Ops == { <<"add", t>> : t \in Services } \cup { <<"remove", n>> : n \in Names }
RegAfter(r, o) == IF o[1] = "add" THEN r \cup {o[2]} ELSE { t \in r : NameOf[t] # o[2] }
StateAfter(S, o) ==
  IF o[1] = "add"
  THEN LET t == o[2] IN
       [services |-> [S.services EXCEPT ![NameOf[t]] = (IF NameOf[t] \in S.present THEN @ ELSE {}) \cup Keys(t)],
        present |-> S.present \cup {NameOf[t]}, handlers |-> S.handlers \cup Keys(t)]
  ELSE LET n == o[2] IN
       IF n \notin S.present THEN S
       ELSE [services |-> [S.services EXCEPT ![n] = {}], present |-> S.present \ {n},
             handlers |-> IF FixD1 THEN S.handlers \ S.services[n] ELSE S.handlers \cap S.services[n]]
Par(o1, o2, firstIsO1) ==
  LET S == [services |-> services, present |-> present, handlers |-> handlers]
      T == IF firstIsO1 THEN StateAfter(StateAfter(S, o1), o2) ELSE StateAfter(StateAfter(S, o2), o1)
  IN /\ WithPar /\ o1 # o2
     /\ RegAfter(RegAfter(reg, o1), o2) = RegAfter(RegAfter(reg, o2), o1)
     /\ services' = T.services /\ present' = T.present /\ handlers' = T.handlers
     /\ reg' = RegAfter(RegAfter(reg, o1), o2)
     /\ hist' = Append(hist, <<"par", o1, o2>>)
     /\ exps' = Append(exps, ExpectedServed(reg'))
     /\ UNCHANGED held
Pairs == { Q \in SUBSET Ops : Cardinality(Q) = 2 }

\* a request for the service's first message arrives and (if it is dispatched) stays inside its handler;
\* dispatch is decided by the handler table at arrival - a request in flight keeps nothing registered
Hold(s) ==
  /\ WithInFlight /\ s \notin held
  /\ held' = IF <<s, "Ping">> \in handlers THEN held \cup {s} ELSE held
  /\ hist' = Append(hist, <<"hold", s>>)
  /\ exps' = Append(exps, ExpectedServed(reg))
  /\ UNCHANGED <<services, present, handlers, reg>>
Release ==
  /\ WithInFlight /\ held # {}
  /\ held' = {}
  /\ hist' = Append(hist, <<"release", "*">>)
  /\ exps' = Append(exps, ExpectedServed(reg))
  /\ UNCHANGED <<services, present, handlers, reg>>

Next == Len(hist) < MaxLen /\ (\/ (\E t \in Services : Add(t)) \/ (\E s \in Names : Remove(s) \/ Hold(s)) \/ Release
                               \/ \E Q \in Pairs, b \in BOOLEAN :
                                     LET o1 == CHOOSE x \in Q : TRUE  o2 == CHOOSE y \in Q : y # o1 IN Par(o1, o2, b))
Spec == Init /\ [][Next]_vars

\* ServerState::get_handler: dispatched iff a handler is present under the key
Served == handlers

\* C13
C13_ServedIffRegistered == Served = ExpectedServed(reg)
\* a request is held only if its service was registered when it arrived
C13_HeldWasRegistered == [][ \A s \in held' \ held : \E t \in reg : NameOf[t] = s /\ "Ping" \in Handles[t] ]_vars

Emit == IF EmitHist /\ Len(hist) = MaxLen
        THEN PrintT(<<"HIST", ToJson([hist |-> hist, exps |-> exps])>>)
        ELSE TRUE
=============================================================================
