---------------------------- MODULE RpcRegistry ----------------------------
(* The handler registry of a running RPC server (datacake-rpc/src/server.rs): *)
(*   services : service name -> set of handler keys (entry present iff the    *)
(*              name is in `present`)                                         *)
(*   handlers : the keys that currently have a handler                        *)
(* Several service types may register under one name (service_name() can be  *)
(* overridden); remove_service(name) removes whatever was added under it.     *)
(* A handler key is hash("/service/message"); the model uses the pair itself  *)
(* (the hash is assumed collision free on the names in use).                  *)
(* FixD1 = FALSE models the pinned code, whose remove_handlers kept exactly   *)
(* the removed service's handlers (retain predicate inverted).                *)
EXTENDS Naturals, Sequences, FiniteSets, TLC, Json

CONSTANTS Services,   \* service types (Rust types implementing RpcService)
          NameOf,     \* service type -> the name it registers under (two types may share a name)
          Handles,    \* service type -> set of message names it registers
          AllMsgs,    \* every message name a client may send
          MaxLen, FixD1, EmitHist,
          WithInFlight   \* TRUE: requests may be held inside their handler while services are added / removed

VARIABLES services, present, handlers,
          held,     \* services that currently have a request blocked inside its handler (dispatched earlier)
          reg,      \* oracle: services added and not removed since
          hist,     \* the add/remove history
          exps      \* oracle: expected served (service, message) pairs after each step
vars == <<services, present, handlers, held, reg, hist, exps>>

Names == { NameOf[t] : t \in Services }
Keys(t) == { <<NameOf[t], m>> : m \in Handles[t] }

Init ==
  /\ services = [n \in Names |-> {}]
  /\ present = {}
  /\ held = {}
  /\ handlers = {}
  /\ reg = {}
  /\ hist = <<>>
  /\ exps = <<>>

\* what the statement demands
ExpectedServed(r) == { <<n, m>> \in Names \X AllMsgs : \E t \in r : NameOf[t] = n /\ m \in Handles[t] }

\* ServerState::add_handlers
Add(t) ==
  /\ services' = [services EXCEPT ![NameOf[t]] = (IF NameOf[t] \in present THEN @ ELSE {}) \cup Keys(t)]
  /\ present' = present \cup {NameOf[t]}
  /\ handlers' = handlers \cup Keys(t)
  /\ reg' = reg \cup {t}
  /\ hist' = Append(hist, <<"add", t>>)
  /\ exps' = Append(exps, ExpectedServed(reg'))
  /\ UNCHANGED held

\* ServerState::remove_handlers
Remove(s) ==
  /\ IF s \notin present
     THEN UNCHANGED <<services, present, handlers>>
     ELSE /\ services' = [services EXCEPT ![s] = {}]
          /\ present' = present \ {s}
          /\ handlers' = IF FixD1 THEN handlers \ services[s] ELSE handlers \cap services[s]
  /\ reg' = { t \in reg : NameOf[t] # s }
  /\ hist' = Append(hist, <<"remove", s>>)
  /\ exps' = Append(exps, ExpectedServed(reg'))
  /\ UNCHANGED held

\* a request for the service's first message arrives and (if it is dispatched) stays inside its handler;
\* dispatch is decided by the handler table at arrival - a request in flight keeps nothing registered
Hold(s) ==
  /\ WithInFlight /\ s \notin held
  /\ held' = IF <<s, "Ping">> \in handlers THEN held \cup {s} ELSE held
  /\ hist' = Append(hist, <<"hold", s>>)
  /\ exps' = Append(exps, ExpectedServed(reg))
  /\ UNCHANGED <<services, present, handlers, reg>>
Release ==
  /\ WithInFlight /\ held # {}
  /\ held' = {}
  /\ hist' = Append(hist, <<"release", "*">>)
  /\ exps' = Append(exps, ExpectedServed(reg))
  /\ UNCHANGED <<services, present, handlers, reg>>

Next == Len(hist) < MaxLen /\ ((\E t \in Services : Add(t)) \/ (\E s \in Names : Remove(s) \/ Hold(s)) \/ Release)
Spec == Init /\ [][Next]_vars

\* ServerState::get_handler: dispatched iff a handler is present under the key
Served == handlers

\* C13
C13_ServedIffRegistered == Served = ExpectedServed(reg)
\* a request is held only if its service was registered when it arrived
C13_HeldWasRegistered == [][ \A s \in held' \ held : \E t \in reg : NameOf[t] = s /\ "Ping" \in Handles[t] ]_vars

Emit == IF EmitHist /\ Len(hist) = MaxLen
        THEN PrintT(<<"HIST", ToJson([hist |-> hist, exps |-> exps])>>)
        ELSE TRUE
=============================================================================
