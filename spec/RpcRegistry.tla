---------------------------- MODULE RpcRegistry ----------------------------
(* The handler registry of a running RPC server (datacake-rpc/src/server.rs): *)
(*   services : service name -> set of handler keys (entry present iff the    *)
(*              name is in `present`)                                         *)
(*   handlers : the keys that currently have a handler                        *)
(* A handler key is hash("/service/message"); the model uses the pair itself  *)
(* (the hash is assumed collision free on the names in use).                  *)
(* FixD1 = FALSE models the pinned code, whose remove_handlers kept exactly   *)
(* the removed service's handlers (retain predicate inverted).                *)
EXTENDS Naturals, Sequences, FiniteSets, TLC, Json

CONSTANTS Services,   \* service names
          Handles,    \* service -> set of message names it registers
          AllMsgs,    \* every message name a client may send
          MaxLen, FixD1, EmitHist

VARIABLES services, present, handlers,
          reg,      \* oracle: services added and not removed since
          hist,     \* the add/remove history
          exps      \* oracle: expected served (service, message) pairs after each step
vars == <<services, present, handlers, reg, hist, exps>>

Keys(s) == { <<s, m>> : m \in Handles[s] }

Init ==
  /\ services = [s \in Services |-> {}]
  /\ present = {}
  /\ handlers = {}
  /\ reg = {}
  /\ hist = <<>>
  /\ exps = <<>>

\* what the statement demands
ExpectedServed(r) == { <<s, m>> \in Services \X AllMsgs : s \in r /\ m \in Handles[s] }

\* ServerState::add_handlers
Add(s) ==
  /\ services' = [services EXCEPT ![s] = (IF s \in present THEN @ ELSE {}) \cup Keys(s)]
  /\ present' = present \cup {s}
  /\ handlers' = handlers \cup Keys(s)
  /\ reg' = reg \cup {s}
  /\ hist' = Append(hist, <<"add", s>>)
  /\ exps' = Append(exps, ExpectedServed(reg'))

\* ServerState::remove_handlers
Remove(s) ==
  /\ IF s \notin present
     THEN UNCHANGED <<services, present, handlers>>
     ELSE /\ services' = [services EXCEPT ![s] = {}]
          /\ present' = present \ {s}
          /\ handlers' = IF FixD1 THEN handlers \ services[s] ELSE handlers \cap services[s]
  /\ reg' = reg \ {s}
  /\ hist' = Append(hist, <<"remove", s>>)
  /\ exps' = Append(exps, ExpectedServed(reg'))

Next == Len(hist) < MaxLen /\ \E s \in Services : Add(s) \/ Remove(s)
Spec == Init /\ [][Next]_vars

\* ServerState::get_handler: dispatched iff a handler is present under the key
Served == handlers

\* C13
C13_ServedIffRegistered == Served = ExpectedServed(reg)

Emit == IF EmitHist /\ Len(hist) = MaxLen
        THEN PrintT(<<"HIST", ToJson([hist |-> hist, exps |-> exps])>>)
        ELSE TRUE
=============================================================================
