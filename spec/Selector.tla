------------------------------ MODULE Selector ------------------------------
(* Replica selection (datacake-node/src/nodes_selector.rs) in postcondition   *)
(* form: what a selection for a consistency level may return given the live   *)
(* membership, whatever was selected before.  The random data-centre choice   *)
(* and the round-robin cursors of the code are deliberately not modelled:     *)
(* every result the code produces is judged against `Allowed`.                *)
(*                                                                            *)
(* A layout is a sequence of data centres, each the SET of node indexes that  *)
(* are currently members of it (an empty set means the data centre is         *)
(* absent).  A node is <<dc, index>>, so a membership update can replace a    *)
(* node by another one without changing any size.  The local node is <<1, 1>> *)
(* (it is always part of its own membership).                                 *)
EXTENDS Naturals, Sequences, FiniteSets

Levels == {"None", "One", "Two", "Three", "Quorum", "LocalQuorum", "All", "EachQuorum"}
Local == <<1, 1>>

NodesOf(layout) == UNION { { <<d, i>> : i \in layout[d] } : d \in 1..Len(layout) }
Size(layout, d) == Cardinality(layout[d])
Others(layout) == NodesOf(layout) \ {Local}
Total(layout) == Cardinality(NodesOf(layout))

RECURSIVE SumOther(_, _)
SumOther(layout, d) ==   \* sum over data centres d..k other than the local one (1) of floor(size/2)+1, absent ones skipped
  IF d > Len(layout) THEN 0
  ELSE (IF d # 1 /\ layout[d] # {} THEN (Size(layout, d) \div 2) + 1 ELSE 0) + SumOther(layout, d + 1)

\* how many OTHER live nodes the level requires
Required(layout, level) ==
  CASE level = "None"        -> 0
    [] level = "One"         -> 1
    [] level = "Two"         -> 2
    [] level = "Three"       -> 3
    [] level = "Quorum"      -> Total(layout) \div 2        \* with the issuer a majority of N
    [] level = "LocalQuorum" -> Size(layout, 1) \div 2
    [] level = "EachQuorum"  -> (Size(layout, 1) \div 2) + SumOther(layout, 1)
    [] level = "All"         -> Total(layout) - 1

\* a successful selection `res` (a sequence of nodes)
AllowedOk(layout, level, res) ==
  LET s == { res[i] : i \in 1..Len(res) }
  IN /\ s \subseteq Others(layout)                 \* only live members other than the local node
     /\ Cardinality(s) = Len(res)                  \* no duplicates
     /\ Len(res) >= Required(layout, level)
     /\ level \in {"One", "Two", "Three"} => Len(res) = Required(layout, level)
\* a not-enough-nodes error
AllowedErr(layout, level) == Cardinality(Others(layout)) < Required(layout, level)
=============================================================================
