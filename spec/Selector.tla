------------------------------ MODULE Selector ------------------------------
(* Replica selection (datacake-node/src/nodes_selector.rs) in postcondition   *)
(* form: what a selection for a consistency level may return given the live   *)
(* membership, whatever was selected before.  The random data-centre choice   *)
(* and the round-robin cursors of the code are deliberately not modelled:     *)
(* every result the code produces is judged against `Allowed`.                *)
(*                                                                            *)
(* A layout is a sequence of data-centre sizes <<s1, .., sk>>; size 0 means   *)
(* the data centre is absent.  A node is <<dc, index>>.  The local node is    *)
(* <<1, 1>> (it is always part of its own membership).                        *)
EXTENDS Naturals, Sequences, FiniteSets

Levels == {"None", "One", "Two", "Three", "Quorum", "LocalQuorum", "All", "EachQuorum"}
Local == <<1, 1>>

NodesOf(layout) == { <<d, i>> : d \in 1..Len(layout), i \in 1..4 } \cap
                   { n \in (1..Len(layout)) \X (1..4) : n[2] <= layout[n[1]] }
Others(layout) == NodesOf(layout) \ {Local}
Total(layout) == Cardinality(NodesOf(layout))

RECURSIVE SumOther(_, _)
SumOther(layout, d) ==   \* sum over data centres d..k other than the local one (1) of floor(size/2)+1, absent ones skipped
  IF d > Len(layout) THEN 0
  ELSE (IF d # 1 /\ layout[d] > 0 THEN (layout[d] \div 2) + 1 ELSE 0) + SumOther(layout, d + 1)

\* how many OTHER live nodes the level requires
Required(layout, level) ==
  CASE level = "None"        -> 0
    [] level = "One"         -> 1
    [] level = "Two"         -> 2
    [] level = "Three"       -> 3
    [] level = "Quorum"      -> Total(layout) \div 2        \* with the issuer a majority of N
    [] level = "LocalQuorum" -> layout[1] \div 2
    [] level = "EachQuorum"  -> (layout[1] \div 2) + SumOther(layout, 1)
    [] level = "All"         -> Total(layout) - 1

\* a successful selection `res` (a sequence of nodes)
AllowedOk(layout, level, res) ==
  LET s == { res[i] : i \in 1..Len(res) }
  IN /\ s \subseteq Others(layout)                 \* only live members other than the local node
     /\ Cardinality(s) = Len(res)                  \* no duplicates
     /\ Len(res) >= Required(layout, level)
     /\ level \in {"One", "Two", "Three"} => Len(res) = Required(layout, level)
\* a not-enough-nodes error
AllowedErr(layout, level) == Cardinality(Others(layout)) < Required(layout, level)
=============================================================================
