------------------------------- MODULE Storage -------------------------------
(* Reference key-value model of the `Storage` trait                           *)
(* (datacake-eventual-consistency/src/storage.rs) that every bundled backend  *)
(* (MemStore, SQLite, LMDB) must behave like.                                 *)
(*                                                                            *)
(* store : keyspace -> id -> None | [ts, tomb, data]                          *)
(* named : keyspaces ever named in a mutating call                            *)
(*                                                                            *)
(* Semantics (what SQLite and LMDB do, and what the keyspace actor relies on):*)
(*   put / multi_put        unconditional upsert of a live document           *)
(*   mark_(many_)as_tombstone  unconditional upsert of a tombstone marker,    *)
(*                          also for ids / keyspaces never seen before        *)
(*   remove_tombstones      removes the listed entries; the contract only     *)
(*                          allows ids that are tombstones or absent          *)
(*   get / multi_get        live documents only                               *)
(*   iter_metadata          every entry with its timestamp and tombstone flag *)
(*   get_keyspace_list      at least the keyspaces holding an entry, at most  *)
(*                          the keyspaces ever named                          *)
(*   Reopen                 close and reopen the database: nothing changes    *)
EXTENDS Naturals, Sequences, FiniteSets, TLC, Json

CONSTANTS Keyspaces, Ids, Stamps, Payloads, EmitEdges

None == [absent |-> TRUE]
IsTomb(e) == IF e = None THEN FALSE ELSE e.tomb
IsLive(e) == IF e = None THEN FALSE ELSE ~e.tomb

VARIABLES store, named, op
vars == <<store, named, op>>
MCView == [store |-> store, named |-> named]

Init ==
  /\ store = [k \in Keyspaces |-> [i \in Ids |-> None]]
  /\ named = {}
  /\ op = [kind |-> "init"]

Live(ts, d) == [ts |-> ts, tomb |-> FALSE, data |-> d]
Tomb(ts)    == [ts |-> ts, tomb |-> TRUE, data |-> 0]

\* docs: a sequence of [id, ts, data]; later elements overwrite earlier ones
RECURSIVE PutAll(_, _)
PutAll(ks, docs) == IF docs = <<>> THEN ks
                    ELSE PutAll([ks EXCEPT ![docs[1].id] = Live(docs[1].ts, docs[1].data)], Tail(docs))
RECURSIVE MarkAll(_, _)
MarkAll(ks, metas) == IF metas = <<>> THEN ks
                      ELSE MarkAll([ks EXCEPT ![metas[1].id] = Tomb(metas[1].ts)], Tail(metas))

Put(k, docs, kind) ==
  /\ store' = [store EXCEPT ![k] = PutAll(@, docs)]
  /\ named' = named \cup {k}
  /\ op' = [kind |-> kind, ks |-> k, docs |-> docs]

Mark(k, metas, kind) ==
  /\ store' = [store EXCEPT ![k] = MarkAll(@, metas)]
  /\ named' = named \cup {k}
  /\ op' = [kind |-> kind, ks |-> k, docs |-> metas]

\* only ids that are tombstones or absent may be passed (the trait's contract)
RemoveTombstones(k, ids) ==
  /\ ids # {}
  /\ \A i \in ids : ~IsLive(store[k][i])
  /\ store' = [store EXCEPT ![k] = [i \in Ids |-> IF i \in ids THEN None ELSE @[i]]]
  /\ named' = named \cup {k}
  /\ op' = [kind |-> "remove_tombstones", ks |-> k, ids |-> ids]

Reopen == /\ UNCHANGED <<store, named>> /\ op' = [kind |-> "reopen"]

Doc(i, ts, d) == [id |-> i, ts |-> ts, data |-> d]
Meta(i, ts) == [id |-> i, ts |-> ts]

Next ==
  \/ \E k \in Keyspaces, i \in Ids, ts \in Stamps, d \in Payloads : Put(k, <<Doc(i, ts, d)>>, "put")
  \/ \E k \in Keyspaces, ts \in Stamps, d \in Payloads, ts2 \in Stamps, d2 \in Payloads :
        \* two documents; the same id twice (two versions in one call, as a replication batch may carry them): the last one stays
        \E i, j \in Ids : (i # j \/ <<ts, d>> # <<ts2, d2>>) /\ Put(k, <<Doc(i, ts, d), Doc(j, ts2, d2)>>, "multi_put")
  \/ \E k \in Keyspaces : Put(k, <<>>, "multi_put")
  \/ \E k \in Keyspaces, i \in Ids, ts \in Stamps : Mark(k, <<Meta(i, ts)>>, "mark_as_tombstone")
  \/ \E k \in Keyspaces, ts \in Stamps, ts2 \in Stamps :
        \E i, j \in Ids : (i # j \/ ts # ts2) /\ Mark(k, <<Meta(i, ts), Meta(j, ts2)>>, "mark_many_as_tombstone")
  \/ \E k \in Keyspaces, ids \in SUBSET Ids : RemoveTombstones(k, ids)
  \/ Reopen

Spec == Init /\ [][Next]_vars

----------------------------------------------------------------------------
\* observables the reference model predicts (what the harness reads back)
Metadata(k) == { <<i, store[k][i].ts, store[k][i].tomb>> : i \in { j \in Ids : store[k][j] # None } }
GetDoc(k, i) == IF IsLive(store[k][i]) THEN <<store[k][i].ts, store[k][i].data>> ELSE None
MustList == { k \in Keyspaces : \E i \in Ids : store[k][i] # None }
MayList == named

\* model-level sanity (keyspaces never affect one another is by construction; checked on the backends)
TypeOK == \A k \in Keyspaces, i \in Ids : IF store[k][i] = None THEN TRUE ELSE store[k][i].ts \in Stamps

PrintEdge ==
  IF EmitEdges
  THEN /\ IF TLCGet(1) # MCView
          THEN PrintT(<<"FROM", ToJson([from |-> MCView])>>) /\ TLCSet(1, MCView)
          ELSE TRUE
       /\ PrintT(<<"EDGE", ToJson([op |-> op', to |-> MCView',
               must |-> { k \in Keyspaces : \E i \in Ids : store'[k][i] # None }, may |-> named'])>>)
  ELSE TRUE
ASSUME TLCSet(1, [init |-> TRUE])
=============================================================================
