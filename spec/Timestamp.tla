---------------------------- MODULE Timestamp ----------------------------
(* HLC timestamps as the code orders them.                                 *)
(* A stamp is <<time, counter, node>>; `time` is in model units (the MC    *)
(* configs map one unit to FORGIVENESS_PERIOD / F seconds, trace configs    *)
(* use the stamp's real 4 ms resolution).  HLCTimestamp is a packed u64     *)
(* (seconds:32 | fractional:8 | counter:16 | node:8) with derived Ord, i.e. *)
(* lexicographic order on (time, counter, node) -- see HLCCodec.tla for the *)
(* proof obligation that packing preserves this order.                      *)
EXTENDS Naturals, Sequences, FiniteSets

None == <<>>

TsTime(a)    == a[1]
TsCounter(a) == a[2]
TsNode(a)    == a[3]

Lt(a, b) == \/ a[1] < b[1]
            \/ a[1] = b[1] /\ a[2] < b[2]
            \/ a[1] = b[1] /\ a[2] = b[2] /\ a[3] < b[3]
Le(a, b) == a = b \/ Lt(a, b)
MaxTs(a, b) == IF Lt(a, b) THEN b ELSE a
MinTs(a, b) == IF Lt(a, b) THEN a ELSE b

\* Minimum / maximum of a non-empty finite set of stamps.
MinOf(S) == CHOOSE x \in S : \A y \in S : Le(x, y)
MaxOf(S) == CHOOSE x \in S : \A y \in S : Le(y, x)

\* Option-lifted comparison helpers (None = "nothing held").
LtOpt(a, b) == IF a = None THEN b # None ELSE IF b = None THEN FALSE ELSE Lt(a, b)
MaxOpt(a, b) == IF a = None THEN b ELSE IF b = None THEN a ELSE MaxTs(a, b)
===========================================================================
