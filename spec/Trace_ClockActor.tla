--------------------------- MODULE Trace_ClockActor ---------------------------
(* (V) Validates runs of the real node Clock (many tasks, current-thread and   *)
(* multi-thread runtimes) recorded with a process-wide sequence number:        *)
(*   start / end       caller side, around every get_time / register_ts call   *)
(*   clock_get         inside the actor, after the HLC issued a stamp (hook)   *)
(*   clock_register    inside the actor, after a remote stamp was merged (hook)*)
(* Only sound order facts are used: an event with a smaller sequence number    *)
(* happened before one with a larger number.                                   *)
EXTENDS Timestamp, TLC, Json, IOUtils

Rec == ndJsonDeserialize(IOEnv.TRACE)

VARIABLES l, self, lastOut, outs, taskLast, regEnded, need, accepted, refused
vars == <<l, self, lastOut, outs, taskLast, regEnded, need, accepted, refused>>

Ts(a) == IF Len(a) = 0 THEN None ELSE <<a[1], a[2], a[3]>>

Init == /\ l = 1 /\ self = 0 /\ lastOut = None /\ outs = {} /\ taskLast = <<>> /\ regEnded = {}
        /\ need = {} /\ accepted = {} /\ refused = {}

Reset(e) ==
  /\ self' = e.node /\ lastOut' = None /\ outs' = {} /\ taskLast' = [t \in 0..e.tasks |-> None]
  /\ regEnded' = {} /\ need' = {} /\ accepted' = {} /\ refused' = {}

Start(e) ==
  /\ need' = IF e.call = "get" THEN need \cup { <<e.id, r>> : r \in regEnded } ELSE need
  /\ UNCHANGED <<self, lastOut, outs, taskLast, regEnded, accepted, refused>>

\* C11 at the return of a call
End(e) ==
  IF e.call = "reg"
  THEN /\ regEnded' = regEnded \cup {Ts(e.ts)}
       /\ UNCHANGED <<self, lastOut, outs, taskLast, need, accepted, refused>>
  ELSE LET out == Ts(e.out)
           mine == { p[2] : p \in { q \in need : q[1] = e.id } }
       IN /\ out \notin outs                                         \* pairwise distinct
          /\ LtOpt(taskLast[e.task], out)                             \* each task sees its results increase
          /\ out[3] = self
          /\ \A r \in mine :                                          \* registered before the call started
                /\ (r[3] # self) => (r \in accepted \/ r \in refused)  \*   ... it has been processed (FIFO)
                /\ (r \in accepted) => Lt(r, out)                      \*   ... and is exceeded
          /\ outs' = outs \cup {out}
          /\ taskLast' = [taskLast EXCEPT ![e.task] = out]
          /\ need' = { q \in need : q[1] # e.id }
          /\ UNCHANGED <<self, lastOut, regEnded, accepted, refused>>

ClockGet(e) ==
  /\ LtOpt(lastOut, Ts(e.out))               \* the actor's own sequence strictly increases
  /\ lastOut' = Ts(e.out)
  /\ UNCHANGED <<self, outs, taskLast, regEnded, need, accepted, refused>>

ClockRegister(e) ==
  /\ e.accepted => Lt(Ts(e.remote), Ts(e.clock))
  /\ accepted' = IF e.accepted THEN accepted \cup {Ts(e.remote)} ELSE accepted
  /\ refused' = IF e.accepted THEN refused ELSE refused \cup {Ts(e.remote)}
  /\ UNCHANGED <<self, lastOut, outs, taskLast, regEnded, need>>

Next ==
  /\ l <= Len(Rec) /\ l' = l + 1
  /\ LET e == Rec[l]
     IN CASE e.ev = "reset" -> Reset(e)
          [] e.ev = "start" -> Start(e)
          [] e.ev = "end" -> End(e)
          [] e.ev = "clock_get" -> ClockGet(e)
          [] e.ev = "clock_register" -> ClockRegister(e)
Spec == Init /\ [][Next]_vars

Accepted ==
  LET d == TLCGet("stats").diameter
  IN IF d - 1 = Len(Rec) THEN TRUE
     ELSE PrintT(<<"REJECTED", ToJson([line |-> d, event |-> Rec[d]])>>) /\ FALSE
=============================================================================
