---------------------------- MODULE Trace_Codec -----------------------------
(* (V) Validates events recorded from the real HLCTimestamp on random inputs  *)
(* against HLCCodec.tla:                                                      *)
(*   u64   : from_u64(raw) -> accessors, Display text, re-parse of that text  *)
(*   cmp   : comparison of two raw values                                     *)
(*   parse : FromStr of an arbitrary text                                     *)
(* Strict = TRUE additionally demands the exact text layout and the exact     *)
(* accept/refuse decision of the specification's Parse for malformed text.    *)
EXTENDS HLCCodec, TLC, Json, IOUtils

CONSTANT Strict

Rec == ndJsonDeserialize(IOEnv.TRACE)

VARIABLE l

Lm(a) == <<a[1], a[2], a[3], a[4]>>
Fs(r) == [s |-> <<r.s[1], r.s[2]>>, f |-> r.f, c |-> r.c, n |-> r.n]
Txt(a) == [i \in 1..Len(a) |-> a[i]]

\* result of the implementation's parse, in the shape of the specification's Parse
Res(r) == IF r.ok THEN [ok |-> TRUE, ts |-> Fs(r.ts)] ELSE [ok |-> FALSE]

U64Event(e) ==
  LET x == Unpack(Lm(e.limbs))
  IN /\ Fs(e.fields) = x                                     \* accessors
     /\ ~e.reparsed.panicked
     /\ Valid(x) => Res(e.reparsed) = [ok |-> TRUE, ts |-> x] \* print then parse = identity
     /\ Strict => /\ Txt(e.text) = Format(x)
                  /\ Res(e.reparsed) = Parse(Format(x))

CmpEvent(e) ==
  LET a == Lm(e.a)  b == Lm(e.b)
  IN /\ e.lt = TsLt(Unpack(a), Unpack(b))
     /\ e.lt = U64Lt(a, b)
     /\ e.eq = (a = b)

ParseEvent(e) ==
  /\ ~e.result.panicked
  /\ e.result.ok => Valid(Fs(e.result.ts))
  /\ Strict => Res(e.result) = Parse(Txt(e.text))

Init == l = 1
Next ==
  /\ l <= Len(Rec)
  /\ l' = l + 1
  /\ LET e == Rec[l]
     IN CASE e.ev = "u64"   -> U64Event(e)
          [] e.ev = "cmp"   -> CmpEvent(e)
          [] e.ev = "parse" -> ParseEvent(e)
Spec == Init /\ [][Next]_l

Accepted ==
  LET d == TLCGet("stats").diameter
  IN IF d - 1 = Len(Rec) THEN TRUE
     ELSE PrintT(<<"REJECTED", ToJson([line |-> d, event |-> Rec[d]])>>) /\ FALSE
=============================================================================
