--------------------------- MODULE Trace_Consistency ---------------------------
(* (V) Validates calls made through the public API of real clusters           *)
(* (h-ec record-consistency) against C06, with Selector.tla's Required:       *)
(*  call : {layout, level, kind, failing, result, responses, required,        *)
(*          local: the issuer's storage holds the mutation,                   *)
(*          others: the other nodes whose storage holds it (or a newer one)   *)
(*          right after the call returned,                                    *)
(*          slow: replicas that answer late - a call may wait for them or     *)
(*          report a failure, but "ok" still means the promised number hold   *)
(*          the mutation}                                                     *)
(*  later: a write that failed its level is replicated everywhere afterwards  *)
EXTENDS Selector, TLC, Json, IOUtils

Rec == ndJsonDeserialize(IOEnv.TRACE)
VARIABLES l, bad,
          last      \* (C01 at system level) <<keyspace, id>> -> the operation issued last for that document

\* the recorder reports data-centre sizes; nodes of a data centre are numbered 1..size
Lay(a) == [i \in 1..Len(a) |-> 1..a[i]]
NodeSet(a) == { <<a[i][1], a[i][2]>> : i \in 1..Len(a) }

Call(e) ==
  LET lay == Lay(e.layout)
      have == NodeSet(e.others)
      failing == NodeSet(e.failing)
      slow == NodeSet(e.slow)          \* replicas whose storage answers late (longer than the advertised timeout), but does answer
  IN /\ have \subseteq Others(lay) \ failing
     /\ CASE e.result = "ok" ->
               /\ e.local
               /\ Cardinality(have) >= Required(lay, e.level)
          [] e.result = "failure" ->
               /\ e.local                                     \* the local write is still in place
               /\ e.responses < e.required                    \* it says how many acknowledged, fewer than selected
               /\ Cardinality(have) >= e.responses            \* and an acknowledgement means applied
               /\ e.required >= Required(lay, e.level)
               /\ failing \cup slow # {}                      \* somebody really did not acknowledge (in time)
          [] e.result = "notenough" -> AllowedErr(lay, e.level)
          [] OTHER -> FALSE
     \* with nobody refusing, a satisfiable level succeeds
     /\ (failing = {} /\ slow = {} /\ ~AllowedErr(lay, e.level)) => e.result = "ok"

\* op    : (C01 at system level) an operation issued at level None on a real cluster; operations on one document are
\*         issued more than a clock tick apart, so the one issued last carries the greatest timestamp
\* final : afterwards every node's storage holds the same stamp for the document, and exactly the operation issued
\*         last: its bytes if it was a put, a tombstone or nothing if it was a delete
NodeHolds(n, w) == IF w.kind = "put" THEN Len(n) = 3 /\ n[2] = FALSE /\ n[3] = w.dig
                   ELSE n = <<>> \/ (Len(n) = 3 /\ n[2] = TRUE)
Final(e) == LET key == <<e.layout, e.ks, e.id>>
            IN /\ e.all_equal
               /\ key \in DOMAIN last
               /\ \A i \in 1..Len(e.nodes) : NodeHolds(e.nodes[i], last[key])
Ok(e) == IF e.ev = "call" THEN Call(e) ELSE IF e.ev = "final" THEN Final(e)
         ELSE IF e.ev = "op" THEN TRUE ELSE e.replicated_everywhere

Init == l = 1 /\ bad = <<>> /\ last = <<>>
Next == /\ l <= Len(Rec) /\ l' = l + 1
        /\ bad' = IF Ok(Rec[l]) THEN bad ELSE Append(bad, l)
        /\ last' = IF Rec[l].ev = "op"
                   THEN LET key == <<Rec[l].layout, Rec[l].ks, Rec[l].id>>
                        IN [k \in DOMAIN last \cup {key} |-> IF k = key THEN [kind |-> Rec[l].kind, dig |-> Rec[l].dig] ELSE last[k]]
                   ELSE last
Spec == Init /\ [][Next]_<<l, bad, last>>
Accepted ==
  LET d == TLCGet("stats").diameter
  IN IF d - 1 # Len(Rec) THEN PrintT(<<"REJECTED", ToJson([line |-> d, event |-> Rec[d]])>>) /\ FALSE ELSE TRUE
Report == (l = Len(Rec) + 1 /\ bad # <<>>) =>
            PrintT(<<"FAILS", ToJson([events |-> [i \in 1..(IF Len(bad) > 20 THEN 20 ELSE Len(bad)) |-> Rec[bad[i]]]])>>)
=============================================================================
