----------------------------- MODULE Trace_Crash -----------------------------
(* (V) C07 on the persistent backends, the node stopped at ANY moment.  A real  *)
(* KeyspaceGroup over SQLite (file) / LMDB handles a stream of requests; before *)
(* each one the process writes a `try` line (what the request would leave       *)
(* behind: per document "id@stamp", live for a put, a tombstone for a delete),  *)
(* after its acknowledgement an `ack` line.  The process is killed (SIGKILL) at *)
(* a random moment - between two requests or in the middle of one, often of a   *)
(* bulk request of thousands of documents.  A fresh process opens the files,    *)
(* runs load_states_from_storage and reports the set it rebuilt and what the    *)
(* storage's metadata scan lists (`after_kill`).                                *)
(*                                                                              *)
(* Keyspace.tla's crash actions say what must hold then (CrashRestart between   *)
(* requests, CrashMid inside one: st' = Rebuild(store)):                        *)
(*  C07_RebuildExact  the rebuilt set = what storage holds (live ids,           *)
(*                    tombstones, stamps), every live document readable;        *)
(*  C07_AckedVisible  per document, the operation acknowledged last is there -  *)
(*                    or, for the documents of the one request that was in      *)
(*                    flight, that request's effect (stamps increase along the  *)
(*                    stream, so it is the newer one); nothing else is there.   *)
EXTENDS Naturals, Sequences, FiniteSets, TLC, Json, IOUtils

Rec == ndJsonDeserialize(IOEnv.TRACE)
VARIABLES l,
          acked,    \* <<backend, ks>> -> [id -> [kind, ent]]: the operation acknowledged last per document
          pending,  \* the request written as `try` and not yet acknowledged, or <<>>
          bad
vars == <<l, acked, pending, bad>>

SetOf(a) == { a[i] : i \in 1..Len(a) }
Key(e) == <<e.backend, e.ks>>
Get(k) == IF k \in DOMAIN acked THEN acked[k] ELSE <<>>

\* the effect of a request as [id -> [kind, ent]]
Effect(e) == [i \in DOMAIN e.eff |-> [kind |-> e.kind, ent |-> e.eff[i]]]    \* `eff`: document id -> "id@stamp"
Merge(old, new) == [i \in DOMAIN old \cup DOMAIN new |-> IF i \in DOMAIN new THEN new[i] ELSE old[i]]

Ok(e) ==
  e.ev = "after_kill" =>
    LET a == Get(Key(e))
        p == IF pending # <<>> /\ Key(pending) = Key(e) THEN Effect(pending) ELSE <<>>
        live == SetOf(e.live)
        dead == SetOf(e.dead)
        There(op) == IF op.kind = "put" THEN op.ent \in live ELSE op.ent \in dead
    IN /\ e.started
       /\ e.unreadable = 0
       \* C07_RebuildExact
       /\ live = SetOf(e.meta_live) /\ dead = SetOf(e.meta_dead)
       \* C07_AckedVisible
       /\ \A i \in DOMAIN a : There(a[i]) \/ (i \in DOMAIN p /\ There(p[i]))
       \* nothing that was never asked for
       /\ live \subseteq ({a[i].ent : i \in {j \in DOMAIN a : a[j].kind = "put"}} \cup {p[i].ent : i \in {j \in DOMAIN p : p[j].kind = "put"}})
       /\ dead \subseteq ({a[i].ent : i \in {j \in DOMAIN a : a[j].kind = "del"}} \cup {p[i].ent : i \in {j \in DOMAIN p : p[j].kind = "del"}})
       \* one state per document
       /\ Cardinality(live) + Cardinality(dead) =
            Cardinality({i \in DOMAIN a \cup DOMAIN p :
                           \/ (i \in DOMAIN a /\ There(a[i]))
                           \/ (i \in DOMAIN p /\ There(p[i]))})

Init == l = 1 /\ acked = <<>> /\ pending = <<>> /\ bad = <<>>
Next ==
  /\ l <= Len(Rec) /\ l' = l + 1
  /\ LET e == Rec[l] IN
       /\ pending' = CASE e.ev = "try" -> e
                       [] e.ev = "ack" -> <<>>
                       [] e.ev = "reset" -> <<>>
                       [] OTHER -> pending
       /\ acked' = CASE e.ev = "ack" /\ pending # <<>> /\ pending.n = e.n ->
                          [k \in DOMAIN acked \cup {Key(pending)} |->
                             IF k = Key(pending) THEN Merge(Get(k), Effect(pending)) ELSE acked[k]]
                     [] e.ev = "reset" -> <<>>
                     [] OTHER -> acked
       /\ bad' = IF Ok(e) /\ (e.ev = "ack" => (pending # <<>> /\ pending.n = e.n)) THEN bad ELSE Append(bad, l)
Spec == Init /\ [][Next]_vars
Accepted ==
  LET d == TLCGet("stats").diameter
  IN IF d - 1 # Len(Rec) THEN PrintT(<<"REJECTED", ToJson([line |-> d])>>) /\ FALSE ELSE TRUE
Report == (l = Len(Rec) + 1 /\ bad # <<>>) =>
            PrintT(<<"FAILS", ToJson([events |-> [i \in 1..Len(bad) |->
                      [line |-> bad[i], ev |-> Rec[bad[i]].ev, backend |-> Rec[bad[i]].backend, ks |-> Rec[bad[i]].ks]]])>>)
=============================================================================
