------------------------- MODULE Trace_Distributor -------------------------
(* (V) Validates what real task distributors did (hooks in                    *)
(* replication/distributor.rs, recorded while the repository's own tests and  *)
(* this framework's real clusters ran) against Distributor.tla:               *)
(*   enq   : a mutation was handed in (logged before it is queued)            *)
(*   batch : the batch the service built (logged before it is sent)           *)
(*   reset : the events of another distributor follow                         *)
(* A mutation logged before a batch may have been queued just after the       *)
(* service stopped draining, so a batch must equal BatchOf of a PREFIX of the  *)
(* logged pending mutations (the shortest one with as many items as the batch *)
(* carries); the rest stays pending.  Items are opaque strings "id@stamp".    *)
(* A mismatch is a difference between code and specification (drift), not a   *)
(* verdict on one of the listed properties.                                   *)
EXTENDS Distributor, TLC, Json, IOUtils

Rec == ndJsonDeserialize(IOEnv.TRACE)
Hdr == Rec[1]
TraceKeyspaces == { Hdr.keyspaces[i] : i \in 1..Len(Hdr.keyspaces) }

VARIABLES l, bad
tvars == <<l, bad, chan, live, batches, handed>>

Count(ops) == LET RECURSIVE C(_) C(o) == IF o = <<>> THEN 0 ELSE Len(o[1].items) + C(Tail(o)) IN C(ops)
Grouping(g) == [ks \in Keyspaces |-> IF \E i \in 1..Len(g) : g[i].ks = ks THEN (CHOOSE x \in { g[i] : i \in 1..Len(g) } : x.ks = ks).items ELSE <<>>]
LoggedCount(e) == LET RECURSIVE C(_) C(g) == IF g = <<>> THEN 0 ELSE Len(g[1].items) + C(Tail(g)) IN C(e.modified) + C(e.removed)

Step(e) ==
  CASE e.ev = "reset" -> /\ chan' = <<>> /\ bad' = bad /\ UNCHANGED <<live, batches, handed>>
    [] e.ev = "enq" -> /\ chan' = Append(chan, Mut(e.kind, e.ks, e.items)) /\ bad' = bad /\ UNCHANGED <<live, batches, handed>>
    [] e.ev = "batch" ->
         LET n == LoggedCount(e)
             ms == { m \in 0..Len(chan) : Count(SubSeq(chan, 1, m)) = n }
         IN IF ms = {} \/ n = 0
            THEN /\ bad' = Append(bad, l) /\ chan' = <<>> /\ UNCHANGED <<live, batches, handed>>
            ELSE LET m == CHOOSE x \in ms : \A y \in ms : x <= y
                     b == BatchOf(SubSeq(chan, 1, m), {})
                 IN /\ bad' = IF b.put = Grouping(e.modified) /\ b.del = Grouping(e.removed) THEN bad ELSE Append(bad, l)
                    /\ chan' = SubSeq(chan, m + 1, Len(chan))
                    /\ UNCHANGED <<live, batches, handed>>

TInit == l = 2 /\ bad = <<>> /\ chan = <<>> /\ live = {} /\ batches = <<>> /\ handed = <<>>
TNext == l <= Len(Rec) /\ l' = l + 1 /\ Step(Rec[l])
TSpec == TInit /\ [][TNext]_tvars

Accepted ==
  LET d == TLCGet("stats").diameter
  IN IF d # Len(Rec) THEN PrintT(<<"REJECTED", ToJson([line |-> d + 1, event |-> Rec[d + 1]])>>) /\ FALSE ELSE TRUE
Report == (l = Len(Rec) + 1) =>
            PrintT(<<"DRIFT", ToJson([count |-> Len(bad), events |-> [i \in 1..(IF Len(bad) > 10 THEN 10 ELSE Len(bad)) |-> [line |-> bad[i], event |-> Rec[bad[i]]]]])>>)
=============================================================================
