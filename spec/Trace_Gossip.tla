---------------------------- MODULE Trace_Gossip ----------------------------
(* (V) Validates a recorded run of real gossip endpoints (real ChitchatService  *)
(* on a real RPC server, real ChitchatTransport socket) against Gossip.tla.     *)
(* One driver issues the calls one after the other, so every event is           *)
(* determined by the model:                                                     *)
(*   send  {from, to, tag, ok}  : ok iff somebody listens at `to`               *)
(*   recv  {node, src, tag}     : the head of the node's inbox                  *)
(*   empty {node}               : recv found nothing within the waiting time    *)
(*   reset {cap}                : fresh endpoints                               *)
EXTENDS Naturals, Sequences, TLC, Json, IOUtils

Rec == ndJsonDeserialize(IOEnv.TRACE)
VARIABLES l, inbox, cap
vars == <<l, inbox, cap>>

Nodes == {1, 2, 3}
Step(e) ==
  CASE e.ev = "reset" -> inbox' = [n \in Nodes |-> <<>>] /\ cap' = e.cap
    [] e.ev = "send" ->
         /\ e.ok = (e.to \in Nodes)
         /\ inbox' = IF e.to \in Nodes /\ Len(inbox[e.to]) < cap
                     THEN [inbox EXCEPT ![e.to] = Append(@, [src |-> e.from, tag |-> e.tag])] ELSE inbox
         /\ UNCHANGED cap
    [] e.ev = "recv" ->
         /\ inbox[e.node] # <<>>
         /\ Head(inbox[e.node]) = [src |-> e.src, tag |-> e.tag]
         /\ inbox' = [inbox EXCEPT ![e.node] = Tail(@)] /\ UNCHANGED cap
    [] e.ev = "empty" -> inbox[e.node] = <<>> /\ UNCHANGED <<inbox, cap>>

Init == l = 1 /\ inbox = [n \in Nodes |-> <<>>] /\ cap = 0
Next == l <= Len(Rec) /\ l' = l + 1 /\ Step(Rec[l])
Spec == Init /\ [][Next]_vars
Accepted ==
  LET d == TLCGet("stats").diameter
  IN IF d - 1 = Len(Rec) THEN TRUE
     ELSE PrintT(<<"REJECTED", ToJson([line |-> d, event |-> Rec[d]])>>) /\ FALSE
=============================================================================
