----------------------------- MODULE Trace_HLC ------------------------------
(* (V) Validates a trace recorded from the real HLCTimestamp (random send /   *)
(* recv calls under an injected, non-monotonic wall clock; many runs          *)
(* concatenated with `reset` events) against HLC.tla, with the real           *)
(* constants.                                                                 *)
(*   Strict = TRUE : every event must be exactly what the faithful layer      *)
(*                   (HlcSend / HlcRecv) computes, and satisfy C09.           *)
(*   Strict = FALSE: only the C09 facts are demanded of the logged            *)
(*                   observables (pre, post, out, ok).                        *)
EXTENDS HLC, TLC, Json, IOUtils

CONSTANT Strict

Rec == ndJsonDeserialize(IOEnv.TRACE)

VARIABLES clock, hi, l
vars == <<clock, hi, l>>

Ts(a) == IF Len(a) = 0 THEN None ELSE <<a[1], a[2], a[3]>>

Init == clock = None /\ hi = None /\ l = 1

Reset ==
  /\ Rec[l].ev = "reset"
  /\ clock' = Ts(Rec[l].clock)
  /\ hi' = None

Faithful(e, r) ==
  /\ e.ok = r.ok
  /\ e.err = r.err
  /\ Ts(e.post) = r.clock
  /\ Ts(e.out) = r.out

Send ==
  LET e == Rec[l] IN
  /\ e.ev = "send"
  /\ Ts(e.pre) = clock
  /\ IF e.ok THEN SendOk(clock, hi, e.wall, Ts(e.post), Ts(e.out)) ELSE Failed(clock, Ts(e.post))
  /\ Strict => Faithful(e, HlcSend(clock, e.wall))
  /\ clock' = Ts(e.post)
  /\ hi' = IF e.ok THEN MaxOpt(hi, Ts(e.out)) ELSE hi

Recv ==
  LET e == Rec[l] IN
  /\ e.ev = "recv"
  /\ Ts(e.pre) = clock
  /\ IF e.ok THEN RecvOk(clock, Ts(e.msg), Ts(e.post)) ELSE Failed(clock, Ts(e.post))
  /\ Strict => Faithful(e, HlcRecv(clock, e.wall, Ts(e.msg)))
  /\ clock' = Ts(e.post)
  /\ hi' = IF e.ok THEN MaxOpt(hi, Ts(e.msg)) ELSE hi

Next == l <= Len(Rec) /\ l' = l + 1 /\ (Reset \/ Send \/ Recv)

Spec == Init /\ [][Next]_vars

\* accepted iff every line was consumed; otherwise print the first unmatched event
Accepted ==
  LET d == TLCGet("stats").diameter
  IN IF d - 1 = Len(Rec) THEN TRUE
     ELSE PrintT(<<"REJECTED", ToJson([line |-> d, event |-> Rec[d]])>>) /\ FALSE
=============================================================================
