------------------------ MODULE Trace_KeyspaceActor ------------------------
(* (V) Validates what real keyspace actors did -- recorded by the guarded     *)
(* hooks in keyspace/actor.rs while the repository's own tests, or this       *)
(* framework's cluster drivers, ran -- against KeyspaceOps.tla / Orswot.tla.  *)
(*                                                                            *)
(* The recorder emits one line per handled mutation, after the actor's last   *)
(* change to its set and before it replies:                                   *)
(*   spawn : the state the actor starts with                                  *)
(*   set / del   : req = <<k, ts>>; stored = "ok" | "skip" (will_apply false) *)
(*   mset / mdel : req = the documents of the request in message order;       *)
(*                 applied = what reached the set, in order;                  *)
(*                 stored = "ok" | "err"                                      *)
(*   purge : req = the purged tombstones; applied = those put back after a    *)
(*           storage failure                                                  *)
(*   diff  : other = the peer's set the poller handed in; changed / removed = *)
(*           the answer of OrSWotSet::diff                                    *)
(* each with `post`, the full state of the set.  lib/actor_trace.py groups    *)
(* the lines by actor and replaces keys, origin node ids and times by their   *)
(* ranks (order is all the set looks at); `mf` of the header line is the      *)
(* table rank(t) -> rank(max(t - FORGIVENESS, 0)), which stands in for        *)
(* MinusF (cfg: MinusF <- TraceMinusF).                                       *)
(*                                                                            *)
(* Two kinds of finding are kept apart:                                       *)
(*   fails : the property-level oracles (C04: greatest stamp wins, the        *)
(*           will-apply prediction is true exactly when the view changes;     *)
(*           C08: a purge changes nobody's view; C05: a difference lists       *)
(*           exactly what the peer holds and this replica is missing)         *)
(*   drift : the logged state differs from what the faithful layer computes   *)
(* After every line the model adopts the logged state, so one difference does *)
(* not hide the rest of the trace.                                            *)
EXTENDS KeyspaceOps, TLC, Json, IOUtils

Rec == ndJsonDeserialize(IOEnv.TRACE)
Hdr == Rec[1]
TraceKeys == 1..Hdr.keys
TraceNodes == 1..Hdr.nodes
TraceMinusF(a) == <<Hdr.mf[a[1] + 1], a[2], a[3]>>

VARIABLES l, st,
          win,      \* key -> None | [ts, del]: the greatest-stamp operation this actor has handled for the key
          refused,  \* some request carried a stamp older than the safe cut-off of its origin (outside C04's premise)
          gone,     \* key -> None | the greatest stamp of a delete this actor's set has held for the key
          top,      \* None | the greatest stamp this actor has been handed so far
          late,     \* some request was older than `top` by the forgiveness period or more (outside C08's premise)
          fails, drift
vars == <<l, st, win, refused, gone, top, late, fails, drift>>

StOf(p) == [ent  |-> [k \in Keys |-> p.ent[k]],
            dead |-> [k \in Keys |-> p.dead[k]],
            mx   |-> [s \in Sources |-> [n \in Nodes |-> p.mx[s + 1][n]]],
            safe |-> [n \in Nodes |-> p.safe[n]]]

NoWin == [k \in Keys |-> None]
WinOfState(s) == [k \in Keys |-> IF s.ent[k] # None THEN [ts |-> s.ent[k], del |-> FALSE]
                                 ELSE IF s.dead[k] # None THEN [ts |-> s.dead[k], del |-> TRUE]
                                 ELSE None]
RECURSIVE Fold(_, _, _)
Fold(w, items, isDel) ==
  IF items = <<>> THEN w
  ELSE LET k == items[1][1]
           ts == items[1][2]
           better == w[k] = None \/ Lt(w[k].ts, ts)
       IN Fold(IF better THEN [w EXCEPT ![k] = [ts |-> ts, del |-> isDel]] ELSE w, Tail(items), isDel)
LiveOfWin(w) == [k \in Keys |-> IF w[k] = None THEN None ELSE IF w[k].del THEN None ELSE w[k].ts]

\* C08, deletes stay deleted: while every request reaches this actor less than the forgiveness period after the newest
\* stamp it has seen (from anybody), no document is live at a stamp older than a delete the set has held for it -
\* whatever was purged in between, and however a failed purge was put back.
OptMax(a, b) == IF a = None THEN b ELSE IF b = None THEN a ELSE IF Lt(a, b) THEN b ELSE a
RECURSIVE TopOf(_, _)
TopOf(t, items) == IF items = <<>> THEN t ELSE TopOf(OptMax(t, items[1][2]), Tail(items))
RECURSIVE MaxOfSet(_)
MaxOfSet(S) == IF S = {} THEN None ELSE LET x == CHOOSE x \in S : TRUE IN OptMax(x, MaxOfSet(S \ {x}))
TopOfState(s) == MaxOfSet({ s.mx[src][n] : src \in Sources, n \in Nodes } \ {None})
TooLate(t, items) == t # None /\ \E i \in 1..Len(items) : ~Lt(TraceMinusF(t), items[i][2])
GoneAfter(g, post) == [k \in Keys |-> OptMax(g[k], post.dead[k])]
Resurrected(g, post) == \E k \in Keys : post.ent[k] # None /\ g[k] # None /\ Lt(post.ent[k], g[k])

KeysOf(items) == { items[i][1] : i \in 1..Len(items) }
PairSet(items) == { <<items[i][1], items[i][2]>> : i \in 1..Len(items) }
AnyRefused(s, items) == \E i \in 1..Len(items) : BeforeSafe(s, items[i][2])

\* <<expected state, handled items (for `win`), property-level problems, differences from the faithful layer>>
Expect(e) ==
  LET isDel == e.kind \in {"del", "mdel"}
      post == StOf(e.post)
  IN CASE e.kind \in {"set", "del"} ->
            LET k == e.req[1][1]
                ts == e.req[1][2]
                changed == KeyView(post, k) # KeyView(st, k)
            IN << SingleSt(st, isDel, e.src, k, ts, "ok"), e.req,
                  (IF (e.stored = "ok") # changed
                   THEN {"C04: the will_apply prediction (stored: ok = true, skip = false) differs from whether the view of the key changed"}
                   ELSE {}),
                  {} >>
       [] e.kind \in {"mset", "mdel"} ->
            LET oc == IF e.stored = "ok" THEN "ok" ELSE "fail"
                W == KeysOf(e.applied)
                handled == SeqFilter(e.req, LAMBDA x : <<x[1], x[2]>> \in PairSet(e.applied) \/ ~WillApply(st, x[1], x[2]))
            IN << BulkSt(st, isDel, e.src, e.req, oc, W), handled, {},
                  (IF e.applied # BulkToSet(st, e.req, oc, W) THEN {"the entries applied differ from the will_apply filter of the request"} ELSE {}) >>
       [] e.kind = "purge" ->
            LET W == KeysOf(e.req) \ KeysOf(e.applied)
                oc == IF e.stored = "ok" THEN "ok" ELSE "fail"
            IN << PurgeSt(st, oc, W), <<>>,
                  (IF post.ent # st.ent THEN {"C08: a purge changed what is live"} ELSE {}),
                  (IF PairSet(e.req) # Purge(st)[1] THEN {"purged tombstones differ"} ELSE {}) >>

\* on_diff: what the peer's set `other` holds that this actor is missing (the poller's question)
DiffStep(e) ==
  LET other == StOf(e.other)
      got == <<PairSet(e.changed), PairSet(e.removed)>>
      props == IF got # DiffSpec(st, other)
               THEN {"C05: the difference is not exactly what the peer holds newer than (or unknown to) this replica"} ELSE {}
      drifts == (IF got # Diff(st, other) THEN {"diff differs from the faithful layer"} ELSE {})
                \cup (IF StOf(e.post) # st THEN {"the set changed without a logged mutation"} ELSE {})
  IN /\ st' = StOf(e.post)
     /\ UNCHANGED <<win, refused, gone, top, late>>
     /\ fails' = IF props = {} THEN fails ELSE Append(fails, <<l, props>>)
     /\ drift' = IF drifts = {} THEN drift ELSE Append(drift, <<l, drifts>>)

Step(e) ==
  IF e.ev = "diff" THEN DiffStep(e)
  ELSE IF e.ev = "spawn"
  THEN /\ st' = StOf(e.post)
       /\ win' = WinOfState(StOf(e.post))
       /\ refused' = FALSE
       /\ gone' = [k \in Keys |-> StOf(e.post).dead[k]]
       /\ top' = TopOfState(StOf(e.post)) /\ late' = FALSE
       /\ drift' = IF WellFormed(StOf(e.post)) THEN drift ELSE Append(drift, <<l, {"a key is both live and deleted"}>>)
       /\ UNCHANGED fails
  ELSE LET x == Expect(e)
           post == StOf(e.post)
           isDel == e.kind \in {"del", "mdel"}
           w2 == Fold(win, x[2], isDel)
           ref2 == refused \/ (e.kind # "purge" /\ AnyRefused(st, e.req))
           late2 == late \/ (e.kind # "purge" /\ TooLate(top, e.req))
           props == x[3]
                    \cup (IF ~late2 /\ Resurrected(gone, post)
                          THEN {"C08: a deleted document is live again at a stamp older than its delete"} ELSE {})
                    \cup (IF ~ref2 /\ post.ent # LiveOfWin(w2) THEN {"C04: the live view is not the greatest-stamp operation per key"} ELSE {})
           drifts == x[4] \cup (IF post # x[1] THEN {"the set differs from the faithful layer"} ELSE {})
                          \cup (IF WellFormed(post) THEN {} ELSE {"a key is both live and deleted"})
       IN /\ st' = post
          /\ win' = w2
          /\ refused' = ref2
          /\ late' = late2
          /\ top' = IF e.kind = "purge" THEN top ELSE TopOf(top, e.req)
          /\ gone' = GoneAfter(gone, post)
          /\ fails' = IF props = {} THEN fails ELSE Append(fails, <<l, props>>)
          /\ drift' = IF drifts = {} THEN drift ELSE Append(drift, <<l, drifts>>)

Init == /\ l = 2 /\ fails = <<>> /\ drift = <<>> /\ refused = FALSE
        /\ st = EmptySet /\ win = NoWin
        /\ gone = NoWin /\ top = None /\ late = FALSE
Next == l <= Len(Rec) /\ l' = l + 1 /\ Step(Rec[l])
Spec == Init /\ [][Next]_vars

Accepted ==
  LET d == TLCGet("stats").diameter
  IN IF d # Len(Rec) THEN PrintT(<<"REJECTED", ToJson([line |-> d + 1, event |-> Rec[d + 1]])>>) /\ FALSE ELSE TRUE
Cap(s) == [i \in 1..(IF Len(s) > 20 THEN 20 ELSE Len(s)) |-> [line |-> s[i][1], why |-> s[i][2], event |-> Rec[s[i][1]]]]
Report == (l = Len(Rec) + 1) =>
            /\ (fails # <<>> => PrintT(<<"FAILS", ToJson([events |-> Cap(fails)])>>))
            /\ PrintT(<<"DRIFT", ToJson([count |-> Len(drift), events |-> Cap(drift)])>>)
=============================================================================
