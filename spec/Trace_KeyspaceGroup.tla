-------------------------- MODULE Trace_KeyspaceGroup ------------------------
(* (V) Rounds of concurrent first use of a fresh keyspace on the real         *)
(* KeyspaceGroup.  One event per round:                                       *)
(*   {round, tasks, runtime, acked: ids whose mutation returned Ok,           *)
(*    final: ids in the set behind a later lookup (Serialize),                *)
(*    installs: number of group-map insertions the hook saw for that name,    *)
(*    foreign: documents of another keyspace's tasks found in this set}       *)
(* C18: every acknowledged mutation is in the final set; one installation.    *)
EXTENDS Naturals, Sequences, FiniteSets, TLC, Json, IOUtils

Rec == ndJsonDeserialize(IOEnv.TRACE)
VARIABLES l, bad

SetOf(a) == { a[i] : i \in 1..Len(a) }
\* (in every round a sibling keyspace whose name is related to the first one's as a string - a trailing or leading blank,
\* another case, a suffix - is first used at the same time by other tasks: `foreign` counts their documents in this set)
Ok(e) == /\ SetOf(e.acked) \subseteq SetOf(e.final)
         /\ e.installs <= 1
         /\ e.foreign = 0

Init == l = 1 /\ bad = <<>>
Next == /\ l <= Len(Rec) /\ l' = l + 1
        /\ bad' = IF Ok(Rec[l]) THEN bad ELSE Append(bad, l)
Spec == Init /\ [][Next]_<<l, bad>>

Accepted ==
  LET d == TLCGet("stats").diameter
  IN IF d - 1 # Len(Rec) THEN PrintT(<<"REJECTED", ToJson([line |-> d, event |-> Rec[d]])>>) /\ FALSE ELSE TRUE
Report == (l = Len(Rec) + 1 /\ bad # <<>>) =>
            PrintT(<<"FAILS", ToJson([events |-> [i \in 1..(IF Len(bad) > 20 THEN 20 ELSE Len(bad)) |-> Rec[bad[i]]]])>>)
=============================================================================
