----------------------- MODULE Trace_MembershipSource -----------------------
(* (V) The source of the membership snapshots that Membership.tla starts from  *)
(* (`cur`): datacake-node/src/node.rs turns chitchat's set of ready nodes into *)
(* a map node id -> member (id, public address, data centre).  Real            *)
(* ChitchatNodes over chitchat's in-process channel transport are run through  *)
(* scripts of joins, departures and rejoins (under another address, at an      *)
(* address another node had); after every change of the set of running nodes   *)
(* the observer's snapshot is given up to three minutes to settle:             *)
(*   settled {running: [[id, address]...], snapshot: [[id, address]...]}       *)
(* What C16 needs of the source: once membership is quiescent the snapshot     *)
(* names exactly the nodes that are running, each with the address it has NOW. *)
EXTENDS Naturals, Sequences, FiniteSets, TLC, Json, IOUtils

Rec == ndJsonDeserialize(IOEnv.TRACE)
VARIABLES l, bad

SetOf(a) == { a[i] : i \in 1..Len(a) }
\* ... and the node's live-member counter (ClusterStatistics::num_live_members) says how many that is
Ok(e) == e.ev = "settled" => /\ SetOf(e.snapshot) = SetOf(e.running)
                             /\ e.live_counter = Cardinality(SetOf(e.running))

\* `wait` events: ChitchatNode::wait_for_members (behind DatacakeNode::wait_for_nodes) called on the observer before a step is
\* taken and answered while / after it is taken (WaitFor.tla).  Within one call the harness only adds nodes (kind "all_present")
\* or only removes one ("absent"), so what held at some moment of the call still holds at its return:
\*   Ok      => the snapshot at the return names every node waited for (is rid of the node waited out)   [OkMeansAllThere]
\*   timeout => the time was up, and the snapshot at the return still lacks a node (still has it)        [TimeoutMeansMissing]
\* Not part of C16: differences are reported as drift.
WaitHolds(e) == IF e.kind = "all_present" THEN SetOf(e.want) \subseteq SetOf(e.snap_at_return)
                ELSE SetOf(e.want) \cap SetOf(e.snap_at_return) = {}
WaitOk(e) == e.ev = "wait" => IF e.result = "ok" THEN WaitHolds(e)
                              ELSE e.elapsed_ms >= e.timeout_ms /\ ~WaitHolds(e)
VARIABLE badw
Init == l = 1 /\ bad = <<>> /\ badw = <<>>
Next == /\ l <= Len(Rec) /\ l' = l + 1
        /\ bad' = IF Ok(Rec[l]) THEN bad ELSE Append(bad, l)
        /\ badw' = IF WaitOk(Rec[l]) THEN badw ELSE Append(badw, l)
Spec == Init /\ [][Next]_<<l, bad, badw>>
Accepted ==
  LET d == TLCGet("stats").diameter
  IN IF d - 1 # Len(Rec) THEN PrintT(<<"REJECTED", ToJson([line |-> d, event |-> Rec[d]])>>) /\ FALSE ELSE TRUE
Report == (l = Len(Rec) + 1 /\ bad # <<>>) =>
            PrintT(<<"FAILS", ToJson([events |-> [i \in 1..(IF Len(bad) > 20 THEN 20 ELSE Len(bad)) |-> Rec[bad[i]]]])>>)
ReportWaits == (l = Len(Rec) + 1 /\ badw # <<>>) =>
            PrintT(<<"DRIFT", ToJson([events |-> [i \in 1..(IF Len(badw) > 20 THEN 20 ELSE Len(badw)) |-> Rec[badw[i]]]])>>)
=============================================================================
