---------------------------- MODULE Trace_Restart ----------------------------
(* (V) C07 on the persistent backends.  A real KeyspaceGroup over SQLite / LMDB *)
(* handles a stream of requests and reports, per keyspace, the set it holds     *)
(* (`before`: every request in it was acknowledged); the process ends; a fresh  *)
(* process opens the same files, runs load_states_from_storage and reports the  *)
(* set it rebuilt (`after`).  Keyspace.tla's restart (CrashRestart: st' =       *)
(* Rebuild(store), C07_AckedVisible, C07_RebuildExact) between requests means:  *)
(* the start succeeds, the rebuilt set has exactly the live ids and tombstones  *)
(* with the stamps the stopped node held, and every live document is readable.  *)
EXTENDS Naturals, Sequences, TLC, Json, IOUtils

Rec == ndJsonDeserialize(IOEnv.TRACE)
VARIABLES l, held, bad
vars == <<l, held, bad>>

SetOf(a) == { a[i] : i \in 1..Len(a) }
Key(e) == <<e.backend, e.ks>>
Ok(e) == e.ev = "after" =>
           /\ e.started
           /\ Key(e) \in DOMAIN held
           /\ SetOf(e.live) = held[Key(e)].live
           /\ SetOf(e.dead) = held[Key(e)].dead
           /\ e.unreadable = 0

Init == l = 1 /\ held = <<>> /\ bad = <<>>
Next == /\ l <= Len(Rec) /\ l' = l + 1
        /\ held' = IF Rec[l].ev = "before"
                   THEN [k \in DOMAIN held \cup {Key(Rec[l])} |->
                           IF k = Key(Rec[l]) THEN [live |-> SetOf(Rec[l].live), dead |-> SetOf(Rec[l].dead)] ELSE held[k]]
                   ELSE held
        /\ bad' = IF Ok(Rec[l]) THEN bad ELSE Append(bad, l)
Spec == Init /\ [][Next]_vars
Accepted ==
  LET d == TLCGet("stats").diameter
  IN IF d - 1 # Len(Rec) THEN PrintT(<<"REJECTED", ToJson([line |-> d])>>) /\ FALSE ELSE TRUE
Report == (l = Len(Rec) + 1 /\ bad # <<>>) =>
            PrintT(<<"FAILS", ToJson([events |-> [i \in 1..Len(bad) |->
                      [backend |-> Rec[bad[i]].backend, ks |-> Rec[bad[i]].ks, started |-> Rec[bad[i]].started,
                       live_after |-> Len(Rec[bad[i]].live), dead_after |-> Len(Rec[bad[i]].dead), unreadable |-> Rec[bad[i]].unreadable]]])>>)
=============================================================================
