--------------------------- MODULE Trace_RpcFrame ---------------------------
(* (V) Validates events recorded from the real datacake-rpc code:             *)
(*   frame     : DataView::<T>::using on a (damaged) frame -> verdict          *)
(*   view      : an intact frame deserialises to the value it was made from   *)
(*   wire      : a (damaged) frame posted to a real server -> status, runs    *)
(*   roundtrip : value sent through the real client / server / echo handler   *)
(*   status    : a handler error as seen by the client                        *)
(* against the acceptance rule `Accept` of RpcFrame.tla (trailer = 4 bytes).  *)
EXTENDS Naturals, Sequences, TLC, Json, IOUtils

Accept(len, minLen, tl, crcOk) == len >= minLen + tl /\ crcOk

Rec == ndJsonDeserialize(IOEnv.TRACE)
VARIABLE l

FrameEvent(e) ==
  /\ e.verdict # "panic"
  /\ (e.verdict = "ok") = Accept(e.len, e.minLen, 4, e.crcOk)
  \* every single-bit flip, and every cut below the fixed part + trailer, is refused
  /\ e.mutation = "flip" => e.verdict = "invalid"
  /\ e.len < e.minLen + 4 => e.verdict = "invalid"
  /\ e.mutation = "intact" => e.verdict = "ok"

WireEvent(e) ==
  LET acc == Accept(e.len, e.minLen, 4, e.crcOk)
  IN /\ e.handlerRuns = (IF acc THEN 1 ELSE 0)          \* no handler runs on a refused frame
     /\ acc => e.http = 200
     /\ ~acc => e.http = 400 /\ e.code = "InvalidPayload"

Next ==
  /\ l <= Len(Rec)
  /\ l' = l + 1
  /\ LET e == Rec[l]
     IN CASE e.ev = "frame"     -> FrameEvent(e)
          [] e.ev = "view"      -> e.equal
          [] e.ev = "wire"      -> WireEvent(e)
          [] e.ev = "roundtrip" -> e.ok /\ e.replyEqualsSent /\ e.handlerRuns = 1
          [] e.ev = "status"    -> e.gotCode = e.sentCode /\ e.gotMessage = e.sentMessage

Init == l = 1
Spec == Init /\ [][Next]_l

Accepted ==
  LET d == TLCGet("stats").diameter
  IN IF d - 1 = Len(Rec) THEN TRUE
     ELSE PrintT(<<"REJECTED", ToJson([line |-> d, event |-> Rec[d]])>>) /\ FALSE
=============================================================================
