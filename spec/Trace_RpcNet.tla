----------------------------- MODULE Trace_RpcNet -----------------------------
(* (V) Validates the outcomes observed when schedules of RpcNet.tla (and       *)
(* random ones) are executed against the real datacake-rpc client and server   *)
(* inside a turmoil simulation, and over real sockets through a TCP relay that *)
(* can hold or cut the link (slack_ms: how late a timed request may be in real *)
(* time; 50 ms of simulated time otherwise).  One event per request:           *)
(*  {sched, id, timeout_ms (0 = none), outcome, reply_id, payload_ok,          *)
(*   elapsed_ms, handler_runs, faults (number of fault events in the schedule)}*)
EXTENDS Naturals, Sequences, TLC, Json, IOUtils

Rec == ndJsonDeserialize(IOEnv.TRACE)
VARIABLES l, bad

Slack(e) == IF "slack_ms" \in DOMAIN e THEN e.slack_ms ELSE 50
RealTime(e) == "transport" \in DOMAIN e /\ e.transport = "tcp"
Ok(e) ==
  /\ e.handler_runs <= 1                                              \* never executed twice
  /\ e.outcome \in {"reply", "ConnectionError", "Timeout", "pending"}   \* nothing else
  /\ e.outcome = "reply" => (e.reply_id = e.id /\ e.payload_ok /\ e.handler_runs = 1)   \* that very request's reply
  /\ e.timeout_ms > 0 => (e.outcome # "pending" /\ e.elapsed_ms <= e.timeout_ms + Slack(e))   \* answered or timed out in time
  /\ e.outcome = "Timeout" => e.timeout_ms > 0
  \* no fault, no failure - in real time a request may honestly take longer than a short timeout (a reply of a megabyte
  \* on a busy machine): then the timeout is the answer, and it does not come before its time
  /\ e.faults = 0 => (e.outcome = "reply" \/ (RealTime(e) /\ e.outcome = "Timeout" /\ e.timeout_ms > 0))
  /\ (RealTime(e) /\ e.outcome = "Timeout") => e.elapsed_ms + 2 >= e.timeout_ms

Init == l = 1 /\ bad = <<>>
Next == /\ l <= Len(Rec) /\ l' = l + 1
        /\ bad' = IF Ok(Rec[l]) THEN bad ELSE Append(bad, l)
Spec == Init /\ [][Next]_<<l, bad>>
Accepted ==
  LET d == TLCGet("stats").diameter
  IN IF d - 1 # Len(Rec) THEN PrintT(<<"REJECTED", ToJson([line |-> d, event |-> Rec[d]])>>) /\ FALSE ELSE TRUE
Report == (l = Len(Rec) + 1 /\ bad # <<>>) =>
            PrintT(<<"FAILS", ToJson([events |-> [i \in 1..(IF Len(bad) > 20 THEN 20 ELSE Len(bad)) |-> Rec[bad[i]]]])>>)
=============================================================================
