---------------------------- MODULE Trace_Selector ---------------------------
(* (V) Validates selections made by the real node selector against the        *)
(* postcondition `Allowed` of Selector.tla.  Events are de-duplicated by the   *)
(* harness: {layout, level, ok, result | (live, required), count}.            *)
EXTENDS Selector, TLC, Json, IOUtils

Rec == ndJsonDeserialize(IOEnv.TRACE)
VARIABLE l

Lay(a) == [i \in 1..Len(a) |-> { a[i][j] : j \in 1..Len(a[i]) }]
Res(a) == [i \in 1..Len(a) |-> <<a[i][1], a[i][2]>>]

Event(e) ==
  IF e.ok THEN AllowedOk(Lay(e.layout), e.level, Res(e.result))
  ELSE AllowedErr(Lay(e.layout), e.level)

\* Every event is judged on its own (the postcondition does not depend on history), so the
\* run consumes the whole file and reports every failing event, not only the first.
VARIABLE bad
Init == l = 1 /\ bad = <<>>
Next == /\ l <= Len(Rec)
        /\ l' = l + 1
        /\ bad' = IF Event(Rec[l]) THEN bad ELSE Append(bad, l)
Spec == Init /\ [][Next]_<<l, bad>>

Accepted ==
  LET d == TLCGet("stats").diameter
  IN IF d - 1 # Len(Rec) THEN PrintT(<<"REJECTED", ToJson([line |-> d, event |-> Rec[d]])>>) /\ FALSE
     ELSE TRUE
\* evaluated in the last state (CONSTRAINT-free run, one behaviour): print the failing events
Report == (l = Len(Rec) + 1 /\ bad # <<>>) => PrintT(<<"FAILS", ToJson([events |-> [i \in 1..Len(bad) |-> Rec[bad[i]]]])>>)
=============================================================================
