---------------------------- MODULE Trace_Storage ----------------------------
(* (V) Validates random call sequences recorded from the real storage backends *)
(* (MemStore, SQLite memory / file, LMDB) with arbitrary u64 ids against the   *)
(* reference semantics of Storage.tla.  Ids, timestamps and payload digests     *)
(* are opaque strings here (u64 values do not fit TLC's integers); the model    *)
(* store is a set of entries [ks, id, ts, tomb, dig].                           *)
(*   put / multi_put / mark / mark_many / remove_tombstones : update the model  *)
(*   put_failed : a refused bulk write leaves exactly the reported documents    *)
(*   get / multi_get / meta / list : results must equal the model's prediction  *)
(*   reopen : nothing changes      reset : a fresh backend instance             *)
EXTENDS Naturals, Sequences, FiniteSets, TLC, Json, IOUtils

Rec == ndJsonDeserialize(IOEnv.TRACE)
VARIABLES l, store, named
vars == <<l, store, named>>

Without(s, ks, ids) == { e \in s : ~(e.ks = ks /\ e.id \in ids) }
SetOf(a) == { a[i] : i \in 1..Len(a) }

\* later documents of one call overwrite earlier ones
RECURSIVE Upsert(_, _, _, _)
Upsert(s, ks, docs, tomb) ==
  IF docs = <<>> THEN s
  ELSE LET d == docs[1]
       IN Upsert(Without(s, ks, {d.id}) \cup {[ks |-> ks, id |-> d.id, ts |-> d.ts, tomb |-> tomb, dig |-> IF tomb THEN "" ELSE d.dig]},
                 ks, Tail(docs), tomb)

Live(ks) == { e \in store : e.ks = ks /\ ~e.tomb }
DocSet(docs) == { [id |-> docs[i].id, ts |-> docs[i].ts, dig |-> docs[i].dig] : i \in 1..Len(docs) }
AsDoc(e) == [id |-> e.id, ts |-> e.ts, dig |-> e.dig]

Step(e) ==
  CASE e.ev = "reset"  -> store' = {} /\ named' = {}
    [] e.ev = "reopen" -> UNCHANGED <<store, named>>
    [] e.ev = "put"    -> store' = Upsert(store, e.ks, e.docs, FALSE) /\ named' = named \cup {e.ks}
    \* a bulk write the backend refused: exactly the documents it reports as written are in place
    [] e.ev = "put_failed" -> store' = Upsert(store, e.ks, SelectSeq(e.docs, LAMBDA d : d.id \in SetOf(e.done)), FALSE)
                              /\ named' = named \cup {e.ks}
    [] e.ev = "mark"   -> store' = Upsert(store, e.ks, e.docs, TRUE) /\ named' = named \cup {e.ks}
    [] e.ev = "remove_tombstones" ->
          /\ \A i \in SetOf(e.ids) : ~(\E x \in Live(e.ks) : x.id = i)      \* the recorder stays inside the contract
          /\ store' = Without(store, e.ks, SetOf(e.ids)) /\ named' = named \cup {e.ks}
    [] e.ev = "get" ->
          /\ LET hit == { x \in Live(e.ks) : x.id = e.id }
             IN IF hit = {} THEN ~e.found
                ELSE e.found /\ (\E x \in hit : x.ts = e.ts /\ x.dig = e.dig)
          /\ UNCHANGED <<store, named>>
    [] e.ev = "multi_get" ->
          /\ DocSet(e.docs) = { AsDoc(x) : x \in { y \in Live(e.ks) : y.id \in SetOf(e.ids) } }
          /\ Len(e.docs) = Cardinality(DocSet(e.docs))
          /\ UNCHANGED <<store, named>>
    [] e.ev = "meta" ->
          /\ { [id |-> e.entries[i].id, ts |-> e.entries[i].ts, tomb |-> e.entries[i].tomb] : i \in 1..Len(e.entries) }
               = { [id |-> x.id, ts |-> x.ts, tomb |-> x.tomb] : x \in { y \in store : y.ks = e.ks } }
          /\ Len(e.entries) = Cardinality({ y \in store : y.ks = e.ks })
          /\ UNCHANGED <<store, named>>
    [] e.ev = "list" ->
          /\ { x.ks : x \in store } \subseteq SetOf(e.names)          \* every keyspace holding an entry is listed
          /\ SetOf(e.names) \subseteq SetOf(e.touched)                \* nothing that was never named in a call
          /\ UNCHANGED <<store, named>>

Init == l = 1 /\ store = {} /\ named = {}
Next == l <= Len(Rec) /\ l' = l + 1 /\ Step(Rec[l])
Spec == Init /\ [][Next]_vars

Accepted ==
  LET d == TLCGet("stats").diameter
  IN IF d - 1 = Len(Rec) THEN TRUE
     ELSE PrintT(<<"REJECTED", ToJson([line |-> d, event |-> Rec[d]])>>) /\ FALSE
=============================================================================
