------------------------------- MODULE WaitFor -------------------------------
(* DatacakeNode::wait_for_nodes / ChitchatNode::wait_for_members               *)
(* (datacake-node/src/lib.rs, node.rs): a caller waits until the membership    *)
(* snapshot names every node of a given set, or until a timeout.  The code is  *)
(*   timeout(T, WatchStream::new(members).skip_while(!pred).next())            *)
(* - a latest-value channel: the stream first yields the snapshot current at   *)
(* the call, afterwards the newest snapshot each time it is polled (snapshots  *)
(* in between may be skipped); tokio's timeout polls the stream before the     *)
(* timer, so with both ready the call is answered Ok.                          *)
(* Not the subject of a listed property; bound by Trace_MembershipSource.tla   *)
(* (`wait` events of real ChitchatNodes), differences are reported as drift.   *)
EXTENDS Naturals, FiniteSets, TLC

CONSTANTS Ids, Calls, MaxPub,
          AnyOf        \* NOT the code: the wait ends as soon as ONE of the named nodes is there

VARIABLES snap,    \* the snapshot the channel holds now (a set of node ids)
          st,      \* call -> "new" | "pending" | "ok" | "timeout"
          want,    \* call -> the ids waited for
          seen,    \* call -> has the stream still to look at the channel's current value?
          due,     \* call -> the deadline has passed
          held,    \* history: call -> some snapshot that was current during the call named every id waited for
          pubs
vars == <<snap, st, want, seen, due, held, pubs>>

Sat(w, s) == IF AnyOf THEN w \cap s # {} ELSE w \subseteq s

Init == /\ snap = {} /\ pubs = 0
        /\ st = [c \in Calls |-> "new"] /\ want = [c \in Calls |-> {}]
        /\ seen = [c \in Calls |-> FALSE] /\ due = [c \in Calls |-> FALSE] /\ held = [c \in Calls |-> FALSE]

\* the membership layer publishes a new snapshot
Publish(s) ==
  /\ pubs < MaxPub /\ s # snap
  /\ pubs' = pubs + 1 /\ snap' = s
  /\ seen' = [c \in Calls |-> FALSE]
  /\ held' = [c \in Calls |-> held[c] \/ (st[c] = "pending" /\ want[c] \subseteq s)]
  /\ UNCHANGED <<st, want, due>>
Call(c, w) ==
  /\ st[c] = "new" /\ w # {}
  /\ st' = [st EXCEPT ![c] = "pending"] /\ want' = [want EXCEPT ![c] = w]
  /\ held' = [held EXCEPT ![c] = w \subseteq snap]
  /\ UNCHANGED <<snap, seen, due, pubs>>
\* the stream is polled: it looks at the current snapshot
Look(c) ==
  /\ st[c] = "pending" /\ ~seen[c]
  /\ seen' = [seen EXCEPT ![c] = TRUE]
  /\ st' = IF Sat(want[c], snap) THEN [st EXCEPT ![c] = "ok"] ELSE st
  /\ UNCHANGED <<snap, want, due, held, pubs>>
Deadline(c) ==
  /\ st[c] = "pending" /\ ~due[c]
  /\ due' = [due EXCEPT ![c] = TRUE]
  /\ UNCHANGED <<snap, st, want, seen, held, pubs>>
\* the timer is only looked at after the stream had nothing: no unseen snapshot is pending
TimeOut(c) ==
  /\ st[c] = "pending" /\ due[c] /\ seen[c]
  /\ st' = [st EXCEPT ![c] = "timeout"]
  /\ UNCHANGED <<snap, want, seen, due, held, pubs>>

Next == \/ \E s \in SUBSET Ids : Publish(s)
        \/ \E c \in Calls, w \in SUBSET Ids : Call(c, w)
        \/ \E c \in Calls : Look(c) \/ Deadline(c) \/ TimeOut(c)
Spec == Init /\ [][Next]_vars

----------------------------------------------------------------------------
\* Ok means: at some moment of the call the snapshot named every node waited for
OkMeansAllThere == \A c \in Calls : st[c] = "ok" => held[c]
\* a call is given up only after its deadline, and only while the snapshot current then lacks a node waited for
TimeoutMeansMissing == \A c \in Calls : (st[c] = "timeout" /\ seen[c]) => (due[c] /\ ~(want[c] \subseteq snap))
=============================================================================
