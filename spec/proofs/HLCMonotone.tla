----------------------------- MODULE HLCMonotone -----------------------------
(* TLAPS lemmas for C09, for UNBOUNDED times and any counter maximum: a        *)
(* successful send / recv moves the clock strictly forward (and past the      *)
(* message), keeps the node id, keeps the counter in range, and a send is     *)
(* never further ahead of the wall clock than the permitted drift.  Stated on *)
(* HLCFields.tla, which MC_HLC ties to HLC.tla on every transition it checks. *)
(* Checked with `tlapm HLCMonotone.tla` (SMT back end); thorough tier of C09. *)
EXTENDS HLCFields, TLAPS

ASSUME Params == Drift \in Nat /\ CounterMax \in Nat

THEOREM SendMovesForward ==
  ASSUME NEW t \in Nat, NEW c \in 0..CounterMax, NEW n \in Nat, NEW wall \in Nat,
         SendOkPre(t, c, wall)
  PROVE  /\ Lt(t, c, n, SendTime(t, wall), SendCounter(t, c, wall), n)
         /\ SendTime(t, wall) - wall <= Drift
         /\ SendCounter(t, c, wall) \in 0..CounterMax
  BY Params, SMT DEF SendOkPre, SendTime, SendCounter, Lt, Max2, SatSub

THEOREM RecvMovesForward ==
  ASSUME NEW t \in Nat, NEW c \in 0..CounterMax, NEW n \in Nat, NEW wall \in Nat,
         NEW mt \in Nat, NEW mc \in 0..CounterMax, NEW mn \in Nat,
         RecvOkPre(t, c, n, wall, mt, mc, mn)
  PROVE  LET tn == RecvTime(t, wall, mt)
             cn == RecvBase(t, c, wall, mt, mc) + 1
         IN /\ Lt(t, c, n, tn, cn, n)            \* past the clock itself
            /\ Lt(mt, mc, mn, tn, cn, n) \/ (mt = tn /\ mc < cn)   \* past the message (time, counter)
            /\ cn \in 0..CounterMax
  BY Params, SMT DEF RecvOkPre, RecvTime, RecvBase, Lt, Max2, SatSub
=============================================================================
