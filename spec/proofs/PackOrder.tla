------------------------------ MODULE PackOrder ------------------------------
(* TLAPS lemma for C10 (order preservation, injectivity of packing) at the    *)
(* REAL field widths: seconds 32 bits, fractional 8, counter 16, node 8.       *)
(*   Pack(s, f, c, n) = s * 2^32 + f * 2^24 + c * 2^8 + n                      *)
(* (the value HLCCodec.tla represents as four 16-bit limbs and timestamp.rs    *)
(* computes with shifts).  Lexicographic order on (s, f, c, n) coincides with  *)
(* < on the packed integers, hence equal packed values mean equal fields.      *)
(* Checked with `tlapm PackOrder.tla` (SMT back end); thorough tier of C10.    *)
EXTENDS Integers, TLAPS

S == 0..4294967295
Fr == 0..255
C == 0..65535
N == 0..255

Low(f, c, n) == f * 16777216 + c * 256 + n
Pack(s, f, c, n) == s * 4294967296 + Low(f, c, n)

LexLt(s1, f1, c1, n1, s2, f2, c2, n2) ==
  \/ s1 < s2
  \/ s1 = s2 /\ f1 < f2
  \/ s1 = s2 /\ f1 = f2 /\ c1 < c2
  \/ s1 = s2 /\ f1 = f2 /\ c1 = c2 /\ n1 < n2

LEMMA LowRange ==
  ASSUME NEW f \in Fr, NEW c \in C, NEW n \in N
  PROVE  Low(f, c, n) \in 0..4294967295
  BY SMT DEF Low, Fr, C, N

LEMMA LowMono ==
  ASSUME NEW f1 \in Fr, NEW c1 \in C, NEW n1 \in N,
         NEW f2 \in Fr, NEW c2 \in C, NEW n2 \in N
  PROVE  (Low(f1, c1, n1) < Low(f2, c2, n2)) <=>
           (f1 < f2 \/ (f1 = f2 /\ c1 < c2) \/ (f1 = f2 /\ c1 = c2 /\ n1 < n2))
<1>0. /\ f1 \in Int /\ c1 \in Int /\ n1 \in Int /\ f2 \in Int /\ c2 \in Int /\ n2 \in Int
      /\ 0 <= f1 /\ f1 <= 255 /\ 0 <= f2 /\ f2 <= 255
      /\ 0 <= c1 /\ c1 <= 65535 /\ 0 <= c2 /\ c2 <= 65535
      /\ 0 <= n1 /\ n1 <= 255 /\ 0 <= n2 /\ n2 <= 255
      BY DEF Fr, C, N
<1>1. CASE f1 < f2
  <2>a. f1 * 16777216 + 16777216 <= f2 * 16777216  BY <1>0, <1>1, SMT
  <2>b. c1 * 256 + n1 < 16777216 /\ 0 <= c2 * 256 + n2  BY <1>0, SMT
  <2>c. Low(f1, c1, n1) < Low(f2, c2, n2)  BY <1>0, <2>a, <2>b, SMT DEF Low
  <2>d. QED BY <1>1, <2>c
<1>2. CASE f1 > f2
      BY <1>0, <1>2, SMT DEF Low
<1>3. CASE f1 = f2
  <2>1. CASE c1 < c2
    <3>a. c1 * 256 + 256 <= c2 * 256  BY <1>0, <2>1, SMT
    <3>b. Low(f1, c1, n1) < Low(f2, c2, n2)  BY <1>0, <1>3, <3>a, SMT DEF Low
    <3>c. QED BY <1>3, <2>1, <3>b
  <2>2. CASE c1 > c2  BY <1>0, <1>3, <2>2, SMT DEF Low
  <2>3. CASE c1 = c2  BY <1>0, <1>3, <2>3, SMT DEF Low
  <2>4. QED BY <1>0, <2>1, <2>2, <2>3
<1>4. QED BY <1>0, <1>1, <1>2, <1>3

THEOREM PackMono ==
  ASSUME NEW s1 \in S, NEW f1 \in Fr, NEW c1 \in C, NEW n1 \in N,
         NEW s2 \in S, NEW f2 \in Fr, NEW c2 \in C, NEW n2 \in N
  PROVE  (Pack(s1, f1, c1, n1) < Pack(s2, f2, c2, n2)) <=> LexLt(s1, f1, c1, n1, s2, f2, c2, n2)
<1>a. /\ Low(f1, c1, n1) \in Int /\ 0 <= Low(f1, c1, n1) /\ Low(f1, c1, n1) <= 4294967295
      /\ Low(f2, c2, n2) \in Int /\ 0 <= Low(f2, c2, n2) /\ Low(f2, c2, n2) <= 4294967295
      BY LowRange
<1>b. (Low(f1, c1, n1) < Low(f2, c2, n2)) <=> (f1 < f2 \/ (f1 = f2 /\ c1 < c2) \/ (f1 = f2 /\ c1 = c2 /\ n1 < n2))
      BY LowMono
<1>c. s1 \in Int /\ s2 \in Int /\ 0 <= s1 /\ s1 <= 4294967295 /\ 0 <= s2 /\ s2 <= 4294967295
      BY DEF S
<1>1. CASE s1 < s2
  <2>a. s1 * 4294967296 + 4294967296 <= s2 * 4294967296  BY <1>1, <1>c, SMT
  <2>b. Pack(s1, f1, c1, n1) < Pack(s2, f2, c2, n2)  BY <1>a, <1>c, <2>a, SMT DEF Pack
  <2>c. QED BY <1>1, <2>b DEF LexLt
<1>2. CASE s1 > s2
      BY <1>2, <1>a, <1>c, SMT DEF Pack, LexLt
<1>3. CASE s1 = s2
      BY <1>3, <1>a, <1>b, <1>c, SMT DEF Pack, LexLt
<1>4. QED BY <1>1, <1>2, <1>3, <1>c

COROLLARY PackInjective ==
  ASSUME NEW s1 \in S, NEW f1 \in Fr, NEW c1 \in C, NEW n1 \in N,
         NEW s2 \in S, NEW f2 \in Fr, NEW c2 \in C, NEW n2 \in N,
         Pack(s1, f1, c1, n1) = Pack(s2, f2, c2, n2)
  PROVE  s1 = s2 /\ f1 = f2 /\ c1 = c2 /\ n1 = n2
<1>1. ~LexLt(s1, f1, c1, n1, s2, f2, c2, n2) BY PackMono, SMT DEF S
<1>2. ~LexLt(s2, f2, c2, n2, s1, f1, c1, n1) BY PackMono, SMT DEF S
<1>3. QED BY <1>1, <1>2, SMT DEF LexLt, S, Fr, C, N
=============================================================================
